(** C03 proofs, Python side.  The chunk loop of [_version_cmp_part] computes the
    padded lexicographic order [keys_cmp] on a key of (non-digit run, number)
    pairs, for every string ([py_cmp_part_key]).  The key of a string is read off
    its chunk list ([pkey]); [pkey_unfold] gives its left-to-right description. *)
From Verif Require Import Lib.Base Lib.Dec Lib.PyStr Gen.PyChars
  Version.Parse Version.Compare Version.CompareLex.
Local Open Scope Z_scope.

Definition z_of_cmp (c : comparison) : Z :=
  match c with Lt => -1 | Eq => 0 | Gt => 1 end.

Lemma z_of_cmp_opp c : z_of_cmp (CompOpp c) = - z_of_cmp c.
Proof. now destruct c. Qed.

Lemma z_of_cmp_inj c c' : z_of_cmp c = z_of_cmp c' -> c = c'.
Proof. destruct c, c'; simpl; congruence. Qed.

Lemma z_of_cmp_0 c : z_of_cmp c = 0 <-> c = Eq.
Proof. destruct c; simpl; split; congruence. Qed.

(** * The order on keys *)

Lemma Zcompare_laws : cmp_laws Z.compare.
Proof.
  split.
  - apply Z.compare_refl.
  - intros x y. apply Z.compare_antisym.
  - intros x y z. rewrite !Z.compare_lt_iff. lia.
  - intros x y z H. apply Z.compare_eq in H. now subst.
Qed.

Lemma Ncompare_laws : cmp_laws N.compare.
Proof.
  split.
  - apply N.compare_refl.
  - intros x y. apply N.compare_antisym.
  - intros x y z. rewrite !N.compare_lt_iff. lia.
  - intros x y z H. apply N.compare_eq in H. now subst.
Qed.

(** non-digit runs: by character order, a shorter run padded with 0 *)
Definition ord_cmp (x y : str) : comparison :=
  lexpad Z.compare 0 (map py_order x) (map py_order y).

Lemma ord_cmp_laws : cmp_laws ord_cmp.
Proof.
  pose proof (lexpad_laws Z.compare 0 Zcompare_laws) as L.
  unfold ord_cmp. split; intros.
  - apply (cl_refl _ L).
  - apply (cl_anti _ L).
  - eapply (cl_trans _ L); eauto.
  - now apply (cl_eq_l _ L).
Qed.

Definition key_cmp : key_elt -> key_elt -> comparison := lexprod ord_cmp N.compare.
Definition key_dflt : key_elt := ([], 0%N).
Definition keys_cmp : list key_elt -> list key_elt -> comparison := lexpad key_cmp key_dflt.

Lemma key_cmp_laws : cmp_laws key_cmp.
Proof. apply lexprod_laws; [apply ord_cmp_laws|apply Ncompare_laws]. Qed.

Lemma keys_cmp_laws : cmp_laws keys_cmp.
Proof. apply lexpad_laws, key_cmp_laws. Qed.

(** * [_version_cmp_string] *)

Lemma cmp_orders_r_lexpad lb : cmp_orders_r lb = z_of_cmp (lexpad_r Z.compare 0 lb).
Proof.
  induction lb as [|b lb IH]; cbn [cmp_orders_r lexpad_r]; auto.
  destruct (Z.compare_spec 0 b); destruct (Z.ltb_spec 0 b); destruct (Z.ltb_spec b 0);
    try lia; auto.
Qed.

Lemma cmp_orders_lexpad la : forall lb, cmp_orders la lb = z_of_cmp (lexpad Z.compare 0 la lb).
Proof.
  induction la as [|a la IH]; intro lb; cbn [cmp_orders lexpad].
  - apply cmp_orders_r_lexpad.
  - destruct lb as [|b lb].
    + destruct (Z.compare_spec a 0); destruct (Z.ltb_spec a 0); destruct (Z.ltb_spec 0 a);
        try lia; auto.
    + destruct (Z.compare_spec a b); destruct (Z.ltb_spec a b); destruct (Z.ltb_spec b a);
        try lia; auto.
Qed.

Lemma py_cmp_string_ord a b : py_cmp_string a b = z_of_cmp (ord_cmp a b).
Proof. apply cmp_orders_lexpad. Qed.

(** * Character orders *)

Lemma nd_val_lt10 c : (nd_val c < 10)%N.
Proof.
  unfold nd_val. induction nd_zeros as [|z zs IH]; simpl; [lia|].
  destruct ((z <=? c)%N && (c <? z + 10)%N) eqn:E; auto.
  apply andb_true_iff in E. destruct E as [E1 E2].
  apply N.leb_le in E1. apply N.ltb_lt in E2. lia.
Qed.

Lemma tilde_not_digit : re_d 126 = false.
Proof. vm_compute. reflexivity. Qed.

Lemma py_order_digit c : re_d c = true -> 1 <= py_order c <= 10.
Proof.
  intro H. unfold py_order.
  destruct (c =? 126)%N eqn:E.
  - apply N.eqb_eq in E. subst c. rewrite tilde_not_digit in H. discriminate.
  - rewrite H. pose proof (nd_val_lt10 c). lia.
Qed.

Lemma py_order_nondigit c : re_d c = false -> py_order c < 0 \/ 10 < py_order c.
Proof.
  intro H. unfold py_order.
  destruct (c =? 126)%N; [lia|]. rewrite H.
  unfold re_alpha.
  destruct (((65 <=? c)%N && (c <=? 90)%N) || ((97 <=? c)%N && (c <=? 122)%N)) eqn:E; [|lia].
  apply orb_true_iff in E. destruct E as [E|E]; apply andb_true_iff in E; destruct E as [E1 E2];
    apply N.leb_le in E1; apply N.leb_le in E2; lia.
Qed.

(** * Chunk lists *)

Definition dchunk (c : str) : bool := starts_digit c && forallb re_d c.
Definition nchunk (c : str) : bool := negb (is_nil c) && forallb (fun x => negb (re_d x)) c.

Fixpoint alt (dg : bool) (cs : list str) : bool :=
  match cs with
  | [] => true
  | c :: cs' => (if dg then dchunk c else nchunk c) && alt (negb dg) cs'
  end.

Definition pval (d : str) : N := horner nd_val 0 d.

Lemma pval_zero : pval chunk_zero = 0%N.
Proof. vm_compute. reflexivity. Qed.

Lemma dchunk_zero : dchunk chunk_zero = true.
Proof. vm_compute. reflexivity. Qed.

(** the key of a chunk list that starts with a non-digit chunk / a digit chunk *)
Fixpoint koc_n (cs : list str) : list key_elt :=
  match cs with
  | [] => []
  | n :: cs' =>
      match cs' with
      | [] => [(n, 0%N)]
      | d :: cs'' => (n, pval d) :: koc_n cs''
      end
  end.

Definition koc_d (cs : list str) : list key_elt :=
  match cs with
  | [] => []
  | d :: cs' => ([], pval d) :: koc_n cs'
  end.

Definition hd0 (cs : list str) : str := hd chunk_zero cs.

Lemma koc_n_cons n cs : koc_n (n :: cs) = (n, pval (hd0 cs)) :: koc_n (tl cs).
Proof. destruct cs; simpl; [now rewrite pval_zero|reflexivity]. Qed.

Lemma nchunk_starts a : nchunk a = true -> starts_digit a = false.
Proof.
  destruct a as [|c a]; simpl; auto. unfold nchunk. simpl.
  intro H. apply andb_true_iff in H. destruct H as [H _]. now destruct (re_d c).
Qed.

Lemma cmp_chunk_dd a b : dchunk a = true -> dchunk b = true ->
  cmp_chunk a b = z_of_cmp (N.compare (pval a) (pval b)).
Proof.
  unfold dchunk, cmp_chunk. intros Ha Hb.
  apply andb_true_iff in Ha. apply andb_true_iff in Hb.
  destruct Ha as [-> _], Hb as [-> _]. simpl.
  unfold py_int_digits. fold (pval a) (pval b).
  rewrite <- N2Z.inj_compare.
  destruct (Z.compare_spec (Z.of_N (pval a)) (Z.of_N (pval b)));
    destruct (Z.ltb_spec (Z.of_N (pval a)) (Z.of_N (pval b)));
    destruct (Z.ltb_spec (Z.of_N (pval b)) (Z.of_N (pval a))); try lia; auto.
Qed.

Lemma cmp_chunk_n_l a b : nchunk a = true -> cmp_chunk a b = z_of_cmp (ord_cmp a b).
Proof.
  intro H. unfold cmp_chunk. rewrite (nchunk_starts _ H). simpl. apply py_cmp_string_ord.
Qed.

Lemma cmp_chunk_n_r a b : nchunk b = true -> cmp_chunk a b = z_of_cmp (ord_cmp a b).
Proof.
  intro H. unfold cmp_chunk. rewrite (nchunk_starts _ H), andb_false_r. apply py_cmp_string_ord.
Qed.

(** the misaligned case: a digit chunk against a non-digit chunk is decided by the
    first characters, the way the empty run against the non-digit chunk is *)
Lemma ord_cmp_d_n da nb : dchunk da = true -> nchunk nb = true ->
  ord_cmp da nb = ord_cmp [] nb /\ ord_cmp [] nb <> Eq.
Proof.
  unfold dchunk, nchunk. intros Ha Hb.
  destruct da as [|c da]; [discriminate|]. destruct nb as [|x nb]; [discriminate|].
  simpl in Ha, Hb. apply andb_true_iff in Ha. destruct Ha as [Hc _].
  destruct (re_d x) eqn:Hx; [discriminate|].
  pose proof (py_order_digit c Hc) as Oc. pose proof (py_order_nondigit x Hx) as Ox.
  unfold ord_cmp. cbn [map lexpad lexpad_r].
  destruct (Z.compare_spec (py_order c) (py_order x)); destruct (Z.compare_spec 0 (py_order x));
    try lia; split; congruence.
Qed.

Lemma ord_cmp_n_d na db : nchunk na = true -> dchunk db = true ->
  ord_cmp na db = ord_cmp na [] /\ ord_cmp na [] <> Eq.
Proof.
  intros Ha Hb. destruct (ord_cmp_d_n db na Hb Ha) as [H1 H2].
  pose proof ord_cmp_laws as L.
  rewrite (cl_anti _ L db na), (cl_anti _ L [] na), H1. split; auto.
  destruct (ord_cmp [] na); simpl; congruence.
Qed.

Lemma cmp_chunks_step la lb :
  la <> [] \/ lb <> [] ->
  cmp_chunks la lb =
    let r := cmp_chunk (hd0 la) (hd0 lb) in
    if r =? 0 then cmp_chunks (tl la) (tl lb) else r.
Proof.
  destruct la as [|a la], lb as [|b lb]; simpl; intros [H|H]; try congruence; reflexivity.
Qed.

Lemma keys_cmp_step X Y :
  X <> [] \/ Y <> [] ->
  keys_cmp X Y = match key_cmp (hdd key_dflt X) (hdd key_dflt Y) with
                 | Eq => keys_cmp (tl X) (tl Y)
                 | r => r
                 end.
Proof. apply lexpad_step. Qed.

Lemma hdd_koc_d cs : hdd key_dflt (koc_d cs) = ([], pval (hd0 cs)).
Proof. destruct cs; simpl; [now rewrite pval_zero|reflexivity]. Qed.

Lemma tl_koc_d cs : tl (koc_d cs) = koc_n (tl cs).
Proof. destruct cs; reflexivity. Qed.

Lemma hdd_koc_n cs : hdd key_dflt (koc_n cs) = (hd [] cs, pval (hd0 (tl cs))).
Proof.
  destruct cs as [|n cs]; simpl; [now rewrite pval_zero|].
  destruct cs; simpl; [now rewrite pval_zero|reflexivity].
Qed.

Lemma tl_koc_n cs : tl (koc_n cs) = koc_n (tl (tl cs)).
Proof. destruct cs as [|n [|d cs]]; reflexivity. Qed.

Lemma ord_cmp_nil : ord_cmp [] [] = Eq.
Proof. reflexivity. Qed.

Lemma key_cmp_unfold n1 v1 n2 v2 :
  key_cmp (n1, v1) (n2, v2) = match ord_cmp n1 n2 with Eq => N.compare v1 v2 | r => r end.
Proof. reflexivity. Qed.

Lemma alt_hd0_d cs : alt true cs = true -> dchunk (hd0 cs) = true.
Proof.
  destruct cs; simpl; [intros _; apply dchunk_zero|].
  intro H. now apply andb_true_iff in H.
Qed.

Lemma alt_tl dg cs : alt dg cs = true -> alt (negb dg) (tl cs) = true.
Proof.
  destruct cs; simpl; [reflexivity|]. intro H. now apply andb_true_iff in H.
Qed.

Lemma keys_cmp_koc_d la lb :
  keys_cmp (koc_d la) (koc_d lb) =
    match N.compare (pval (hd0 la)) (pval (hd0 lb)) with
    | Eq => keys_cmp (koc_n (tl la)) (koc_n (tl lb))
    | r => r
    end.
Proof.
  destruct la as [|a la], lb as [|b lb]; reflexivity.
Qed.

Lemma cmp_chunks_key n : forall la lb, (length la + length lb <= n)%nat ->
  (alt false la = true -> alt false lb = true ->
   cmp_chunks la lb = z_of_cmp (keys_cmp (koc_n la) (koc_n lb)))
  /\ (alt true la = true -> alt true lb = true ->
      cmp_chunks la lb = z_of_cmp (keys_cmp (koc_d la) (koc_d lb))).
Proof.
  induction n as [|n IH]; intros la lb Hn.
  - destruct la, lb; simpl in Hn; try lia. split; reflexivity.
  - split; intros Ha Hb.
    + (* both expect a non-digit chunk *)
      destruct la as [|na la]; destruct lb as [|nb lb].
      * reflexivity.
      * simpl in Hb. apply andb_true_iff in Hb. destruct Hb as [Hnb Hb].
        rewrite cmp_chunks_step by (right; discriminate).
        cbn [hd0 hd tl]. cbv zeta.
        rewrite (cmp_chunk_n_r _ _ Hnb).
        destruct (ord_cmp_d_n _ _ dchunk_zero Hnb) as [E1 E2]. rewrite E1.
        rewrite koc_n_cons. cbn [koc_n keys_cmp lexpad lexpad_r].
        change (key_cmp key_dflt (nb, pval (hd0 lb))) with
          (match ord_cmp [] nb with Eq => N.compare 0 (pval (hd0 lb)) | r => r end).
        destruct (ord_cmp [] nb); simpl; congruence.
      * simpl in Ha. apply andb_true_iff in Ha. destruct Ha as [Hna Ha].
        rewrite cmp_chunks_step by (left; discriminate).
        cbn [hd0 hd tl]. cbv zeta.
        rewrite (cmp_chunk_n_l _ _ Hna).
        destruct (ord_cmp_n_d _ _ Hna dchunk_zero) as [E1 E2]. rewrite E1.
        rewrite koc_n_cons. cbn [koc_n keys_cmp lexpad lexpad_r].
        change (key_cmp (na, pval (hd0 la)) key_dflt) with
          (match ord_cmp na [] with Eq => N.compare (pval (hd0 la)) 0 | r => r end).
        destruct (ord_cmp na []); simpl; congruence.
      * simpl in Ha, Hb. apply andb_true_iff in Ha. apply andb_true_iff in Hb.
        destruct Ha as [Hna Ha], Hb as [Hnb Hb]. simpl in Ha, Hb.
        rewrite cmp_chunks_step by (left; discriminate).
        cbn [hd0 hd tl]. cbv zeta.
        rewrite (cmp_chunk_n_l _ _ Hna).
        rewrite !koc_n_cons. cbn [keys_cmp lexpad].
        fold keys_cmp. rewrite key_cmp_unfold.
        destruct (ord_cmp na nb) eqn:E; simpl; auto.
        rewrite <- keys_cmp_koc_d.
        apply (IH la lb); [simpl in Hn; lia|assumption|assumption].
    + (* both expect a digit chunk *)
      destruct la as [|da la]; destruct lb as [|db lb]; [reflexivity| | |].
      all: match goal with |- cmp_chunks ?X ?Y = _ =>
             assert (IH' : cmp_chunks (tl X) (tl Y)
                           = z_of_cmp (keys_cmp (koc_n (tl X)) (koc_n (tl Y))))
               by (apply (proj1 (IH (tl X) (tl Y) ltac:(simpl in *; lia)));
                   [exact (alt_tl _ _ Ha)|exact (alt_tl _ _ Hb)])
           end.
      all: rewrite cmp_chunks_step by (first [left; discriminate | right; discriminate]).
      all: cbv zeta.
      all: rewrite (cmp_chunk_dd _ _ (alt_hd0_d _ Ha) (alt_hd0_d _ Hb)).
      all: rewrite keys_cmp_koc_d.
      all: destruct (N.compare (pval (hd0 _)) (pval (hd0 _))); [exact IH'|reflexivity|reflexivity].
Qed.

(** * [re.findall(r"\d+|\D+", s)] *)

Lemma py_chunks_head c s : exists ch rest, py_chunks (c :: s) = (c :: ch) :: rest.
Proof.
  simpl. destruct (py_chunks s) as [|[|d ch] rest]; try (now eexists; eexists).
  destruct (Bool.eqb (re_d c) (re_d d)); now eexists; eexists.
Qed.

Lemma homog_cons (k : bool) c ch :
  (if k then dchunk (c :: ch) else nchunk (c :: ch)) = true ->
  forall x, re_d x = k ->
  (if k then dchunk (x :: c :: ch) else nchunk (x :: c :: ch)) = true.
Proof.
  destruct k; unfold dchunk, nchunk; simpl; intros H x Hx; rewrite Hx; simpl.
  - apply andb_true_iff in H. tauto.
  - exact H.
Qed.

Lemma homog_head (k : bool) c ch :
  (if k then dchunk (c :: ch) else nchunk (c :: ch)) = true -> re_d c = k.
Proof.
  destruct k; unfold dchunk, nchunk; simpl; intro H.
  - apply andb_true_iff in H. tauto.
  - apply andb_true_iff in H. destruct H as [H _]. now destruct (re_d c).
Qed.

Lemma homog_single c : (if re_d c then dchunk [c] else nchunk [c]) = true.
Proof. unfold dchunk, nchunk. simpl. destruct (re_d c) eqn:E; simpl; now rewrite ?E. Qed.

Lemma py_chunks_alt s : alt (starts_digit s) (py_chunks s) = true.
Proof.
  induction s as [|c s IH]; [reflexivity|].
  destruct s as [|d s].
  - simpl. rewrite (homog_single c). reflexivity.
  - destruct (py_chunks_head d s) as (ch & rest & E).
    cbn [py_chunks] in *. rewrite E in *. cbn [starts_digit] in *.
    cbn [alt] in IH. apply andb_true_iff in IH. destruct IH as [Hh Ht].
    destruct (Bool.eqb (re_d c) (re_d d)) eqn:Ecd.
    + apply eqb_prop in Ecd. cbn [alt]. rewrite Ecd, Ht, andb_true_r.
      apply homog_cons; auto.
    + cbn [alt]. rewrite (homog_single c). cbn [andb].
      assert (negb (re_d c) = re_d d) as -> by (destruct (re_d c), (re_d d); simpl in *; congruence).
      now rewrite Hh, Ht.
Qed.

(** left-to-right description: a maximal run is the first chunk *)
Lemma py_chunks_run k run : run <> [] -> forallb (fun x => Bool.eqb (re_d x) k) run = true ->
  forall rest, (match rest with [] => true | d :: _ => negb (Bool.eqb (re_d d) k) end) = true ->
  py_chunks (run ++ rest) = run :: py_chunks rest.
Proof.
  induction run as [|c run IH]; [congruence|]. intros _ Hrun rest Hrest.
  cbn [forallb] in Hrun. apply andb_true_iff in Hrun. destruct Hrun as [Hc Hrun].
  apply eqb_prop in Hc.
  destruct run as [|c' run].
  - cbn [app]. destruct rest as [|d rest]; [reflexivity|].
    destruct (py_chunks_head d rest) as (ch & more & E).
    cbn [py_chunks] in *. rewrite E.
    destruct (Bool.eqb (re_d c) (re_d d)) eqn:Ecd; [|reflexivity].
    apply eqb_prop in Ecd. rewrite <- Ecd, Hc in Hrest. now destruct k.
  - assert (Hne : c' :: run <> []) by discriminate.
    specialize (IH Hne Hrun rest Hrest).
    change ((c :: c' :: run) ++ rest) with (c :: ((c' :: run) ++ rest)).
    cbn [py_chunks]. cbn [py_chunks] in IH. rewrite IH.
    cbn [forallb] in Hrun. apply andb_true_iff in Hrun. destruct Hrun as [Hc' _].
    apply eqb_prop in Hc'. rewrite Hc, Hc'. now destruct k.
Qed.

(** * The key of a string *)

Definition pkey (s : str) : list key_elt :=
  if starts_digit s then koc_d (py_chunks s) else koc_n (py_chunks s).

Theorem py_cmp_part_key a b : py_cmp_part a b = z_of_cmp (keys_cmp (pkey a) (pkey b)).
Proof.
  unfold py_cmp_part, pkey.
  pose proof (py_chunks_alt a) as Ha. pose proof (py_chunks_alt b) as Hb.
  pose proof (cmp_chunks_key _ (py_chunks a) (py_chunks b) (le_n _)) as [HN HD].
  destruct (starts_digit a) eqn:Ea; destruct (starts_digit b) eqn:Eb.
  - now apply HD.
  - destruct b as [|x b]; [now apply HD|].
    destruct a as [|c a]; [discriminate|].
    destruct (py_chunks_head x b) as (chb & rb & E2). destruct (py_chunks_head c a) as (cha & ra & E1).
    rewrite E1, E2 in *. cbn [alt] in Ha, Hb.
    apply andb_true_iff in Ha. apply andb_true_iff in Hb. destruct Ha as [Hda _], Hb as [Hnb _].
    rewrite cmp_chunks_step by (left; discriminate). cbn [hd0 hd tl]. cbv zeta.
    rewrite (cmp_chunk_n_r _ _ Hnb). destruct (ord_cmp_d_n _ _ Hda Hnb) as [F1 F2]. rewrite F1.
    cbn [koc_d]. rewrite koc_n_cons. cbn [keys_cmp lexpad]. rewrite key_cmp_unfold.
    destruct (ord_cmp [] (x :: chb)); simpl; congruence.
  - destruct a as [|x a]; [now apply HD|].
    destruct b as [|c b]; [discriminate|].
    destruct (py_chunks_head x a) as (cha & ra & E1). destruct (py_chunks_head c b) as (chb & rb & E2).
    rewrite E1, E2 in *. cbn [alt] in Ha, Hb.
    apply andb_true_iff in Ha. apply andb_true_iff in Hb. destruct Ha as [Hna _], Hb as [Hdb _].
    rewrite cmp_chunks_step by (left; discriminate). cbn [hd0 hd tl]. cbv zeta.
    rewrite (cmp_chunk_n_l _ _ Hna). destruct (ord_cmp_n_d _ _ Hna Hdb) as [F1 F2]. rewrite F1.
    cbn [koc_d]. rewrite koc_n_cons. cbn [keys_cmp lexpad]. rewrite key_cmp_unfold.
    destruct (ord_cmp (x :: cha) []); simpl; congruence.
  - now apply HN.
Qed.

Lemma span_ext {A} (p q : A -> bool) s :
  (forall x, In x s -> p x = q x) -> span p s = span q s.
Proof.
  induction s as [|c s IH]; intro H; simpl; [reflexivity|].
  rewrite <- (H c (or_introl eq_refl)). rewrite IH; [reflexivity|].
  intros x Hx. apply H. now right.
Qed.

Lemma py_chunks_span (k : bool) c s : re_d c = k ->
  let p := fun x => Bool.eqb (re_d x) k in
  py_chunks (c :: s) = fst (span p (c :: s)) :: py_chunks (snd (span p (c :: s))).
Proof.
  intros Hc p.
  pose proof (span_app p (c :: s)) as Happ.
  pose proof (span_all p (c :: s)) as Hall.
  assert (Hne : fst (span p (c :: s)) <> []).
  { simpl. unfold p at 1. rewrite Hc, eqb_reflx. destruct (span p s); discriminate. }
  rewrite <- Happ at 1. apply (py_chunks_run k); auto.
  destruct (snd (span p (c :: s))) as [|x r] eqn:E; [reflexivity|].
  apply span_snd_head in E. unfold p in E. now rewrite E.
Qed.

Definition nondig (c : N) : bool := negb (re_d c).

(** first the maximal run of non-digits (possibly empty), then the maximal run of
    digits (possibly empty): one key element; the rest of the string gives the rest *)
Definition cut_nd (s : str) : str := fst (span nondig s).
Definition cut_dg (s : str) : str := fst (span re_d (snd (span nondig s))).
Definition cut_rest (s : str) : str := snd (span re_d (snd (span nondig s))).

Lemma cut_app s : s = cut_nd s ++ cut_dg s ++ cut_rest s.
Proof.
  unfold cut_nd, cut_dg, cut_rest. now rewrite !span_app.
Qed.

Lemma span_eqb_false s : span (fun x => Bool.eqb (re_d x) false) s = span nondig s.
Proof. apply span_ext. intros x _. unfold nondig. now destruct (re_d x). Qed.

Lemma span_eqb_true s : span (fun x => Bool.eqb (re_d x) true) s = span re_d s.
Proof. apply span_ext. intros x _. now destruct (re_d x). Qed.

Lemma starts_digit_after_digits s : starts_digit (snd (span re_d s)) = false.
Proof.
  destruct (snd (span re_d s)) as [|x r] eqn:E; [reflexivity|].
  apply span_snd_head in E. exact E.
Qed.

Lemma pkey_nil : pkey [] = [].
Proof. reflexivity. Qed.

Theorem pkey_unfold s : s <> [] ->
  pkey s = (cut_nd s, pval (cut_dg s)) :: pkey (cut_rest s).
Proof.
  destruct s as [|c s]; [congruence|]. intros _.
  unfold cut_nd, cut_dg, cut_rest.
  destruct (re_d c) eqn:Hc.
  - (* starts with a digit *)
    assert (E : span nondig (c :: s) = ([], c :: s)) by (simpl; unfold nondig; now rewrite Hc).
    rewrite E. cbn [fst snd].
    unfold pkey at 1. cbn [starts_digit]. rewrite Hc.
    rewrite (py_chunks_span true c s Hc). cbv zeta. rewrite span_eqb_true.
    cbn [koc_d]. f_equal.
    unfold pkey. now rewrite starts_digit_after_digits.
  - (* starts with a non-digit *)
    unfold pkey at 1. cbn [starts_digit]. rewrite Hc.
    rewrite (py_chunks_span false c s Hc). cbv zeta. rewrite span_eqb_false.
    destruct (snd (span nondig (c :: s))) as [|x r] eqn:E.
    + reflexivity.
    + pose proof (span_snd_head _ _ _ _ E) as Hx. unfold nondig in Hx.
      apply negb_false_iff in Hx.
      rewrite (py_chunks_span true x r Hx). cbv zeta. rewrite span_eqb_true.
      cbn [koc_n]. f_equal.
      unfold pkey. now rewrite starts_digit_after_digits.
Qed.

Lemma cut_rest_shorter s : s <> [] -> (length (cut_rest s) < length s)%nat.
Proof.
  intro H. rewrite (cut_app s) at 2. rewrite !app_length.
  destruct s as [|c s]; [congruence|].
  unfold cut_nd, cut_dg. simpl span.
  unfold nondig at 1 3. destruct (re_d c) eqn:Hc; simpl negb; cbv iota.
  - cbn [fst snd]. simpl span. rewrite Hc. destruct (span re_d s). simpl. lia.
  - destruct (span nondig s). simpl. lia.
Qed.
