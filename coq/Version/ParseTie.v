(** C14 — tie by regeneration: the regenerated methods of BaseVersion (Gen/TrVersionParse.v, rewritten from
    lib/debian/debian_support.py on every run) against the model functions of Version/Parse.v
    ([set_full], [update_full], [setattr], [version_new], [getattr], [version_str]) — the functions that
    [ParseCheck.agree] runs and that the theorems of Props/C14.v are about — for ALL states and values.

    The translated state-changing methods thread the four private attributes and return [mres unit stT];
    [rview st0 r] / [sview r] read a model result in that shape (they lose nothing: [rview_inj],
    [sview_inj]).  [__setattr__] and [_update_full_version] call each other: one mutual Fixpoint on explicit
    fuel; the lemmas hold for every fuel >= 3 (resp. 2), in particular for the fuel that callers outside the
    group pass. *)
From Coq Require Import Lia.
From Verif Require Import Lib.Base Lib.Dec Lib.PyStr Lib.Tr Version.Parse Version.ParseTrPrims
  Gen.TrVersionParse.

(** a model result [result vstate] (the state is unchanged on an exception: [st0]) *)
Definition rview (st0 : stT) (r : result vstate) : mres unit stT :=
  match r with
  | Ok st' => MOk tt (st_of st')
  | Err e => MErr e st0
  end.

(** a model result [vstate * option err] (state reached, exception if any) *)
Definition sview (r : vstate * option err) : mres unit stT :=
  match snd r with
  | None => MOk tt (st_of (fst r))
  | Some e => MErr e (st_of (fst r))
  end.

Lemma st_of_inj a b : st_of a = st_of b -> a = b.
Proof. destruct a, b. unfold st_of. cbn. intros H. injection H as -> -> -> ->. reflexivity. Qed.

Lemma rview_inj st0 r1 r2 : rview st0 r1 = rview st0 r2 -> r1 = r2.
Proof.
  destruct r1 as [a|e1], r2 as [b|e2]; cbn; intros H; try discriminate.
  - assert (E : st_of a = st_of b) by congruence. now rewrite (st_of_inj _ _ E).
  - congruence.
Qed.

Lemma sview_inj r1 r2 : sview r1 = sview r2 -> r1 = r2.
Proof.
  destruct r1 as [a [e1|]], r2 as [b [e2|]]; unfold sview; cbn; intros H; try discriminate.
  - assert (E : st_of a = st_of b) by congruence. rewrite (st_of_inj _ _ E). congruence.
  - assert (E : st_of a = st_of b) by congruence. now rewrite (st_of_inj _ _ E).
Qed.

Lemma mkV_eta st : mkV (st_full st) (st_epoch st) (st_up st) (st_rev st) = st.
Proof. now destruct st. Qed.

Lemma pv_nn v : pv_of (nn_of v) = v.
Proof. now destruct v. Qed.
Lemma nn_pv v : nn_of (pv_of v) = v.
Proof. now destruct v as [[s|z]|]. Qed.

(** * names *)
Definition L_full : str := [102; 117; 108; 108; 95; 118; 101; 114; 115; 105; 111; 110]%N.
Definition L_debver : str := [100; 101; 98; 105; 97; 110; 95; 118; 101; 114; 115; 105; 111; 110]%N.
Definition L_debrev : str := [100; 101; 98; 105; 97; 110; 95; 114; 101; 118; 105; 115; 105; 111; 110]%N.

Lemma names_lit :
  s_full_version = L_full /\ s_debian_version = L_debver /\ s_debian_revision = L_debrev.
Proof. vm_compute. repeat split. Qed.

Lemma magic_lits :
  trp_magic_attrs = [s_full_version; s_epoch; s_upstream_version; s_debian_revision; s_debian_version].
Proof. vm_compute. reflexivity. Qed.

Lemma strip_prefix_app p a : strip_prefix p (p ++ a) = Some a.
Proof. induction p as [|c p IH]; cbn; [reflexivity|]. now rewrite N.eqb_refl. Qed.

(** a magic name is not a mangled private name *)
Lemma magic_not_private name :
  existsb (str_eqb name) magic_attrs = true -> is_private name = false.
Proof.
  change magic_attrs with trp_magic_attrs. rewrite magic_lits. cbn [existsb]. intros H.
  repeat (apply Bool.orb_true_iff in H; destruct H as [H|H]);
    try (apply str_eqb_eq in H; subst name; vm_compute; reflexivity).
  discriminate H.
Qed.

(** * _set_full_version *)
Lemma is_none_eq {A} (o : option A) : tr_is_none o = is_none o.
Proof. now destruct o. Qed.

Lemma tr_set_full_eq s_full s_ep s_up s_rev version :
  tr_set_full_version s_full s_ep s_up s_rev version
  = rview (s_full, s_ep, s_up, s_rev) (set_full version).
Proof.
  unfold tr_set_full_version, set_full, trp_match_version, trp_group_epoch, trp_group_upstream,
    trp_group_revision.
  destruct (match_version version) as [[[e u] r]|]; [|reflexivity].
  cbn [fst snd]. unfold tr_is_none, is_none, tr_char_in, mem_char.
  destruct e as [e|], r as [r|]; cbn [andb];
    repeat match goal with |- context [existsb ?f u] => destruct (existsb f u) end; reflexivity.
Qed.

(** * __setattr__ / _update_full_version (one mutual Fixpoint on fuel) *)
Lemma in_magic_full : tr_str_in L_full trp_magic_attrs = true.
Proof. vm_compute. reflexivity. Qed.

Lemma mres_eta (r : mres unit stT) :
  match r with
  | MOk _ (a, b, c, d) => MOk tt (a, b, c, d)
  | MErr e s => MErr e s
  end = r.
Proof. destruct r as [[] [[[a b] c] d]|e s]; reflexivity. Qed.

(** the "full_version" branch of __setattr__ is _set_full_version(str(value)) and does not come back *)
Lemma tr_setattr_full fuel s_full s_ep s_up s_rev v :
  tr_setattr (S fuel) s_full s_ep s_up s_rev L_full v
  = tr_set_full_version s_full s_ep s_up s_rev (trp_str_opt v).
Proof.
  cbn [tr_setattr]. fold L_full L_debver L_debrev. rewrite in_magic_full. cbn [negb].
  replace (str_eqb L_full L_debver) with false by reflexivity.
  rewrite str_eqb_refl. apply mres_eta.
Qed.

Lemma tr_update_eq fuel s_full s_ep s_up s_rev :
  tr_update_full_version (S (S fuel)) s_full s_ep s_up s_rev
  = rview (s_full, s_ep, s_up, s_rev) (update_full (mkV s_full s_ep s_up s_rev)).
Proof.
  cbn [tr_update_full_version]. fold L_full. unfold update_full. cbn [st_epoch st_up st_rev].
  destruct s_ep as [e|], s_up as [u|], s_rev as [[|c r]|];
    cbn [tr_is_some tr_add_opt tr_opt_nonempty]; try reflexivity;
    rewrite tr_setattr_full, tr_set_full_eq; cbn [trp_str_opt pv_of py_str app];
    apply mres_eta.
Qed.

(** the exceptions of the model's [set_full] / [update_full] *)
Lemma set_full_err s e : set_full s = Err e -> e = ValueError.
Proof.
  unfold set_full. destruct (match_version s) as [[[ep u] r]|]; [|congruence].
  destruct (is_none ep && mem_char 58 u); [congruence|].
  destruct (is_none r && mem_char 45 u); congruence.
Qed.

Lemma update_full_err st e : update_full st = Err e -> e = ValueError \/ e = TypeError.
Proof.
  unfold update_full. destruct (st_up st) as [u|]; [|intros H; right; congruence].
  intros H. left. exact (set_full_err _ _ H).
Qed.

(** the private slots, through the model's [put_private] *)
Lemma put_private_slot a v w st :
  put_private a v st = None -> put_private a w st = None.
Proof.
  unfold put_private.
  destruct (str_eqb a s_epoch); [discriminate|].
  destruct (str_eqb a s_upstream_version); [discriminate|].
  destruct (str_eqb a s_debian_revision); [discriminate|reflexivity].
Qed.

Lemma slot_facts a st x :
  put_private a None st = Some x ->
  exists o, getattr st a = Some o
    /\ forall v, exists st1, put_private a v st = Some st1 /\ put_private a o st1 = Some st.
Proof.
  unfold put_private.
  destruct (str_eqb a s_epoch) eqn:E1.
  { apply str_eqb_eq in E1. subst a. intros _. exists (st_epoch st). split; [reflexivity|].
    intros v. eexists. split; [reflexivity|]. destruct st; reflexivity. }
  destruct (str_eqb a s_upstream_version) eqn:E2.
  { apply str_eqb_eq in E2. subst a. intros _. exists (st_up st). split; [reflexivity|].
    intros v. eexists. split; [reflexivity|]. destruct st; reflexivity. }
  destruct (str_eqb a s_debian_revision) eqn:E3; [|discriminate].
  apply str_eqb_eq in E3. subst a. intros _. exists (st_rev st). split; [reflexivity|].
  intros v. eexists. split; [reflexivity|]. destruct st; reflexivity.
Qed.

Lemma slot_value_str o : slot_value (option_map NStr o) = Some o.
Proof. now destruct o. Qed.

(** __setattr__ on ANY state, for any name that is not itself a mangled private name (the five magic names
    are not: [magic_not_private]; for an ordinary name the four slots are unchanged) *)
Lemma tr_setattr_eq fuel s_full s_ep s_up s_rev attr v :
  is_private attr = false ->
  tr_setattr (S (S (S fuel))) s_full s_ep s_up s_rev attr v
  = sview (setattr (mkV s_full s_ep s_up s_rev) attr (pv_of v)).
Proof.
  intros Hpriv. set (st := mkV s_full s_ep s_up s_rev).
  unfold setattr.
  cbn beta iota delta [tr_setattr].
  change (tr_str_in attr trp_magic_attrs) with (existsb (str_eqb attr) magic_attrs).
  destruct (existsb (str_eqb attr) magic_attrs) eqn:Hm; cbv beta iota delta [negb].
  2: { unfold trp_super_setattr, obj_setattr. unfold is_private in Hpriv.
       destruct (strip_prefix private_prefix attr); [discriminate Hpriv|]. reflexivity. }
  lazymatch goal with |- (let k := ?f in @?B k) = ?R => set (k1_ := f); change (B k1_ = R); cbv beta end.
  assert (K1 : (if str_eqb attr
       [100%N; 101%N; 98%N; 105%N; 97%N; 110%N; 95%N; 118%N; 101%N; 114%N; 115%N; 105%N; 111%N; 110%N]
     then let attr0 := [100%N; 101%N; 98%N; 105%N; 97%N; 110%N; 95%N; 114%N; 101%N; 118%N; 105%N; 115%N; 105%N; 111%N; 110%N] in k1_ attr0
     else k1_ attr) = k1_ (if str_eqb attr s_debian_version then s_debian_revision else attr)).
  { destruct names_lit as (_ & -> & ->). fold L_debver L_debrev. now destruct (str_eqb attr L_debver). }
  rewrite K1. clear K1.
  generalize (if str_eqb attr s_debian_version then s_debian_revision else attr). intros a.
  subst k1_. cbv beta zeta. fold L_full. destruct names_lit as (Nf & _ & _). rewrite Nf.
  destruct (str_eqb a L_full) eqn:Hf.
  { rewrite tr_set_full_eq. unfold trp_str_opt. fold st.
    destruct (set_full (py_str (pv_of v))) as [st'|e]; reflexivity. }
  rewrite app_nil_r. unfold trp_getattr, trp_setattr, obj_setattr.
  rewrite !strip_prefix_app, Nf, Hf. fold st. unfold get_private.
  destruct (put_private a None st) as [x0|] eqn:Hp0.
  2: { assert (E : forall w, put_private a w st = None) by (intros w; exact (put_private_slot a None w st Hp0)).
       rewrite E. destruct v; reflexivity. }
  destruct (slot_facts a st x0 Hp0) as (o & Hg & Hput). rewrite Hg.
  assert (Tail : forall st1 e, put_private a o st1 = Some st -> update_full st1 = Err e ->
    match e with
    | ValueError | TypeError =>
      match
        match put_private a None (mkV (st_full st1) (st_epoch st1) (st_up st1) (st_rev st1)) with
        | Some _ =>
            match slot_value (option_map NStr o) with
            | Some sv =>
                match put_private a sv (mkV (st_full st1) (st_epoch st1) (st_up st1) (st_rev st1)) with
                | Some st' => MOk tt (st_of st')
                | None => MErr OutOfFuel (st_of (mkV (st_full st1) (st_epoch st1) (st_up st1) (st_rev st1)))
                end
            | None => MErr OutOfFuel (st_of (mkV (st_full st1) (st_epoch st1) (st_up st1) (st_rev st1)))
            end
        | None => MOk tt (st_of (mkV (st_full st1) (st_epoch st1) (st_up st1) (st_rev st1)))
        end
      with
      | MOk _ (s_full0, s_ep0, s_up0, s_rev0) =>
          match tr_update_full_version (S (S fuel)) s_full0 s_ep0 s_up0 s_rev0 with
          | MOk _ (s_full1, s_ep1, s_up1, s_rev1) => MErr ValueError (s_full1, s_ep1, s_up1, s_rev1)
          | MErr tmp21_ tmp20_ => MErr tmp21_ tmp20_
          end
      | MErr tmp18_ tmp17_ => MErr tmp18_ tmp17_
      end
    | IOError | FormatError => MErr OutOfFuel (st_full st1, st_epoch st1, st_up st1, st_rev st1)
    | _ => MErr e (st_full st1, st_epoch st1, st_up st1, st_rev st1)
    end =
    sview
      match e with
      | ValueError | TypeError =>
          match update_full st with
          | Ok st3 => (st3, Some ValueError)
          | Err e2 => (st, Some e2)
          end
      | _ => (st1, Some e)
      end).
  { intros st1 e H2 Eu. rewrite mkV_eta, slot_value_str, H2.
    destruct (put_private a None st1) as [y|] eqn:Hp1;
      [|rewrite (put_private_slot a None o st1 Hp1) in H2; discriminate H2].
    cbn [st_of]. rewrite tr_update_eq, mkV_eta.
    destruct (update_full_err _ _ Eu) as [-> | ->];
      destruct (update_full st) as [st3|e2]; reflexivity. }
  destruct v as [x|].
  - destruct (Hput (Some (py_str (pv_of (Some x))))) as (st1 & H1 & H2).
    cbn [slot_value]. unfold trp_str_opt. rewrite H1. cbn [st_of].
    rewrite tr_update_eq, mkV_eta.
    replace (match pv_of (Some x) with VNone => None | _ => Some (py_str (pv_of (Some x))) end)
      with (Some (py_str (pv_of (Some x)))) by (now destruct x).
    rewrite H1.
    destruct (update_full st1) as [st2|e] eqn:Eu; cbn [rview st_of]; [reflexivity|].
    exact (Tail st1 e H2 Eu).
  - destruct (Hput None) as (st1 & H1 & H2).
    cbn [slot_value pv_of]. rewrite H1. cbn [st_of].
    rewrite tr_update_eq, mkV_eta.
    destruct (update_full st1) as [st2|e] eqn:Eu; cbn [rview st_of]; [reflexivity|].
    exact (Tail st1 e H2 Eu).
Qed.

(** any fuel that is at least 3 (resp. 2, 1) will do *)
Lemma tr_setattr_ge fuel s_full s_ep s_up s_rev attr v :
  (3 <= fuel)%nat -> is_private attr = false ->
  tr_setattr fuel s_full s_ep s_up s_rev attr v
  = sview (setattr (mkV s_full s_ep s_up s_rev) attr (pv_of v)).
Proof.
  intros Hf. destruct fuel as [|[|[|fuel]]]; try lia. apply tr_setattr_eq.
Qed.

Lemma tr_update_ge fuel s_full s_ep s_up s_rev :
  (2 <= fuel)%nat ->
  tr_update_full_version fuel s_full s_ep s_up s_rev
  = rview (s_full, s_ep, s_up, s_rev) (update_full (mkV s_full s_ep s_up s_rev)).
Proof.
  intros Hf. destruct fuel as [|[|fuel]]; try lia. apply tr_update_eq.
Qed.

Lemma tr_setattr_full_ge fuel s_full s_ep s_up s_rev v :
  (1 <= fuel)%nat ->
  tr_setattr fuel s_full s_ep s_up s_rev s_full_version v
  = tr_set_full_version s_full s_ep s_up s_rev (py_str (pv_of v)).
Proof.
  intros Hf. destruct fuel as [|fuel]; try lia. exact (tr_setattr_full fuel s_full s_ep s_up s_rev v).
Qed.

Lemma tr_setattr_magic fuel s_full s_ep s_up s_rev attr v :
  (3 <= fuel)%nat -> existsb (str_eqb attr) magic_attrs = true ->
  tr_setattr fuel s_full s_ep s_up s_rev attr v
  = sview (setattr (mkV s_full s_ep s_up s_rev) attr (pv_of v)).
Proof. intros Hf Hm. apply tr_setattr_ge; [exact Hf|]. now apply magic_not_private. Qed.

(** * __init__ *)
Lemma tr_init_eq s_full s_ep s_up s_rev v :
  tr_init s_full s_ep s_up s_rev v
  = rview (s_full, s_ep, s_up, s_rev) (version_new (pv_of v)).
Proof.
  unfold tr_init, trp_isinstance_BaseVersion, version_new. fold L_full.
  rewrite tr_setattr_full, tr_set_full_eq. apply mres_eta.
Qed.

(** * __getattr__, __str__ (read-only: plain functions of the four attribute values) *)
Definition gview (o : option (option str)) : result (option nnval) :=
  match o with
  | Some x => Ok (option_map NStr x)
  | None => Err OtherError                      (* AttributeError *)
  end.

Lemma gview_inj o1 o2 : gview o1 = gview o2 -> o1 = o2.
Proof.
  destruct o1 as [[a|]|], o2 as [[b|]|]; cbn; intros H; try discriminate; try reflexivity.
  congruence.
Qed.

Lemma tr_getattr_eq s_full s_ep s_up s_rev attr :
  tr_getattr s_full s_ep s_up s_rev attr = gview (getattr (mkV s_full s_ep s_up s_rev) attr).
Proof.
  unfold tr_getattr, trp_super_getattribute.
  destruct (tr_str_in attr trp_magic_attrs) eqn:Hm; cbn [negb].
  - rewrite magic_lits in Hm. unfold tr_str_in in Hm. cbn [existsb] in Hm.
    repeat (apply Bool.orb_true_iff in Hm; destruct Hm as [Hm|Hm]);
      try (apply str_eqb_eq in Hm; subst attr; vm_compute; reflexivity).
    discriminate Hm.
  - rewrite magic_lits in Hm. unfold tr_str_in in Hm. cbn [existsb] in Hm.
    repeat (apply Bool.orb_false_iff in Hm; destruct Hm as [? Hm]).
    unfold getattr.
    repeat match goal with H : str_eqb attr _ = false |- _ => rewrite H; clear H end.
    reflexivity.
Qed.

Lemma tr_str_eq s_full s_ep s_up s_rev :
  tr_str s_full s_ep s_up s_rev = Ok (Some (NStr (version_str (mkV s_full s_ep s_up s_rev)))).
Proof. unfold tr_str. rewrite !tr_getattr_eq. reflexivity. Qed.
