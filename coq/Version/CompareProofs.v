(** C03 proofs, assembly.

    Part 1  [py_compare] on any two objects whose epochs are integers is the
            three-way comparison of a total preorder ([obj_cmp] on [obj_key]):
            reflexive, antisymmetric, transitive, congruent.
    Part 2  on live Version objects ([inv], C14's invariant: the components are
            the grammar's decomposition of the full string) it never raises and its
            result is the sign of dpkg's comparison of the two strings.
    Part 3  [py_compare a b = 0] exactly when the tuples handed to [hash()] are
            identical.
    Part 4  the same for version strings through [Version(s)], [version_compare],
            the six operators; the model satisfies the checked property
            ([holds]) on every input. *)
From Coq Require Import String.
From Verif Require Import Lib.Base Lib.Dec Lib.PyStr Gen.PyChars
  Version.Parse Version.ParseSpec Version.ParseProofs Version.Compare Version.Dpkg
  Version.CompareLex Version.CompareKey Version.CompareDpkg Version.CompareHash
  Version.CompareCheck.
Local Open Scope Z_scope.

(** * Part 1: the order on objects *)

Definition epoch_of (a : vstate) : result Z := py_int (or_str (st_epoch a) chunk_zero).
Definition epoch_int (a : vstate) : bool := is_ok (epoch_of a).
Definition up0 (a : vstate) : str := or_str (st_up a) chunk_zero.
Definition rev0 (a : vstate) : str := or_str (st_rev a) chunk_zero.

Definition okey : Type := (Z * (list key_elt * list key_elt))%type.
Definition obj_cmp : okey -> okey -> comparison :=
  lexprod Z.compare (lexprod keys_cmp keys_cmp).
Definition obj_key (e : Z) (a : vstate) : okey := (e, (pkey (up0 a), pkey (rev0 a))).

Lemma obj_cmp_laws : cmp_laws obj_cmp.
Proof.
  apply lexprod_laws; [apply Zcompare_laws|].
  apply lexprod_laws; apply keys_cmp_laws.
Qed.

Lemma py_compare_key a b ea eb :
  epoch_of a = Ok ea -> epoch_of b = Ok eb ->
  py_compare a b = Ok (z_of_cmp (obj_cmp (obj_key ea a) (obj_key eb b))).
Proof.
  unfold epoch_of. intros Ha Hb. unfold py_compare. rewrite Ha, Hb. cbn [bind].
  unfold obj_cmp, obj_key, lexprod. cbn [fst snd].
  fold (up0 a) (up0 b) (rev0 a) (rev0 b).
  rewrite !py_cmp_part_key.
  destruct (Z.compare_spec ea eb); destruct (Z.ltb_spec ea eb); destruct (Z.ltb_spec eb ea);
    try lia; try reflexivity.
  destruct (keys_cmp (pkey (up0 a)) (pkey (up0 b))); reflexivity.
Qed.

Lemma epoch_int_ok a : epoch_int a = true -> exists e, epoch_of a = Ok e.
Proof. unfold epoch_int. destruct (epoch_of a) as [e|]; [now exists e|discriminate]. Qed.

Lemma py_compare_err a b : (exists z, py_compare a b = Ok z) -> epoch_int a = true /\ epoch_int b = true.
Proof.
  unfold py_compare, epoch_int, epoch_of. intros [z H].
  destruct (py_int (or_str (st_epoch a) chunk_zero)); [|discriminate].
  destruct (py_int (or_str (st_epoch b) chunk_zero)); [|discriminate]. auto.
Qed.

Theorem compare_total a b : epoch_int a = true -> epoch_int b = true ->
  exists z, py_compare a b = Ok z /\ (z = -1 \/ z = 0 \/ z = 1).
Proof.
  intros Ha Hb. destruct (epoch_int_ok a Ha) as [ea Ea]. destruct (epoch_int_ok b Hb) as [eb Eb].
  rewrite (py_compare_key a b ea eb Ea Eb). eexists; split; [reflexivity|].
  destruct (obj_cmp _ _); simpl; auto.
Qed.

Theorem compare_refl a : epoch_int a = true -> py_compare a a = Ok 0.
Proof.
  intro Ha. destruct (epoch_int_ok a Ha) as [ea Ea].
  rewrite (py_compare_key a a ea ea Ea Ea). now rewrite (cl_refl _ obj_cmp_laws).
Qed.

Theorem compare_antisym a b z : py_compare a b = Ok z -> py_compare b a = Ok (- z).
Proof.
  intro H. destruct (py_compare_err a b (ex_intro _ z H)) as [Ha Hb].
  destruct (epoch_int_ok a Ha) as [ea Ea]. destruct (epoch_int_ok b Hb) as [eb Eb].
  rewrite (py_compare_key a b ea eb Ea Eb) in H. injection H as <-.
  rewrite (py_compare_key b a eb ea Eb Ea).
  now rewrite (cl_anti _ obj_cmp_laws (obj_key ea a) (obj_key eb b)), z_of_cmp_opp.
Qed.

(** transitivity and congruence, as a relation between the three results *)
Definition trans_rel (x y z : Z) : Prop :=
  (x = 0 -> z = y) /\ (y = 0 -> z = x)
  /\ (x < 0 -> y < 0 -> z < 0) /\ (0 < x -> 0 < y -> 0 < z).

Theorem compare_trans_rel a b c x y :
  py_compare a b = Ok x -> py_compare b c = Ok y ->
  exists z, py_compare a c = Ok z /\ trans_rel x y z.
Proof.
  intros H1 H2.
  destruct (py_compare_err a b (ex_intro _ x H1)) as [Ha Hb].
  destruct (py_compare_err b c (ex_intro _ y H2)) as [_ Hc].
  destruct (epoch_int_ok a Ha) as [ea Ea]. destruct (epoch_int_ok b Hb) as [eb Eb].
  destruct (epoch_int_ok c Hc) as [ec Ec].
  rewrite (py_compare_key a b ea eb Ea Eb) in H1. injection H1 as <-.
  rewrite (py_compare_key b c eb ec Eb Ec) in H2. injection H2 as <-.
  rewrite (py_compare_key a c ea ec Ea Ec). eexists; split; [reflexivity|].
  pose proof obj_cmp_laws as L.
  set (ka := obj_key ea a). set (kb := obj_key eb b). set (kc := obj_key ec c).
  unfold trans_rel. repeat split.
  - intro H. apply z_of_cmp_0 in H. now rewrite (cl_eq_l _ L _ _ kc H).
  - intro H. apply z_of_cmp_0 in H. now rewrite <- (cl_eq_r _ L ka _ _ H).
  - destruct (obj_cmp ka kb) eqn:E1; simpl; try lia.
    destruct (obj_cmp kb kc) eqn:E2; simpl; try lia.
    now rewrite (cl_trans _ L _ _ _ E1 E2).
  - destruct (obj_cmp ka kb) eqn:E1; simpl; try lia.
    destruct (obj_cmp kb kc) eqn:E2; simpl; try lia.
    now rewrite (cl_trans_gt _ L _ _ _ E1 E2).
Qed.

Lemma compare_range a b z : py_compare a b = Ok z -> z = -1 \/ z = 0 \/ z = 1.
Proof.
  intro H. destruct (py_compare_err a b (ex_intro _ z H)) as [Ha Hb].
  destruct (compare_total a b Ha Hb) as (z' & E & R). congruence.
Qed.

Lemma trans_rel_ok x y z :
  (x = -1 \/ x = 0 \/ x = 1) -> (y = -1 \/ y = 0 \/ y = 1) -> (z = -1 \/ z = 0 \/ z = 1) ->
  trans_rel x y z -> trans_ok x y z = true.
Proof.
  unfold trans_rel. intros Hx Hy Hz (T1 & T2 & T3 & T4).
  destruct Hx as [-> | [-> | ->]]; destruct Hy as [-> | [-> | ->]]; destruct Hz as [-> | [-> | ->]];
    try reflexivity; exfalso; lia.
Qed.

(** the inequalities [<=] and [>=] are transitive and strictness is inherited *)
Theorem compare_trans a b c x y :
  py_compare a b = Ok x -> py_compare b c = Ok y ->
  exists z, py_compare a c = Ok z
    /\ (x <= 0 -> y <= 0 -> z <= 0) /\ (x <= 0 -> y <= 0 -> x < 0 \/ y < 0 -> z < 0)
    /\ (0 <= x -> 0 <= y -> 0 <= z) /\ (0 <= x -> 0 <= y -> 0 < x \/ 0 < y -> 0 < z)
    /\ trans_ok x y z = true.
Proof.
  intros H1 H2. destruct (compare_trans_rel a b c x y H1 H2) as (z & H3 & T).
  exists z. split; [exact H3|].
  pose proof (compare_range _ _ _ H1) as Rx. pose proof (compare_range _ _ _ H2) as Ry.
  pose proof (compare_range _ _ _ H3) as Rz.
  pose proof (trans_rel_ok x y z Rx Ry Rz T) as Tok.
  destruct T as (T1 & T2 & T3 & T4). repeat split; try exact Tok; lia.
Qed.

(** the six operators *)
Definition b2n (b : bool) : nat := if b then 1%nat else 0%nat.

Theorem trichotomy a b o : py_ops a b = Ok o ->
  (b2n (o_lt o) + b2n (o_eq o) + b2n (o_gt o) = 1)%nat.
Proof.
  unfold py_ops. destruct (py_compare a b) as [z|]; [|discriminate]. cbn [bind].
  intros [= <-]. unfold ops_of. cbn [o_lt o_eq o_gt].
  destruct (Z.ltb_spec z 0); destruct (Z.eqb_spec z 0); destruct (Z.gtb_spec z 0); simpl; lia.
Qed.

Theorem operators_consistent a b o :
  py_ops a b = Ok o ->
  exists z, py_compare a b = Ok z /\ o = ops_of z
    /\ o_le o = o_lt o || o_eq o /\ o_ge o = o_gt o || o_eq o /\ o_ne o = negb (o_eq o)
    /\ o_ge o = negb (o_lt o) /\ o_le o = negb (o_gt o)
    /\ py_ops b a = Ok (ops_of (- z))
    /\ o_lt (ops_of (- z)) = o_gt o /\ o_gt (ops_of (- z)) = o_lt o
    /\ o_eq (ops_of (- z)) = o_eq o.
Proof.
  unfold py_ops. destruct (py_compare a b) as [z|] eqn:E; [|discriminate]. cbn [bind].
  intros [= <-]. exists z. rewrite (compare_antisym a b z E). cbn [bind].
  unfold ops_of. cbn [o_lt o_le o_eq o_ne o_ge o_gt].
  repeat split;
    destruct (Z.ltb_spec z 0); destruct (Z.eqb_spec z 0); destruct (Z.gtb_spec z 0);
    destruct (Z.leb_spec z 0); destruct (Z.geb_spec z 0);
    destruct (Z.ltb_spec (- z) 0); destruct (Z.eqb_spec (- z) 0); destruct (Z.gtb_spec (- z) 0);
    simpl; try reflexivity; lia.
Qed.

(** * Part 2: live objects *)

Lemma nice_ascii c : (0 < c < 128)%N -> nice c = true.
Proof.
  intro H.
  assert (A : forallb nice (map N.of_nat (seq 1 127)) = true) by (vm_compute; reflexivity).
  rewrite forallb_forall in A. apply A. apply in_map_iff.
  exists (N.to_nat c). split; [apply N2Nat.id|]. apply in_seq. lia.
Qed.

Lemma policy_up_range co hy c : policy_upstream_char co hy c = true -> (0 < c < 128)%N.
Proof.
  unfold policy_upstream_char, policy_upstream_base, is_alnum, is_digit09, COLON, HYPHEN.
  intro H. repeat rewrite ?orb_true_iff, ?andb_true_iff, ?N.leb_le, ?N.eqb_eq in H. lia.
Qed.

Lemma policy_rev_range c : policy_revision_char c = true -> (0 < c < 128)%N.
Proof.
  unfold policy_revision_char, is_alnum, is_digit09.
  intro H. repeat rewrite ?orb_true_iff, ?andb_true_iff, ?N.leb_le, ?N.eqb_eq in H. lia.
Qed.

Lemma nonempty_neq {A} (l : list A) : nonempty l = true -> l <> [].
Proof. destruct l; [discriminate|discriminate]. Qed.

Lemma components_facts e u r : components_ok e u r = true ->
  (match e with Some e' => e' <> [] /\ forallb c_isdigit e' = true | None => True end)
  /\ u <> [] /\ forallb nice u = true
  /\ (match r with Some r' => r' <> [] /\ forallb nice r' = true | None => True end).
Proof.
  unfold components_ok. intro H.
  apply andb_true_iff in H. destruct H as [H Hr].
  apply andb_true_iff in H. destruct H as [H Hu2].
  apply andb_true_iff in H. destruct H as [He Hu1].
  repeat split.
  - destruct e as [e'|]; [|exact I]. apply andb_true_iff in He. destruct He as [He1 He2].
    split; [now apply nonempty_neq|exact He2].
  - now apply nonempty_neq.
  - revert Hu2. apply forallb_impl. intros c Hc. apply nice_ascii. eapply policy_up_range; eauto.
  - destruct r as [r'|]; [|exact I]. apply andb_true_iff in Hr. destruct Hr as [Hr1 Hr2].
    split; [now apply nonempty_neq|].
    revert Hr2. apply forallb_impl. intros c Hc. apply nice_ascii. now apply policy_rev_range.
Qed.

Definition epoch_n (e : option str) : N :=
  match e with Some e' => aval 0 e' | None => 0%N end.
Definition revE (r : option str) : str :=
  match r with Some r' => r' | None => [] end.

Lemma digit_nice c : c_isdigit c = true -> nice c = true.
Proof. intro H. apply nice_ascii. pose proof (isdigit_range c H). lia. Qed.

Lemma epoch_of_shape f e u r :
  (match e with Some e' => e' <> [] /\ forallb c_isdigit e' = true | None => True end) ->
  epoch_of (mkV f e u r) = Ok (Z.of_N (epoch_n e)).
Proof.
  unfold epoch_of. cbn [st_epoch]. destruct e as [e'|]; [|intros _; vm_compute; reflexivity].
  intros [Hne Hd]. destruct e' as [|c s]; [congruence|]. cbn [or_str epoch_n].
  unfold py_int.
  assert (Hre : forallb re_d (c :: s) = true).
  { revert Hd. apply forallb_impl. intros x Hx. now rewrite (nice_digit x (digit_nice x Hx)). }
  rewrite Hre. unfold py_int_digits. do 2 f_equal. unfold aval.
  apply horner_ext. intros x Hx. rewrite forallb_forall in Hd.
  apply nice_val; auto using digit_nice.
Qed.

Lemma strchr_eq c s : strchr c s = cut_first c s.
Proof. induction s as [|x s IH]; simpl; [reflexivity|]. now rewrite IH. Qed.

Lemma strrchr_eq c s : strrchr c s = cut_last c s.
Proof. induction s as [|x s IH]; simpl; [reflexivity|]. now rewrite IH. Qed.

Lemma strtol_aval acc e : strtol_digits acc e = aval acc e.
Proof. revert acc. induction e as [|c e IH]; intro acc; simpl; [reflexivity|]. now rewrite IH. Qed.

(** dpkg's splitting of a valid string is the grammar's decomposition *)
Lemma dpkg_parse_spec s e u r :
  spec_decompose s = Some (e, u, r) ->
  dpkg_parse s = Some (mkDV (epoch_n e) u (revE r)).
Proof.
  unfold spec_decompose, spec_split, dpkg_parse, COLON, HYPHEN. cbv zeta.
  rewrite (strchr_eq 58 s).
  destruct (cut_first 58 s) as [[e0 rest]|] eqn:E1; cbv iota beta.
  - rewrite (strrchr_eq 45 rest). destruct (cut_last 45 rest) as [[u0 r0]|] eqn:E2.
    + destruct (components_ok (Some e0) u0 (Some r0)) eqn:Hok; [|discriminate].
      intros [= <- <- <-]. apply components_facts in Hok.
      destruct Hok as ((He1 & He2) & Hu & _ & (Hr & _)).
      destruct e0 as [|ec e0]; [congruence|]. destruct rest as [|rc rest]; [discriminate E2|].
      rewrite He2. destruct r0 as [|r0c r0]; [congruence|]. destruct u0 as [|u0c u0]; [congruence|].
      cbn [epoch_n revE]. now rewrite strtol_aval.
    + destruct (components_ok (Some e0) rest None) eqn:Hok; [|discriminate].
      intros [= <- <- <-]. apply components_facts in Hok.
      destruct Hok as ((He1 & He2) & Hu & _ & _).
      destruct e0 as [|ec e0]; [congruence|]. destruct rest as [|rc rest]; [congruence|].
      rewrite He2. cbn [epoch_n revE]. now rewrite strtol_aval.
  - rewrite (strrchr_eq 45 s). destruct (cut_last 45 s) as [[u0 r0]|] eqn:E2.
    + destruct (components_ok None u0 (Some r0)) eqn:Hok; [|discriminate].
      intros [= <- <- <-]. apply components_facts in Hok.
      destruct Hok as (_ & Hu & _ & (Hr & _)).
      destruct r0 as [|r0c r0]; [congruence|]. destruct u0 as [|u0c u0]; [congruence|].
      reflexivity.
    + destruct (components_ok None s None) eqn:Hok; [|discriminate].
      intros [= <- <- <-]. apply components_facts in Hok.
      destruct Hok as (_ & Hu & _ & _).
      destruct s as [|sc s]; [congruence|]. reflexivity.
Qed.

Lemma inv_shape a : inv a = true ->
  exists e u r, a = mkV (recompose e u r) e (Some u) r /\ components_ok e u r = true.
Proof. apply inv_spec. Qed.

Lemma inv_epoch_int a : inv a = true -> epoch_int a = true.
Proof.
  intro H. destruct (inv_shape a H) as (e & u & r & -> & Hok).
  apply components_facts in Hok. destruct Hok as (He & _).
  unfold epoch_int. now rewrite (epoch_of_shape _ e (Some u) r He).
Qed.

Lemma rev0_equiv r : keys_cmp (pkey (or_str r chunk_zero)) (pkey (revE r)) = Eq.
Proof.
  destruct r as [[|c s]|]; cbn [or_str revE].
  - vm_compute. reflexivity.
  - apply (cl_refl _ keys_cmp_laws).
  - vm_compute. reflexivity.
Qed.

Lemma rev0_cmp ra rb :
  keys_cmp (pkey (or_str ra chunk_zero)) (pkey (or_str rb chunk_zero))
  = keys_cmp (pkey (revE ra)) (pkey (revE rb)).
Proof.
  pose proof keys_cmp_laws as L.
  rewrite (cl_eq_l _ L _ _ (pkey (or_str rb chunk_zero)) (rev0_equiv ra)).
  apply (cl_eq_r _ L). apply rev0_equiv.
Qed.

Lemma or_str_cons s d : s <> [] -> or_str (Some s) d = s.
Proof. destruct s; [congruence|reflexivity]. Qed.

Lemma nice_revE r :
  (match r with Some r' => r' <> [] /\ forallb nice r' = true | None => True end) ->
  forallb nice (revE r) = true.
Proof. destruct r as [r'|]; [now intros [_ H]|reflexivity]. Qed.

Lemma sgn_z_of_cmp r c : Z.sgn r = z_of_cmp c -> sgn r = z_of_cmp c.
Proof. auto. Qed.

(** The central theorem: on live objects the comparison never raises and orders
    the two version strings exactly as dpkg does. *)
Theorem py_compare_is_dpkg_obj a b : inv a = true -> inv b = true ->
  exists z, py_compare a b = Ok z /\ dpkg_compare (st_full a) (st_full b) = Some z.
Proof.
  intros Ha Hb.
  destruct (inv_shape a Ha) as (e1 & u1 & r1 & -> & Hok1).
  destruct (inv_shape b Hb) as (e2 & u2 & r2 & -> & Hok2).
  cbn [st_full]. unfold dpkg_compare.
  rewrite (dpkg_parse_spec _ _ _ _ (spec_decompose_complete _ _ _ Hok1)).
  rewrite (dpkg_parse_spec _ _ _ _ (spec_decompose_complete _ _ _ Hok2)).
  apply components_facts in Hok1. destruct Hok1 as (He1 & Hu1 & Nu1 & Hr1).
  apply components_facts in Hok2. destruct Hok2 as (He2 & Hu2 & Nu2 & Hr2).
  rewrite (py_compare_key _ _ _ _ (epoch_of_shape _ e1 (Some u1) r1 He1)
                                  (epoch_of_shape _ e2 (Some u2) r2 He2)).
  eexists; split; [reflexivity|].
  unfold dpkg_version_compare. cbn [dv_epoch dv_version dv_revision].
  unfold obj_cmp, obj_key, lexprod, up0, rev0. cbn [fst snd st_up st_rev].
  rewrite !or_str_cons by assumption. rewrite rev0_cmp.
  rewrite N2Z.inj_compare.
  destruct (N.compare_spec (epoch_n e1) (epoch_n e2)) as [E|E|E];
    destruct (N.ltb_spec (epoch_n e2) (epoch_n e1)); destruct (N.ltb_spec (epoch_n e1) (epoch_n e2));
    try lia; try reflexivity.
  destruct (verrevcmp_key u1 u2 Nu1 Nu2) as (x & -> & Sx). cbn [bind].
  destruct (verrevcmp_key (revE r1) (revE r2) (nice_revE _ Hr1) (nice_revE _ Hr2)) as (y & Ey & Sy).
  destruct (keys_cmp (pkey u1) (pkey u2)).
  - apply (proj1 (Z.sgn_null_iff _)) in Sx. subst x. cbn [Z.eqb negb]. rewrite Ey.
    unfold sgn. now rewrite Sy.
  - assert (x < 0) by now apply Z.sgn_neg_iff.
    destruct (Z.eqb_spec x 0); [lia|]. cbn [negb]. unfold sgn. now rewrite Sx.
  - assert (0 < x) by now apply Z.sgn_pos_iff.
    destruct (Z.eqb_spec x 0); [lia|]. cbn [negb]. unfold sgn. now rewrite Sx.
Qed.

(** * Part 3: equal versions, equal hash keys *)

Definition hash_eq (a b : vstate) : bool :=
  match py_hash_key a, py_hash_key b with
  | Ok ka, Ok kb => vkey_eqb ka kb
  | _, _ => false
  end.

Lemma key_elt_eqb_eq x y : key_elt_eqb x y = true <-> x = y.
Proof.
  destruct x as [n1 v1], y as [n2 v2]. unfold key_elt_eqb. cbn [fst snd].
  rewrite andb_true_iff, str_eqb_eq, N.eqb_eq. split; [intros [-> ->]|intros [= -> ->]]; auto.
Qed.

Lemma keys_eqb_eq x y : list_eqb key_elt_eqb x y = true <-> x = y.
Proof. apply list_eqb_eq. apply key_elt_eqb_eq. Qed.

Lemma lexprod_eq {A B} (ca : A -> A -> comparison) (cb : B -> B -> comparison) x y :
  lexprod ca cb x y = Eq <-> ca (fst x) (fst y) = Eq /\ cb (snd x) (snd y) = Eq.
Proof.
  unfold lexprod. destruct (ca (fst x) (fst y)); split; try tauto; try (intros [? ?]; congruence);
    discriminate.
Qed.

Lemma or_str_nil r : or_str r [] = revE r.
Proof. destruct r as [[|c s]|]; reflexivity. Qed.

Lemma hash_key_rev0 r : hash_key (or_str r chunk_zero) = hash_key (revE r).
Proof. destruct r as [[|c s]|]; cbn [or_str revE]; try reflexivity; vm_compute; reflexivity. Qed.

Theorem equal_iff_same_key a b : inv a = true -> inv b = true ->
  (py_compare a b = Ok 0 <-> hash_eq a b = true).
Proof.
  intros Ha Hb.
  destruct (inv_shape a Ha) as (e1 & u1 & r1 & -> & Hok1).
  destruct (inv_shape b Hb) as (e2 & u2 & r2 & -> & Hok2).
  apply components_facts in Hok1. destruct Hok1 as (He1 & Hu1 & Nu1 & Hr1).
  apply components_facts in Hok2. destruct Hok2 as (He2 & Hu2 & Nu2 & Hr2).
  pose proof (epoch_of_shape (recompose e1 u1 r1) e1 (Some u1) r1 He1) as E1.
  pose proof (epoch_of_shape (recompose e2 u2 r2) e2 (Some u2) r2 He2) as E2.
  rewrite (py_compare_key _ _ _ _ E1 E2).
  unfold hash_eq, py_hash_key. unfold epoch_of in E1, E2. rewrite E1, E2. cbn [bind].
  cbn [st_up st_rev]. rewrite !or_str_cons by assumption. rewrite !or_str_nil.
  unfold vkey_eqb. rewrite !andb_true_iff, !keys_eqb_eq, Z.eqb_eq.
  unfold obj_cmp, obj_key, up0, rev0. cbn [st_up st_rev]. rewrite !or_str_cons by assumption.
  split.
  - intros [= H]. apply z_of_cmp_0 in H.
    apply lexprod_eq in H. cbn [fst snd] in H. destruct H as [H1 H2].
    apply lexprod_eq in H2. cbn [fst snd] in H2. destruct H2 as [H2 H3].
    apply Z.compare_eq in H1.
    apply (keys_eq_iff_hash_key u1 u2 Nu1 Nu2) in H2.
    rewrite rev0_cmp in H3.
    apply (keys_eq_iff_hash_key _ _ (nice_revE _ Hr1) (nice_revE _ Hr2)) in H3.
    auto.
  - intros [[H1 H2] H3]. do 2 f_equal. apply z_of_cmp_0.
    apply lexprod_eq. cbn [fst snd]. split; [rewrite H1; apply Z.compare_refl|].
    apply lexprod_eq. cbn [fst snd]. split.
    + now apply (keys_eq_iff_hash_key u1 u2 Nu1 Nu2).
    + rewrite rev0_cmp.
      now apply (keys_eq_iff_hash_key _ _ (nice_revE _ Hr1) (nice_revE _ Hr2)).
Qed.

Theorem hash_respects_eq a b : inv a = true -> inv b = true ->
  py_compare a b = Ok 0 -> hash_eq a b = true.
Proof. intros Ha Hb. apply (equal_iff_same_key a b Ha Hb). Qed.

Lemma hash_key_total a : inv a = true -> exists k, py_hash_key a = Ok k.
Proof.
  intro Ha. pose proof (inv_epoch_int a Ha) as H. unfold epoch_int, epoch_of in H.
  unfold py_hash_key. destruct (py_int (or_str (st_epoch a) chunk_zero)); [|discriminate].
  cbn [bind]. eexists; reflexivity.
Qed.

(** * Part 4: version strings *)

Lemma valid_new s : valid_spec s = true ->
  exists v, version_new (VStr s) = Ok v /\ inv v = true /\ st_full v = s.
Proof.
  intro H. rewrite <- accepts_iff_valid in H.
  destruct (version_new (VStr s)) as [v|] eqn:E; [|discriminate].
  exists v. split; [reflexivity|]. split; [now apply (new_establishes_inv s)|].
  exact (str_id s v E).
Qed.

Lemma version_compare_of va vb a b z :
  version_new (VStr a) = Ok va -> version_new (VStr b) = Ok vb ->
  py_compare va vb = Ok z -> py_version_compare a b = Ok z.
Proof.
  intros Ea Eb Ec. unfold py_version_compare. rewrite Ea, Eb. cbn [bind]. rewrite Ec. cbn [bind].
  destruct (compare_range _ _ _ Ec) as [-> | [-> | ->]]; reflexivity.
Qed.

Theorem py_compare_is_dpkg a b : valid_spec a = true -> valid_spec b = true ->
  exists va vb z,
    version_new (VStr a) = Ok va /\ version_new (VStr b) = Ok vb
    /\ py_compare va vb = Ok z /\ py_version_compare a b = Ok z
    /\ py_ops va vb = Ok (ops_of z)
    /\ dpkg_compare a b = Some z.
Proof.
  intros Ha Hb.
  destruct (valid_new a Ha) as (va & Ea & Ia & Fa). destruct (valid_new b Hb) as (vb & Eb & Ib & Fb).
  destruct (py_compare_is_dpkg_obj va vb Ia Ib) as (z & Ec & Ed). rewrite Fa, Fb in Ed.
  exists va, vb, z. repeat split; auto.
  - exact (version_compare_of va vb a b z Ea Eb Ec).
  - unfold py_ops. now rewrite Ec.
Qed.

(** The model meets the checked property on every pair of strings ... *)
Theorem model_pair_holds a b : holds (CPair a b (model_pair (dec a) (dec b))) = true.
Proof.
  cbn [holds]. destruct (both_valid (dec a) (dec b)) eqn:V; [|reflexivity].
  unfold both_valid in V. apply andb_true_iff in V. destruct V as [Ha Hb].
  destruct (valid_new _ Ha) as (va & Ea & Ia & Fa). destruct (valid_new _ Hb) as (vb & Eb & Ib & Fb).
  destruct (py_compare_is_dpkg_obj va vb Ia Ib) as (z & Ec & Ed). rewrite Fa, Fb in Ed.
  pose proof (compare_antisym va vb z Ec) as Ec'.
  destruct (hash_key_total va Ia) as [ka Ka]. destruct (hash_key_total vb Ib) as [kb Kb].
  unfold model_pair. rewrite Ea, Eb. cbn [bind].
  unfold py_ops. rewrite Ec, Ec'. cbn [bind].
  rewrite (version_compare_of va vb _ _ z Ea Eb Ec), (version_compare_of vb va _ _ (- z) Eb Ea Ec').
  cbn [bind]. rewrite Ka, Kb. cbn [bind]. rewrite Ed.
  cbn [p_vc_ab p_vc_ba p_ab p_ba p_hash_eq].
  rewrite !Z.eqb_refl.
  assert (R : forall o, ops_eqb o o = true).
  { intros [[] [] [] [] [] []]; reflexivity. }
  rewrite !R. cbn [andb].
  destruct (Z.eqb_spec z 0) as [->|]; [|reflexivity].
  pose proof (hash_respects_eq va vb Ia Ib Ec) as H. unfold hash_eq in H. now rewrite Ka, Kb in H.
Qed.

(** ... and on every triple. *)
Theorem model_triple_holds a b c :
  holds (CTriple a b c (py_version_compare (dec a) (dec b)) (py_version_compare (dec b) (dec c))
                       (py_version_compare (dec a) (dec c))) = true.
Proof.
  cbn [holds]. destruct (valid_spec (dec a) && valid_spec (dec b) && valid_spec (dec c)) eqn:V; [|reflexivity].
  apply andb_true_iff in V. destruct V as [V Hc]. apply andb_true_iff in V. destruct V as [Ha Hb].
  destruct (valid_new _ Ha) as (va & Ea & Ia & Fa). destruct (valid_new _ Hb) as (vb & Eb & Ib & Fb).
  destruct (valid_new _ Hc) as (vc & Ec & Ic & Fc).
  destruct (py_compare_is_dpkg_obj va vb Ia Ib) as (x & Cx & Dx). rewrite Fa, Fb in Dx.
  destruct (py_compare_is_dpkg_obj vb vc Ib Ic) as (y & Cy & Dy). rewrite Fb, Fc in Dy.
  destruct (py_compare_is_dpkg_obj va vc Ia Ic) as (z & Cz & Dz). rewrite Fa, Fc in Dz.
  rewrite (version_compare_of va vb _ _ x Ea Eb Cx), (version_compare_of vb vc _ _ y Eb Ec Cy),
          (version_compare_of va vc _ _ z Ea Ec Cz), Dx, Dy, Dz.
  rewrite !Z.eqb_refl, !andb_true_r.
  destruct (compare_trans va vb vc x y Cx Cy) as (z' & Cz' & _ & _ & _ & _ & T).
  congruence.
Qed.
