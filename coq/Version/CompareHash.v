(** C03 proofs, hash side.  On nice strings the tuple built by [_hash_key] is the
    key [pkey] with its trailing padding elements removed ([hash_key_pkey]), and
    two keys are equal in the order [keys_cmp] exactly when these trimmed keys
    are identical ([keys_eq_iff_hash_key]). *)
From Verif Require Import Lib.Base Lib.Dec Lib.PyStr Gen.PyChars
  Version.Parse Version.Compare Version.Dpkg Version.CompareLex Version.CompareKey
  Version.CompareDpkg.
Local Open Scope Z_scope.

(** * [rdropwhile] as a structural function *)

Lemma dropwhile_snoc {A} (p : A -> bool) u x :
  dropwhile p (u ++ [x]) =
    match dropwhile p u with
    | [] => if p x then [] else [x]
    | t => t ++ [x]
    end.
Proof.
  induction u as [|c u IH]; simpl; [reflexivity|].
  destruct (p c); [exact IH|reflexivity].
Qed.

Lemma rdropwhile_cons {A} (p : A -> bool) x l :
  rdropwhile p (x :: l) =
    match rdropwhile p l with
    | [] => if p x then [] else [x]
    | t => x :: t
    end.
Proof.
  unfold rdropwhile. simpl rev. rewrite dropwhile_snoc.
  destruct (dropwhile p (rev l)) as [|t ts] eqn:E; simpl.
  - now destruct (p x).
  - rewrite rev_app_distr. simpl.
    destruct (rev ts ++ [t]) eqn:E2; [now destruct (rev ts)|reflexivity].
Qed.

Lemma trim_rdropwhile {A} (p : A -> bool) l : trim p l = rdropwhile p l.
Proof.
  induction l as [|x l IH]; [reflexivity|].
  rewrite rdropwhile_cons. simpl. now rewrite IH.
Qed.

(** * Elements of a key *)

Definition key_ok (k : key_elt) : Prop := forallb nondig (fst k) = true.

Lemma key_empty_spec x : key_elt_is_empty x = true <-> x = key_dflt.
Proof.
  destruct x as [n v]. unfold key_elt_is_empty, key_dflt. simpl. split.
  - intro H. apply andb_true_iff in H. destruct H as [H1 H2].
    destruct n; [|discriminate]. apply N.eqb_eq in H2. now subst.
  - intros [= -> ->]. reflexivity.
Qed.

Lemma py_order_inj x y : re_d x = false -> re_d y = false -> py_order x = py_order y -> x = y.
Proof.
  unfold py_order. intros -> ->. unfold re_alpha.
  destruct (N.eqb_spec x 126) as [->|Nx]; destruct (N.eqb_spec y 126) as [->|Ny]; auto.
  - destruct (((65 <=? y)%N && (y <=? 90)%N) || ((97 <=? y)%N && (y <=? 122)%N)); lia.
  - destruct (((65 <=? x)%N && (x <=? 90)%N) || ((97 <=? x)%N && (x <=? 122)%N)); lia.
  - destruct (((65 <=? x)%N && (x <=? 90)%N) || ((97 <=? x)%N && (x <=? 122)%N)) eqn:Ex;
    destruct (((65 <=? y)%N && (y <=? 90)%N) || ((97 <=? y)%N && (y <=? 122)%N)) eqn:Ey; try lia.
    + apply orb_true_iff in Ex. rewrite !andb_true_iff, !N.leb_le in Ex. lia.
    + apply orb_true_iff in Ey. rewrite !andb_true_iff, !N.leb_le in Ey. lia.
Qed.

Lemma ord_cmp_eq n1 : forall n2, forallb nondig n1 = true -> forallb nondig n2 = true ->
  ord_cmp n1 n2 = Eq -> n1 = n2.
Proof.
  unfold ord_cmp.
  induction n1 as [|x n1 IH]; intros [|y n2] H1 H2; cbn [map lexpad lexpad_r]; auto.
  - cbn [forallb] in H2. apply andb_true_iff in H2. destruct H2 as [Hy _].
    apply negb_true_iff in Hy. pose proof (py_order_nonzero y Hy).
    destruct (Z.compare_spec 0 (py_order y)); try discriminate. lia.
  - cbn [forallb] in H1. apply andb_true_iff in H1. destruct H1 as [Hx _].
    apply negb_true_iff in Hx. pose proof (py_order_nonzero x Hx).
    destruct (Z.compare_spec (py_order x) 0); try discriminate. lia.
  - cbn [forallb] in H1, H2. apply andb_true_iff in H1. apply andb_true_iff in H2.
    destruct H1 as [Hx H1], H2 as [Hy H2]. apply negb_true_iff in Hx, Hy.
    destruct (Z.compare_spec (py_order x) (py_order y)) as [E|E|E]; try discriminate.
    intro H. rewrite (py_order_inj x y Hx Hy E). f_equal. now apply IH.
Qed.

Lemma key_cmp_eq x y : key_ok x -> key_ok y -> key_cmp x y = Eq -> x = y.
Proof.
  destruct x as [n1 v1], y as [n2 v2]. unfold key_ok. simpl. intros H1 H2.
  rewrite key_cmp_unfold. destruct (ord_cmp n1 n2) eqn:E; try discriminate.
  intro H. apply N.compare_eq in H. rewrite (ord_cmp_eq _ _ H1 H2 E). now subst.
Qed.

Lemma pkey_ok n : forall s, (length s <= n)%nat -> Forall key_ok (pkey s).
Proof.
  induction n as [|n IH]; intros s Hn.
  - destruct s; [constructor|simpl in Hn; lia].
  - destruct s as [|c s]; [constructor|].
    rewrite pkey_unfold by discriminate. constructor.
    + unfold key_ok. cbn [fst]. unfold cut_nd. apply span_all.
    + apply IH. pose proof (cut_rest_shorter (c :: s) ltac:(discriminate)). lia.
Qed.

Theorem keys_eq_iff_trim a b :
  keys_cmp (pkey a) (pkey b) = Eq <->
  rdropwhile key_elt_is_empty (pkey a) = rdropwhile key_elt_is_empty (pkey b).
Proof.
  rewrite <- !trim_rdropwhile. unfold keys_cmp.
  apply (lexpad_eq_iff_trim key_cmp key_dflt key_cmp_laws key_elt_is_empty key_empty_spec key_ok).
  - reflexivity.
  - exact key_cmp_eq.
  - apply (pkey_ok (length a)). lia.
  - apply (pkey_ok (length b)). lia.
Qed.

(** * [re.findall] with the pattern of [_hash_key] *)

Definition hk_elt (p : str * str) : key_elt :=
  (fst p, parse_dec (match snd p with [] => [48%N] | d => d end)).

Lemma hash_key_unfold part :
  hash_key part = rdropwhile key_elt_is_empty (map hk_elt (findall_nd_d (S (length part)) part)).
Proof. reflexivity. Qed.

Lemma nice_in s x : forallb nice s = true -> In x s -> nice x = true.
Proof. intro H. rewrite forallb_forall in H. apply H. Qed.

Lemma span_nondig_ascii s : forallb nice s = true ->
  span (fun c => negb (is_ascii_digit c)) s = span nondig s.
Proof.
  intro H. apply span_ext. intros x Hx. unfold nondig.
  now rewrite (nice_digit x (nice_in s x H Hx)).
Qed.

Lemma span_digit_ascii s : forallb nice s = true -> span is_ascii_digit s = span re_d s.
Proof.
  intro H. apply span_ext. intros x Hx. now rewrite (nice_digit x (nice_in s x H Hx)).
Qed.

Lemma nice_snd_span p s : forallb nice s = true -> forallb nice (snd (span p s)) = true.
Proof.
  intro H. rewrite <- (span_app p s) in H. apply forallb_app_iff in H. tauto.
Qed.

Lemma findall_step fuel s : s <> [] ->
  findall_nd_d (S fuel) s =
    (let (nd, r) := span (fun c => negb (is_ascii_digit c)) s in
     let (d, r') := span is_ascii_digit r in
     (nd, d) :: findall_nd_d fuel r').
Proof. destruct s; [congruence|reflexivity]. Qed.

Lemma findall_key n : forall s fuel, (length s <= n)%nat -> (length s < fuel)%nat ->
  forallb nice s = true ->
  map hk_elt (findall_nd_d fuel s) = pkey s ++ [key_dflt].
Proof.
  induction n as [|n IH]; intros s fuel Hn Hf Hs.
  - destruct s; [|simpl in Hn; lia]. destruct fuel; [lia|]. reflexivity.
  - destruct fuel as [|fuel]; [lia|].
    destruct s as [|c s]; [reflexivity|].
    remember (c :: s) as s0 eqn:Es0.
    assert (Hne : s0 <> []) by (subst; discriminate).
    rewrite (findall_step fuel s0 Hne).
    rewrite (span_nondig_ascii s0 Hs).
    destruct (span nondig s0) as [nd r] eqn:E1.
    assert (Hr : forallb nice r = true).
    { pose proof (nice_snd_span nondig s0 Hs) as H. now rewrite E1 in H. }
    rewrite (span_digit_ascii r Hr).
    destruct (span re_d r) as [d r'] eqn:E2.
    assert (Hnd : nd = cut_nd s0) by (unfold cut_nd; now rewrite E1).
    assert (Hd : d = cut_dg s0) by (unfold cut_dg; rewrite E1; cbn [snd]; now rewrite E2).
    assert (Hr' : r' = cut_rest s0) by (unfold cut_rest; rewrite E1; cbn [snd]; now rewrite E2).
    cbn [map]. rewrite (pkey_unfold s0 Hne). cbn [app]. f_equal.
    + unfold hk_elt. cbn [fst snd]. rewrite <- Hnd, <- Hd. f_equal.
      destruct (nice_cut s0 Hs) as [_ _ _ _ _ Hv _]. rewrite <- Hd in Hv.
      destruct d; [reflexivity|]. rewrite Hv. reflexivity.
    + rewrite <- Hr'. apply IH.
      * pose proof (cut_rest_shorter s0 Hne). rewrite <- Hr' in *. lia.
      * pose proof (cut_rest_shorter s0 Hne). rewrite <- Hr' in *. lia.
      * pose proof (nice_snd_span re_d r Hr) as H. now rewrite E2 in H.
Qed.

Theorem hash_key_pkey s : forallb nice s = true ->
  hash_key s = rdropwhile key_elt_is_empty (pkey s).
Proof.
  intro H. rewrite hash_key_unfold.
  rewrite (findall_key (length s) s _ (le_n _) (Nat.lt_succ_diag_r _) H).
  now apply rdropwhile_app_drop.
Qed.

Theorem keys_eq_iff_hash_key a b : forallb nice a = true -> forallb nice b = true ->
  (keys_cmp (pkey a) (pkey b) = Eq <-> hash_key a = hash_key b).
Proof.
  intros Ha Hb. rewrite (hash_key_pkey a Ha), (hash_key_pkey b Hb). apply keys_eq_iff_trim.
Qed.
