"""Check runner shared by all properties (DESIGN.md §1.3).

One run = regenerate source-derived Coq files -> rebuild -> re-check the
property's theorems -> generate cases -> run the implementation -> evaluate
[agree] (correspondence) and [holds] (the property, judged on what the
implementation did) inside Coq -> decide -> write evidence.
"""
import concurrent.futures
import fcntl
import hashlib
import importlib
import json
import os
import random
import re
import shutil
import subprocess
import sys
import tempfile
import time
import ast

VERIF = os.path.dirname(os.path.dirname(os.path.abspath(__file__)))
COQ_MAIN = os.path.join(VERIF, "coq")
COQ = COQ_MAIN
REPO = os.environ.get("VERIF_REPO", "/repo")
if REPO != "/repo":
    # A run against another tree (mutant / pre-fix worktree) regenerates coq/Gen from THAT tree.
    # It must not touch /verif/coq (other runs against /repo use it at the same time), so it works
    # on a private copy of the Coq development (sources and compiled files, timestamps kept, taken
    # under the build lock) that is removed at exit.
    import atexit
    _alt = tempfile.mkdtemp(prefix="verif-altcoq-")
    _lk = open(os.path.join(COQ_MAIN, ".build.lock"), "w")
    fcntl.flock(_lk, fcntl.LOCK_EX)
    try:
        subprocess.run(["rsync", "-a", "--exclude", ".build.lock", COQ_MAIN + "/", os.path.join(_alt, "coq") + "/"],
                       check=True)
    finally:
        fcntl.flock(_lk, fcntl.LOCK_UN)
        _lk.close()
    COQ = os.path.join(_alt, "coq")
    atexit.register(shutil.rmtree, _alt, True)
LIB = os.path.join(REPO, "lib")
NPROC = int(os.environ.get("VERIF_JOBS", "16"))
SHARD = 250
COQC_TIMEOUT = 600

from . import extract  # noqa: E402
from .extract import coq_string  # noqa: E402,F401


# ---------------------------------------------------------------------------
# Coq term helpers used by the per-property emitters

def cq_str(s):
    return coq_string(s)


def cq_list(items):
    return "[" + "; ".join(items) + "]"


def cq_strs(ss):
    return cq_list([coq_string(s) for s in ss])


def cq_opt(x, f=lambda v: v):
    return "None" if x is None else "(Some %s)" % f(x)


def cq_bool(b):
    return "true" if b else "false"


def cq_N(n):
    assert n >= 0
    return "%d%%N" % n


def cq_Z(n):
    return "(%d)%%Z" % n


def cq_nat(n):
    assert 0 <= n < 5000
    return "%d%%nat" % n


ERR_KINDS = {
    "ValueError": "ValueError", "KeyError": "KeyError", "TypeError": "TypeError",
    "IndexError": "IndexError", "ChangelogParseError": "ParseError",
    "ParseError": "ParseError", "DebError": "DebError", "OSError": "IOError",
    "IOError": "IOError", "FileNotFoundError": "IOError",
    "MachineReadableFormatError": "FormatError", "NotMachineReadableError": "FormatError",
    "AssertionError": "AssertionError", "NotImplementedError": "NotImplementedError",
    "StopIteration": "StopIteration", "ArError": "DebError",
    "UnicodeDecodeError": "ValueError", "UnicodeEncodeError": "ValueError",
    "SyntaxOrParseError": "ValueError", "AmbiguousDeb822FieldKeyError": "KeyError",
}


def err_kind(exc):
    """Canonical exception kind (never the message)."""
    for klass in type(exc).__mro__:
        k = ERR_KINDS.get(klass.__name__)
        if k:
            return k
    return "OtherError"


# ---------------------------------------------------------------------------

class Scratch:
    def __init__(self):
        self.path = tempfile.mkdtemp(prefix="verif-scratch-")

    def __enter__(self):
        return self.path

    def __exit__(self, *a):
        shutil.rmtree(self.path, ignore_errors=True)


def run(cmd, timeout=COQC_TIMEOUT, cwd=None, env=None):
    try:
        p = subprocess.run(cmd, cwd=cwd, env=env, timeout=timeout,
                           stdout=subprocess.PIPE, stderr=subprocess.PIPE, text=True)
        return p.returncode, p.stdout, p.stderr
    except subprocess.TimeoutExpired as e:
        return 124, (e.stdout or b"").decode() if isinstance(e.stdout, bytes) else (e.stdout or ""), "TIMEOUT"


def coqc(vfile, out_vo=None, timeout=COQC_TIMEOUT):
    cmd = ["coqc", "-q", "-Q", COQ, "Verif", "-w",
           "-notation-overridden,-ambiguous-paths,-deprecated-hint-without-locality,"
           "-deprecated-instance-without-locality,-abstract-large-number"]
    if out_vo:
        cmd += ["-o", out_vo]
    cmd.append(vfile)
    return run(cmd, timeout=timeout)


FORBIDDEN = re.compile(
    r"\b(Admitted|admit|Axiom|Axioms|Parameter|Parameters|Conjecture|Conjectures|"
    r"Admit\s+Obligations|bypass_check|Unset\s+Guard\s+Checking|Unset\s+Positivity\s+Checking|"
    r"Unset\s+Universe\s+Checking|native_compute)\b")


def strip_coq_comments(text):
    out, depth, i = [], 0, 0
    while i < len(text):
        if text.startswith("(*", i):
            depth += 1
            i += 2
        elif text.startswith("*)", i) and depth:
            depth -= 1
            i += 2
        else:
            if depth == 0:
                out.append(text[i])
            i += 1
    return "".join(out)


def forbidden_scan():
    hits = []
    for root, _, files in os.walk(COQ):
        for f in files:
            if f.endswith(".v"):
                p = os.path.join(root, f)
                with open(p, encoding="utf-8") as fh:
                    body = strip_coq_comments(fh.read())
                # string literals cannot hide declarations; keep simple
                for m in FORBIDDEN.finditer(body):
                    hits.append("%s: %s" % (os.path.relpath(p, VERIF), m.group(0)))
    return hits


# ---------------------------------------------------------------------------
# build

def build(log):
    """Regenerate coq/Gen and bring every .vo up to date (full .vo build)."""
    lock = open(os.path.join(COQ, ".build.lock"), "w")
    fcntl.flock(lock, fcntl.LOCK_EX)
    try:
        # property modules register their generators on import
        for name in sorted(os.listdir(os.path.join(VERIF, "harness", "props"))):
            if re.fullmatch(r"c\d+\.py", name):
                importlib.import_module("harness.props." + name[:-3])
        changed, errors = extract.regenerate(REPO, os.path.join(COQ, "Gen"))
        log["gen_changed"] = changed
        log["gen_errors"] = errors
        if not os.path.exists(os.path.join(COQ, "Makefile")):
            write_coqproject()
            rc, out, err = run(["coq_makefile", "-f", "_CoqProject", "-o", "Makefile"], cwd=COQ)
            if rc != 0:
                log["build_error"] = err[-2000:]
                return False
        else:
            write_coqproject()
        # every coqc under a time limit of its own: a proof script that diverges on a regenerated file (or a
        # half-written one) must fail that file, not hold the build lock for everybody
        rc, out, err = run(["make", "-k", "-j%d" % NPROC, "COQC=timeout 900 coqc"], cwd=COQ, timeout=3000)
        log["build_rc"] = rc
        if rc != 0:
            log["build_error"] = (out[-1500:] + "\n" + err[-3000:])
        return rc == 0
    finally:
        fcntl.flock(lock, fcntl.LOCK_UN)
        lock.close()


def write_coqproject():
    files = []
    for root, dirs, fs in os.walk(COQ):
        dirs.sort()
        for f in sorted(fs):
            if f.endswith(".v") and not f.startswith("."):
                files.append(os.path.relpath(os.path.join(root, f), COQ))
    text = ("-Q . Verif\n"
            "-arg -w -arg -notation-overridden,-ambiguous-paths,"
            "-deprecated-hint-without-locality,-deprecated-instance-without-locality,"
            "-abstract-large-number\n" + "\n".join(files) + "\n")
    p = os.path.join(COQ, "_CoqProject")
    old = open(p).read() if os.path.exists(p) else None
    if old != text:
        with open(p, "w") as f:
            f.write(text)
        mk = os.path.join(COQ, "Makefile")
        if os.path.exists(mk):
            run(["coq_makefile", "-f", "_CoqProject", "-o", "Makefile"], cwd=COQ)


def gen_modules_used(mod):
    """Names of the coq/Gen modules that the property's Check module and Props file depend on (transitively),
    read from coq_makefile's dependency file; None when that file cannot be read (then: assume all)."""
    dep = os.path.join(COQ, ".Makefile.d")
    try:
        text = open(dep).read()
    except OSError:
        return None
    graph = {}
    for line in text.replace("\\\n", " ").splitlines():
        if ":" not in line:
            continue
        lhs, rhs = line.split(":", 1)
        targets = [t for t in lhs.split() if t.endswith(".vo")]
        deps = [d for d in rhs.split() if d.endswith(".vo")]
        for t in targets:
            graph.setdefault(t, set()).update(deps)
    roots = [mod.CHECK_MODULE.replace(".", "/") + ".vo", mod.PROPS_FILE[:-2] + ".vo"]
    if getattr(mod, "TIE_FILE", None):
        roots.append(mod.TIE_FILE[:-2] + ".vo")
    if not all(r in graph for r in roots):
        return None
    seen, todo = set(), list(roots)
    while todo:
        x = todo.pop()
        if x in seen:
            continue
        seen.add(x)
        todo += list(graph.get(x, ()))
    return {os.path.basename(x)[:-3] for x in seen if x.startswith("Gen/")}


def vo_ok(rel_v):
    """The .vo exists and is up to date with respect to its source AND everything it depends on."""
    v = os.path.join(COQ, rel_v)
    vo = v[:-2] + ".vo"
    if not (os.path.exists(vo) and os.path.getmtime(vo) >= os.path.getmtime(v)):
        return False
    if not os.path.exists(os.path.join(COQ, "Makefile")):
        return True
    rc, _, _ = run(["make", "-q", rel_v[:-2] + ".vo"], cwd=COQ, timeout=300)
    return rc == 0


# ---------------------------------------------------------------------------
# theorems

THEOREM_RE = re.compile(r"^\s*(Theorem|Corollary)\s+([A-Za-z0-9_']+)", re.M)


def check_props(mod, scratch, rel=None):
    """Re-run coqc on Props/Cxx.v (or another theorem file).  Returns dict(obligations, discharged, axioms, error)."""
    rel = rel or mod.PROPS_FILE
    path = os.path.join(COQ, rel)
    text = open(path, encoding="utf-8").read()
    names = [m.group(2) for m in THEOREM_RE.finditer(strip_coq_comments(text))]
    res = {"file": "coq/" + rel, "theorems": names, "obligations": len(names),
           "discharged": 0, "axioms": [], "error": None,
           "checker_cmd": "coqc -Q coq Verif coq/%s  (after make -C coq; Coq 8.16.1, full .vo build)" % rel}
    t0 = time.time()
    rc, out, err = coqc(path, out_vo=os.path.join(scratch, os.path.basename(path)[:-2] + ".vo"))
    res["coqc_s"] = round(time.time() - t0, 2)
    if rc != 0:
        res["error"] = (err or out)[-3000:]
        m = re.search(r"line (\d+)", err or "")
        if m:
            # theorems whose statement starts before the failing line and whose
            # successor also starts before it are certainly complete
            line = int(m.group(1))
            starts = [text[:mm.start()].count("\n") + 1 for mm in THEOREM_RE.finditer(text)]
            res["discharged"] = max(0, sum(1 for s in starts if s < line) - 1)
        return res
    res["discharged"] = len(names)
    # Print Assumptions output
    axioms = set()
    blocks = re.split(r"\n(?=Closed under|Axioms:)", "\n" + out)
    closed = 0
    for b in blocks:
        b = b.strip()
        if b.startswith("Closed under"):
            closed += 1
        elif b.startswith("Axioms:"):
            for m in re.finditer(r"^([A-Za-z0-9_.']+)\s*:", b[len("Axioms:"):], re.M):
                axioms.add(m.group(1))
    res["print_assumptions_blocks"] = len([b for b in blocks if b.strip()])
    res["closed_blocks"] = closed
    res["axioms"] = sorted(axioms)
    return res


def run_coqchk(mod):
    """Thorough tier: independent re-check of the property's .vo and everything it depends on."""
    names = ["Verif." + mod.PROPS_FILE[:-2].replace("/", ".")]
    if getattr(mod, "TIE_FILE", None) and vo_ok(mod.TIE_FILE):
        names.append("Verif." + mod.TIE_FILE[:-2].replace("/", "."))
    t0 = time.time()
    rc, out, err = run(["coqchk", "-silent", "-o", "-Q", COQ, "Verif"] + names, timeout=1500)
    name = " ".join(names)
    res = {"cmd": "coqchk -silent -o -Q coq Verif %s" % name, "rc": rc, "wall_s": round(time.time() - t0, 1)}
    txt = out + err
    m = re.search(r"\* Axioms:(.*?)\n\s*\n\* Constants/Inductives relying on type-in-type:(.*?)\n\s*\n"
                  r"\* Constants/Inductives relying on unsafe \(co\)fixpoints:(.*?)\n\s*\n"
                  r"\* Inductives whose positivity is assumed:(.*?)\n", txt, re.S)
    if m:
        res["axioms"] = " ".join(m.group(1).split())
        res["type_in_type"] = " ".join(m.group(2).split())
        res["unsafe_fixpoints"] = " ".join(m.group(3).split())
        res["positivity_assumed"] = " ".join(m.group(4).split())
    else:
        res["output_tail"] = txt[-800:]
    return res


# ---------------------------------------------------------------------------
# case evaluation inside Coq

def write_shard(mod, path, terms):
    imports = getattr(mod, "SHARD_IMPORTS", "")
    with open(path, "w", encoding="utf-8") as f:
        f.write("From Coq Require Import String List NArith ZArith. Import ListNotations.\n")
        f.write("From Verif Require Import Lib.Base.\n")
        f.write("From Verif Require Import %s.\n" % mod.CHECK_MODULE)
        if imports:
            f.write(imports + "\n")
        f.write("Local Open Scope string_scope.\n")
        f.write("Definition cases : list case := [\n")
        f.write(";\n".join(terms))
        f.write("\n].\n")
        f.write("Eval vm_compute in (bad_agree cases).\n")
        f.write("Eval vm_compute in (bad_holds cases).\n")


EVAL_RE = re.compile(r"=\s*(.*?)\s*:\s*list N", re.S)


def eval_shard(args):
    mod_name, path, n = args
    rc, out, err = coqc(path, out_vo=path[:-2] + ".vo")
    if rc != 0:
        return {"error": (err or out)[-2000:], "rc": rc}
    parts = EVAL_RE.findall(out)
    if len(parts) != 2:
        return {"error": "unparseable coqc output: " + out[-500:], "rc": rc}
    idx = [[int(x) for x in re.findall(r"\d+", p.replace("%N", ""))] for p in parts]
    for lst in idx:
        for i in lst:
            if i >= n:
                return {"error": "index out of range in coqc output", "rc": rc}
    return {"agree_bad": idx[0], "holds_bad": idx[1]}


def evaluate(mod, scratch, items, tag="s"):
    """items: list of (case, obs).  Returns (agree_bad, holds_bad, errors): global indices."""
    jobs = []
    terms = [mod.emit(c, o) for c, o in items]
    shard = getattr(mod, "SHARD", SHARD)
    for k in range(0, len(terms), shard):
        p = os.path.join(scratch, "%s_%s_%d.v" % (mod.ID, tag, k // shard))
        chunk = terms[k:k + shard]
        write_shard(mod, p, chunk)
        jobs.append((mod.__name__, p, len(chunk)))
    agree_bad, holds_bad, errors = [], [], []
    with concurrent.futures.ThreadPoolExecutor(max_workers=NPROC) as ex:
        for j, r in enumerate(ex.map(eval_shard, jobs)):
            if "error" in r:
                errors.append({"shard": j, "error": r["error"]})
                continue
            agree_bad += [j * shard + i for i in r["agree_bad"]]
            holds_bad += [j * shard + i for i in r["holds_bad"]]
    return agree_bad, holds_bad, errors


# ---------------------------------------------------------------------------
# anchors (advisory source-change guard)

def _strip_doc(node):
    for n in ast.walk(node):
        if isinstance(n, (ast.FunctionDef, ast.ClassDef, ast.AsyncFunctionDef, ast.Module)):
            if n.body and isinstance(n.body[0], ast.Expr) and isinstance(
                    getattr(n.body[0], "value", None), ast.Constant) and isinstance(
                    n.body[0].value.value, str):
                n.body = n.body[1:] or [ast.Pass()]
    return node


_REPRO = ["lib/debian/_deb822_repro/%s.py" % n for n in ("__init__", "_util", "formatter", "parsing", "tokens", "types")]
# whole files every property depends on (besides the functions its harness names): any change there switches the run
# to the deep budget — new methods, class-level state and helpers do not escape the guard by not being listed
PROP_FILES = {
    "C01": _REPRO + ["lib/debian/_util.py"], "C05": _REPRO + ["lib/debian/_util.py"],
    "C10": _REPRO + ["lib/debian/_util.py"], "C11": _REPRO + ["lib/debian/_util.py"],
    "C02": ["lib/debian/deb822.py", "lib/debian/_util.py"], "C08": ["lib/debian/deb822.py", "lib/debian/_util.py"],
    "C09": ["lib/debian/deb822.py", "lib/debian/_util.py"], "C12": ["lib/debian/deb822.py", "lib/debian/_util.py"],
    "C13": ["lib/debian/deb822.py", "lib/debian/_util.py"],
    "C03": ["lib/debian/debian_support.py"], "C14": ["lib/debian/debian_support.py"],
    "C18": ["lib/debian/debian_support.py"], "C19": ["lib/debian/debian_support.py"],
    "C04": ["lib/debian/changelog.py", "lib/debian/debian_support.py"],
    "C15": ["lib/debian/changelog.py", "lib/debian/debian_support.py"],
    "C06": ["lib/debian/arfile.py"],
    "C07": ["lib/debian/arfile.py", "lib/debian/debfile.py", "lib/debian/deb822.py", "lib/debian/_util.py"],
    "C16": ["lib/debian/copyright.py", "lib/debian/deb822.py", "lib/debian/_util.py"],
    "C17": ["lib/debian/copyright.py", "lib/debian/deb822.py", "lib/debian/_util.py"],
    "C20": ["lib/debian/debtags.py"],
}


def anchor_hashes(mod):
    out = {}
    listed = [rel for rel, names in getattr(mod, "ANCHORS", []) if not names]
    extra = [(rel, []) for rel in PROP_FILES.get(getattr(mod, "ID", ""), []) if rel not in listed]
    for rel, names in list(getattr(mod, "ANCHORS", [])) + extra:
        path = os.path.join(REPO, rel)
        try:
            tree = _strip_doc(ast.parse(open(path, encoding="utf-8").read()))
        except Exception as e:  # unparsable source: certainly changed
            out[rel] = "unparsable:%s" % type(e).__name__
            continue
        if not names:
            out[rel] = hashlib.sha256(ast.dump(tree).encode()).hexdigest()[:16]
            continue
        found = {}
        for node in ast.walk(tree):
            nm = getattr(node, "name", None)
            if nm in names and isinstance(node, (ast.FunctionDef, ast.ClassDef)):
                found.setdefault(nm, []).append(ast.dump(node))
            if isinstance(node, ast.Assign):
                for t in node.targets:
                    if isinstance(t, ast.Name) and t.id in names:
                        found.setdefault(t.id, []).append(ast.dump(node))
        for nm in names:
            h = hashlib.sha256("\n".join(found.get(nm, ["<missing>"])).encode()).hexdigest()[:16]
            out["%s::%s" % (rel, nm)] = h
    return out


def lock_path():
    return os.path.join(VERIF, "harness", "anchors.lock")


def load_lock():
    try:
        return json.load(open(lock_path()))
    except Exception:
        return {}


# ---------------------------------------------------------------------------
# known findings

def load_findings():
    p = os.path.join(VERIF, "known_findings.json")
    try:
        return json.load(open(p)).get("findings", [])
    except FileNotFoundError:
        return []


# ---------------------------------------------------------------------------

def case_key(case):
    return hashlib.sha256(json.dumps(case, sort_keys=True, default=repr).encode()).hexdigest()[:12]


def jsonable(x):
    if isinstance(x, bytes):
        return {"bytes": x.decode("latin-1")}
    if isinstance(x, (list, tuple)):
        return [jsonable(v) for v in x]
    if isinstance(x, dict):
        return {str(k): jsonable(v) for k, v in x.items()}
    if isinstance(x, (set, frozenset)):
        return sorted(jsonable(v) for v in x)
    return x


def run_impl_all(mod, cases):
    out = []
    for c in cases:
        try:
            out.append(mod.run_impl(c))
        except Exception as e:  # the driver itself must not fail
            out.append({"driver_error": "%s: %s" % (type(e).__name__, e)})
    return out


def shrink_case(mod, scratch, case, obs, want="holds", rounds=14, width=160):
    """Greedy shrinking: keep the first smaller candidate on which [want] still fails."""
    if not hasattr(mod, "shrink"):
        return case, obs
    cur, cur_obs = case, obs
    for r in range(rounds):
        cands = []
        seen = set()
        for c in mod.shrink(cur):
            k = case_key(c)
            if k in seen:
                continue
            seen.add(k)
            cands.append(c)
            if len(cands) >= width:
                break
        if not cands:
            break
        obss = run_impl_all(mod, cands)
        items = [(c, o) for c, o in zip(cands, obss) if "driver_error" not in (o if isinstance(o, dict) else {})]
        if not items:
            break
        ab, hb, errs = evaluate(mod, scratch, items, tag="shr%d" % r)
        bad = hb if want == "holds" else ab if want == "agree" else sorted(set(hb) & set(ab))
        if not bad:
            break
        i = min(bad)
        cur, cur_obs = items[i]
    return cur, cur_obs


def write_replay(mod, kind, case, obs, extra=None):
    os.makedirs(os.path.join(VERIF, "replays"), exist_ok=True)
    rec = {"property": mod.ID, "kind": kind, "case": jsonable(case), "observed": jsonable(obs),
           "repo": REPO,
           "how_to_replay": "./check %s --replay <this file>" % mod.ID}
    if hasattr(mod, "describe"):
        try:
            rec["description"] = mod.describe(case, obs)
        except Exception:
            pass
    if extra:
        rec.update(extra)
    path = os.path.join(VERIF, "replays", "%s-%s-%s.json" % (mod.ID, kind, case_key(jsonable(case))))
    with open(path, "w") as f:
        json.dump(rec, f, indent=1, sort_keys=True, default=repr)
    return path


def match_known(mod, case, obs, findings):
    if not hasattr(mod, "known_match"):
        return None
    for f in findings:
        if f.get("property") == mod.ID and f.get("status") == "known":
            try:
                if mod.known_match(f, case, obs):
                    return f
            except Exception:
                pass
    return None


def load_corpus(mod):
    d = os.path.join(VERIF, "corpus", mod.ID)
    out = []
    if os.path.isdir(d):
        for f in sorted(os.listdir(d)):
            if f.endswith(".json"):
                try:
                    out.append(mod.from_json(json.load(open(os.path.join(d, f)))["case"]))
                except Exception:
                    pass
    return out


def check(prop_id, tier, seed):
    t0 = time.time()
    mod = importlib.import_module("harness.props." + prop_id.lower())
    log = {}
    findings = load_findings()
    violations = []     # (replay_path, suffix)
    known_lines = []
    notes = []
    # evidence is only ever written for /repo itself; runs against another tree
    # (VERIF_REPO=..., used to try the checks on mutants) go to an ignored directory
    evidence_path = os.path.join(VERIF, "evidence" if REPO == "/repo" else "evidence-alt", "%s.json" % mod.ID)
    try:
        os.remove(evidence_path)
    except FileNotFoundError:
        pass

    hits = forbidden_scan()
    if hits:
        print("MACHINERY-ERROR: forbidden declarations in the Coq development: %s" % hits[:5])
        return 2

    built = build(log)
    with Scratch() as scratch:
        tie_broken = []
        if log.get("gen_errors"):
            # a generator that fails closed breaks the tie only for the properties whose Check/Props
            # modules (transitively) import the file it writes
            used = gen_modules_used(mod)
            mine = {k: v for k, v in log["gen_errors"].items() if used is None or k in used}
            if mine:
                tie_broken.append({"what": "translator", "detail": mine})
        check_v = mod.CHECK_MODULE.replace(".", "/") + ".v"
        if not vo_ok(check_v):
            tie_broken.append({"what": "model does not build", "detail": log.get("build_error", "")[-1500:]})
        props = check_props(mod, scratch) if vo_ok(check_v) or built else {
            "obligations": 1, "discharged": 0, "axioms": [], "error": "build failed",
            "theorems": [], "checker_cmd": "make -C coq"}
        if props["error"]:
            tie_broken.append({"what": "theorem no longer checks", "file": props.get("file"),
                               "detail": props["error"][-1500:]})
        # tie by regeneration (DESIGN §3.1b): theorems that the functions regenerated from the source
        # (coq/Gen/Tr*.v, harness/py2coq.py) equal the model functions on all inputs
        tie = None
        if getattr(mod, "TIE_FILE", None):
            tie = check_props(mod, scratch, mod.TIE_FILE) if built or vo_ok(check_v) else {
                "obligations": 1, "discharged": 0, "axioms": [], "error": "build failed", "theorems": [],
                "file": "coq/" + mod.TIE_FILE, "checker_cmd": "make -C coq"}
            if any(t.get("what") == "translator" for t in tie_broken):
                tie["discharged"] = 0
                tie["error"] = tie["error"] or "the translator failed closed on the current source; the compiled tie is about a stale file"
            elif tie["error"]:
                tie_broken.append({"what": "tie theorem (regenerated source = model) no longer checks",
                                   "file": tie.get("file"),
                                   "detail": tie["error"][-1500:] + "\n--- build log ---\n" + log.get("build_error", "")[-1500:]})
        chk = None
        if tier == "thorough" and not props["error"] and vo_ok(mod.PROPS_FILE):
            chk = run_coqchk(mod)
            if chk["rc"] != 0 or chk.get("type_in_type", "<none>") != "<none>" \
                    or chk.get("unsafe_fixpoints", "<none>") != "<none>" \
                    or chk.get("positivity_assumed", "<none>") != "<none>":
                tie_broken.append({"what": "coqchk does not accept the property's .vo", "detail": chk})

        # source-change guard
        now = anchor_hashes(mod)
        locked = load_lock().get(mod.ID, {})
        source_changed = sorted(k for k in now if locked.get(k) != now[k]) if locked else []
        deep = bool(source_changed) or bool(tie_broken)

        rng = random.Random((seed * 1000003) ^ int(hashlib.sha256(mod.ID.encode()).hexdigest()[:8], 16))
        budget = dict(getattr(mod, "BUDGET", {"quick": 1500, "thorough": 20000}))
        n = budget["thorough" if tier == "thorough" else "quick"]
        if deep and tier != "thorough":
            n = min(budget["thorough"], n * 8)
        corpus = load_corpus(mod)
        cases = corpus + list(mod.generate(rng, n, "thorough" if (deep or tier == "thorough") else "quick"))
        obss = run_impl_all(mod, cases)
        driver_errors = [(c, o) for c, o in zip(cases, obss) if isinstance(o, dict) and "driver_error" in o]
        items = [(c, o) for c, o in zip(cases, obss) if not (isinstance(o, dict) and "driver_error" in o)]

        agree_bad, holds_bad, shard_errors = ([], [], [])
        can_eval = vo_ok(check_v)
        if can_eval:
            agree_bad, holds_bad, shard_errors = evaluate(mod, scratch, items)
        if shard_errors:
            tie_broken.append({"what": "case shard failed to evaluate", "detail": shard_errors[:2]})

        # classification / histogram
        hist = {}
        nontriv = set()
        for c, o in items:
            k = mod.classify(c, o) if hasattr(mod, "classify") else "case"
            hist[k] = hist.get(k, 0) + 1
            if mod.nontrivial(c, o):
                nontriv.add(case_key(jsonable(c)))

        # optional spec-side validation against an oracle outside /repo
        spec_val = None
        if hasattr(mod, "spec_selftest"):
            spec_val = mod.spec_selftest(items, scratch, tier)
            if spec_val and spec_val.get("disagreements"):
                print("MACHINERY-ERROR: spec disagrees with its external oracle: %s"
                      % json.dumps(spec_val["disagreements"][:3], default=repr))
                return 2

        # --- property failures on the implementation's behaviour
        reported = set()
        # failing cases of different classes first, so that distinct causes are shrunk
        # Cases on which the model ALSO disagrees come first: a listed known finding is part of the model (agree
        # holds on it), so a failing case that the model does not predict is something else.  Cases that match a
        # known finding as they are get skipped without shrinking, and do not use up the examination budget — a
        # known finding must never mask a different violation of the same property.
        agree_set = set(agree_bad)
        order, seen_cls = [], set()
        for i in sorted(holds_bad, key=lambda j: (j not in agree_set, j)):
            k = (i in agree_set, mod.classify(*items[i]) if hasattr(mod, "classify") else "")
            if k not in seen_cls:
                seen_cls.add(k)
                order.append(i)
        in_order = set(order)
        order += [i for i in sorted(holds_bad, key=lambda j: (j not in agree_set, j)) if i not in in_order]
        examined = 0
        for i in order:
            c, o = items[i]
            kf0 = match_known(mod, c, o, findings)
            if kf0 and i not in agree_set:
                line = "KNOWN-FINDING: property=%s %s" % (mod.ID, kf0["what"])
                if line not in known_lines:
                    known_lines.append(line)
                continue
            examined += 1
            if examined > 12:
                break
            both = i in agree_set
            # a case that shows a known finding AND disagrees with the model (which contains the known finding)
            # is shrunk so that both failures are kept, and is never written off as the known finding
            sc, so = shrink_case(mod, scratch, c, o, "both" if both else "holds")
            key = case_key(jsonable(sc))
            if key in reported:
                continue
            reported.add(key)
            kf = None if both else (match_known(mod, sc, so, findings) or match_known(mod, c, o, findings))
            if kf:
                line = "KNOWN-FINDING: property=%s %s" % (mod.ID, kf["what"])
                if line not in known_lines:
                    known_lines.append(line)
                continue
            path = write_replay(mod, "violation", sc, so, {"original_case": jsonable(c)})
            violations.append((path, ""))
            if len(violations) >= 3:
                break

        # --- correspondence failures / broken theorems without a failing input
        agree_only = [i for i in agree_bad if i not in set(holds_bad)]
        if (agree_only or tie_broken) and not violations:
            # search harder for a real failing input before giving up
            found = False
            if can_eval:
                extra = []
                for i in agree_only[:10]:
                    c, _ = items[i]
                    if hasattr(mod, "neighbours"):
                        extra += list(mod.neighbours(c, rng))[:300]
                extra += list(mod.generate(rng, min(budget["thorough"], n * 4), "thorough"))
                eo = run_impl_all(mod, extra)
                eitems = [(c, o) for c, o in zip(extra, eo) if not (isinstance(o, dict) and "driver_error" in o)]
                _, hb2, _ = evaluate(mod, scratch, eitems, tag="deep")
                for i in hb2[:20]:
                    c, o = eitems[i]
                    sc, so = shrink_case(mod, scratch, c, o, "holds")
                    if match_known(mod, sc, so, findings) or match_known(mod, c, o, findings):
                        continue
                    path = write_replay(mod, "violation", sc, so, {"found_by": "search after broken tie"})
                    violations.append((path, ""))
                    found = True
                    break
                log["deep_search_cases"] = len(eitems)
            if not found:
                if agree_only:
                    c, o = items[agree_only[0]]
                    sc, so = shrink_case(mod, scratch, c, o, "agree")
                    path = write_replay(mod, "correspondence", sc, so, {
                        "broken": "correspondence: model and implementation disagree on this input "
                                  "(Coq: %s.agree = false); no input violating the property was found"
                                  % mod.CHECK_MODULE,
                        "disagreeing_cases": len(agree_only)})
                else:
                    os.makedirs(os.path.join(VERIF, "replays"), exist_ok=True)
                    path = os.path.join(VERIF, "replays", "%s-tie-broken.json" % mod.ID)
                    json.dump({"property": mod.ID, "broken": tie_broken}, open(path, "w"), indent=1, default=repr)
                violations.append((path, " no-failing-input-found"))

        for c, o in driver_errors[:3]:
            notes.append("driver error: %s" % o["driver_error"])
        if driver_errors and not violations:
            # The driver only performs calls that cannot fail on a tree where the property holds (it catches and
            # records every exception the property allows).  An exception that escapes it means the implementation
            # could not even be observed on this input: the correspondence is broken there.  The input is kept in
            # the replay file; holds could not be evaluated on it.
            os.makedirs(os.path.join(VERIF, "replays"), exist_ok=True)
            c0, o0 = driver_errors[0]
            path = os.path.join(VERIF, "replays", "%s-driver-%s.json" % (mod.ID, case_key(jsonable(c0))))
            json.dump({"property": mod.ID, "kind": "driver",
                       "broken": "correspondence: an observation call of the driver raised on this input (%s); "
                                 "%d of %d cases affected" % (o0["driver_error"], len(driver_errors), len(cases)),
                       "case": jsonable(c0), "repo": REPO}, open(path, "w"), indent=1, default=repr)
            violations.append((path, " no-failing-input-found"))

        # --- evidence
        samples = []
        step = max(1, len(items) // 4)
        for c, o in items[::step][:5]:
            samples.append({"case": jsonable(c), "observed": jsonable(o)})
        all_axioms = sorted(set(props["axioms"]) | set(tie["axioms"] if tie else []))
        props = dict(props, axioms=all_axioms)
        trusted = ([
            "harness/py2coq.py: translator of the Python subset (statements, loops on fuel, exceptions as result) "
            "that regenerates coq/Gen/Tr*.v from the source; its rendering of each Python construct and the "
            "variable types given in the spec are trusted, the primitives it calls (regex leaves, int()) are "
            "hand-written and compared with the live objects by the correspondence"] if tie else []) + [
            "Coq 8.16.1 kernel (coqc, full .vo build; vm_compute used for Examples and case evaluation; no native_compute)",
            "Print Assumptions for the %d theorems of %s: %s" % (
                props["obligations"], props.get("file"),
                ("axioms " + ", ".join(props["axioms"])) if props["axioms"] else "Closed under the global context (no axioms)"),
            "harness/extract.py translator for coq/Gen (character tables from the running interpreter; constants from the source AST)",
            "correspondence harness: generators, implementation driver, escaped-literal encoder (harness/extract.py coq_string) and decoder (coq/Lib/Dec.v dec); no extraction, no Extract directives",
        ] + list(getattr(mod, "TRUSTED", []))
        if tie:
            trusted[2] = trusted[2].replace("theorems of %s" % props.get("file"),
                                            "theorems of %s and %s" % (props.get("file"), tie.get("file")))
        ev = {
            "property_id": mod.ID, "tier": tier, "seed": seed, "level": "proof",
            "coverage": {
                "obligations": props["obligations"] + (tie["obligations"] if tie else 0),
                "discharged": props["discharged"] + (tie["discharged"] if tie else 0),
                "checker_cmd": props["checker_cmd"],
                "trusted_base": trusted,
                "theorems": props.get("theorems", []),
                "axioms_reported_by_Print_Assumptions": props["axioms"],
                "evaluations": len(items),
                "distinct_nontrivial": len(nontriv),
                "rule": getattr(mod, "RULE", ""),
                "samples": samples,
                "histogram": hist,
                "correspondence": {
                    "cases_compared": len(items) if can_eval else 0,
                    "agree_failures": len(agree_bad), "holds_failures": len(holds_bad),
                    "evaluated_in": "Coq (vm_compute) via %s.bad_agree / bad_holds" % mod.CHECK_MODULE,
                    "corpus_cases": len(corpus)},
                "source_changed_since_lock": source_changed,
                "deep_budget": deep,
                "gen_changed": log.get("gen_changed", []),
                "tie_broken": tie_broken,
                "tie_by_regeneration": None if tie is None else {
                    "file": tie.get("file"), "theorems": tie.get("theorems", []), "obligations": tie["obligations"],
                    "discharged": tie["discharged"], "axioms": tie["axioms"], "error": tie["error"],
                    "translator": "harness/py2coq.py -> coq/Gen (regenerated from the working tree on this run)"},
                "coqchk": chk,
                "spec_validation": spec_val,
                "known_findings_seen": known_lines,
                "notes": notes,
                "exhaustive": False,
            },
            "assumptions": list(getattr(mod, "ASSUMPTIONS", [])),
            "wall_s": round(time.time() - t0, 2),
            "violations": len(violations),
        }
        if hasattr(mod, "extra_evidence"):
            ev["coverage"].update(mod.extra_evidence(items))
        os.makedirs(os.path.dirname(evidence_path), exist_ok=True)
        with open(evidence_path, "w") as f:
            json.dump(ev, f, indent=1, sort_keys=True, default=repr)

    for line in known_lines:
        print(line)
    for path, suffix in violations:
        print("VIOLATION property=%s replay=%s%s" % (mod.ID, path, suffix))
    if tie:
        props = dict(props, discharged=props["discharged"] + tie["discharged"],
                     obligations=props["obligations"] + tie["obligations"])
    print("%s %s: theorems %d/%d, cases %d (nontrivial %d), agree-fail %d, holds-fail %d, %.1fs%s"
          % (mod.ID, tier, props["discharged"], props["obligations"], len(items), len(nontriv),
             len(agree_bad), len(holds_bad), time.time() - t0,
             ", source changed: %s" % source_changed if source_changed else ""))
    return 1 if violations else 0


def replay(prop_id, path):
    mod = importlib.import_module("harness.props." + prop_id.lower())
    rec = json.load(open(path))
    if "case" not in rec:
        print(json.dumps(rec, indent=1))
        print("replay: names a broken theorem/correspondence, no input to run")
        return 1
    case = mod.from_json(rec["case"])
    log = {}
    build(log)
    try:
        obs = mod.run_impl(case)
    except Exception as e:
        print("case:", json.dumps(jsonable(case), default=repr)[:2000])
        print("the driver's observation calls raise on this input: %s: %s" % (type(e).__name__, e))
        print("VIOLATION property=%s replay=%s no-failing-input-found" % (mod.ID, path))
        return 1
    with Scratch() as scratch:
        ab, hb, errs = evaluate(mod, scratch, [(case, obs)], tag="replay")
    print("case:", json.dumps(jsonable(case), default=repr)[:2000])
    print("observed now:", json.dumps(jsonable(obs), default=repr)[:2000])
    if hasattr(mod, "describe"):
        print("description:", json.dumps(mod.describe(case, obs), default=repr)[:2000])
    print("agree(model, implementation):", not ab, "  holds(property):", not hb, " errors:", errs)
    if hb:
        kf = match_known(mod, case, obs, load_findings())
        if kf:
            print("KNOWN-FINDING: property=%s %s" % (mod.ID, kf["what"]))
            return 0
        print("VIOLATION property=%s replay=%s" % (mod.ID, path))
        return 1
    if ab:
        print("VIOLATION property=%s replay=%s no-failing-input-found" % (mod.ID, path))
        return 1
    return 0


def libcheck(tier, seed):
    """Validates coq/Lib against the Python built-ins; exit 2 on any disagreement."""
    mod = importlib.import_module("harness.props.lib")
    log = {}
    build(log)
    rng = random.Random(seed)
    cases = list(mod.generate(rng, mod.BUDGET["thorough" if tier == "thorough" else "quick"], tier))
    items = list(zip(cases, run_impl_all(mod, cases)))
    with Scratch() as scratch:
        ab, hb, errs = evaluate(mod, scratch, items, tag="lib")
    if errs:
        print("MACHINERY-ERROR: library check shards failed: %s" % errs[:1])
        return 2
    for i in ab[:10]:
        print("MACHINERY-ERROR: coq/Lib disagrees with Python on", json.dumps(jsonable(items[i]), default=repr))
    print("LIB: %d cases, %d disagreements" % (len(items), len(ab)))
    return 2 if ab else 0


def relock():
    lock = {}
    for name in sorted(os.listdir(os.path.join(VERIF, "harness", "props"))):
        if re.fullmatch(r"c\d+\.py", name):
            mod = importlib.import_module("harness.props." + name[:-3])
            lock[mod.ID] = anchor_hashes(mod)
    with open(lock_path(), "w") as f:
        json.dump(lock, f, indent=1, sort_keys=True)
    print("relocked", sorted(lock))
