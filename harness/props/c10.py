"""C10 — structural edits of a preserved document only move or insert whole elements.

Driver, observation format and literals are shared with C05 (harness/props/c05.py) where
they coincide; the case format is coq/Repro/StructCheck.v.
"""
from harness.core import cq_bool, cq_list, err_kind
from harness.props import c05
from harness.props.c05 import (Interner, _walk_strings, cq_item, cq_key, cq_pieces, key_name,
                               parse_doc, pykey, split_lines)

ID = "C10"
CHECK_MODULE = "Repro.StructCheck"
PROPS_FILE = "Props/C10.v"
SHARD = 50
SHARD_IMPORTS = "From Verif Require Import Repro.Doc Repro.StructSort Repro.Struct."
ANCHORS = [("lib/debian/_deb822_repro/parsing.py",
            ["Deb822NoDuplicateFieldsParagraphElement", "Deb822DuplicateFieldsParagraphElement",
             "Deb822FileElement", "_unpack_key", "_ensure_final_newline", "from_kvpairs",
             "add_final_newline_if_missing"]),
           ("lib/debian/_util.py", ["OrderedSet", "LinkedList", "default_field_sort_key"])]
BUDGET = {"quick": 500, "thorough": 6000}
RULE = ("documents of 1-3 paragraphs (c05.gen_doc: comment lines before fields, multi-line values, free "
        "comments/blank lines between paragraphs, head/tail comments, with and without final LF), half of them "
        "with duplicated (also case-variant) field names, plus small documents over five names (60% with duplicates); "
        "x histories of 1-6 operations: order_first/last/before/after with un-indexed and (name, i) keys (mostly valid "
        "indices, also negative, out of range, any case spelling, absent names, self references), sort_fields (half of "
        "them with a custom key: len, a constant, 'X- fields last', first character lower-cased, exact spelling), "
        "p[k]=v / del p[k] with un-indexed and indexed keys (plain one-line values; a few multi-line/invalid values "
        "and bad keys), Deb822FileElement.append/insert of freshly built paragraphs (index 0..n+1, rarely negative), "
        "re-appending a paragraph of the file; a 2% stream that empties a paragraph, appends/inserts and refills it "
        "(D23); a 10% stream of 2-4 paragraphs separated by free comment lines glued to the end of the paragraph "
        "before / to the start of the next (with and without blank lines on either side) x insert at a middle index; "
        "a 14% stream of sort_fields(key=custom) on documents whose names tie under the key (equal lengths, equal first "
        "characters, X- and other names, case variants) and that repeat a field 2-3 times with the occurrences interleaved "
        "with other fields (own generator 60%, c05.gen_doc(dups) 40%), alone, after another operation, followed by a second "
        "sort or by an indexed order/set/del on the sorted paragraph.  Observed after every operation: exception kind, dump(), a fresh parse of the dump (name and exact "
        "text of every field), and for the paragraph operated on (all paragraphs after append/insert and at the end "
        "of the history) and every name in it the position of get_kvpair_element((name, i)) among iter_parts() for "
        "i = -1, 0..count.  non-trivial = at least one operation succeeded and changed the dump")
TRUSTED = ["model coq/Repro/Struct.v (on coq/Repro/Doc.v) is a hand transcription of the order_*/sort_fields methods of "
           "both paragraph classes, _nodes_being_relocated, _regenerate_relative_kvapir_order and "
           "Deb822FileElement.append/insert at field-text level; OrderedSet and LinkedList at list level (the linked "
           "structure itself is C09's subject); tied to the code by this correspondence and — for the ordering methods of both "
           "paragraph classes — by regeneration (coq/Props/C10Tie.v: refinement through a representation relation over C09's "
           "heap; also Deb822FileElement.append/insert; p[k]=v of both classes and del p[k] of the duplicates class are not "
           "regenerated)",
           "for the tie (coq/Repro/StructTrPrims.v): key-value pair elements as references into a store of the model's fields with "
           "field_name = f_name and add_final_newline_if_missing = add_nl; _unpack_key = the model's unpack_key (no name tokens); "
           "_resolve_to_single_node is regenerated too (without a name token); Python lists of nodes as references into a store of lists; "
           "OrderedSet(iterable) = the regenerated extend on the empty set; reversed(OrderedSet/LinkedList) = the reverse of the "
           "regenerated iteration; sorted = the model's stable sort_by with the model's key family (source texts of these asserted "
           "by hash in the generator); top-level tokens/elements as references into a store of the model's items with a parent "
           "pointer (convert_to_text = item_text, the isinstance tests, _ensure_final_newline = ensure_item)",
           "the initial abstract document of a case is read off the implementation's own parse (c05.abstract: class, "
           "comment text, name text, remaining text per key-value pair)",
           "p[k]=v inside a history is Doc.setitem (C05's model); the reference judges it only for plain one-line values",
           "sorted() is a stable sort: modelled by insertion sort (coq/Repro/StructSort.v), proved sorted/stable/permutation "
           "for every key function into a type with a total transitive <= (coq/Repro/StructSortProofs.v)",
           "the key functions passed to sort_fields(key=...) are the six of SORT_KEYS; each is transcribed by hand as a "
           "constructor of sortkey with its key type and Python's <= on it (str / int / bool) in coq/Repro/StructSort.v"]
ASSUMPTIONS = ["keys are ASCII (str.lower is modelled by ascii_lower); histories are judged up to the first non-ASCII key",
               "set values outside 'plain one-line value' and new names outside [A-Za-z0-9][A-Za-z0-9_-]* end the judged "
               "part of a history (they are C05's subject); the model is still compared on them",
               "a negative index (name, -k) may be refused (the no-duplicates class refuses every index but 0) or count "
               "from the end; (name, 0) for an absent name may add the field or be refused",
               "insert(i): the new paragraph may land anywhere between paragraph i-1 and paragraph i (the docstring leaves "
               "the side of free-floating comments open), i beyond the last paragraph = anywhere after it; negative i is "
               "outside the quantifier (the model reproduces what the code does with it)",
               "paragraphs that have lost all their fields have no text: a fresh parse shows the non-empty paragraphs",
               "a refused operation may already have supplied the missing final newline of the paragraph "
               "(_ensure_final_newline runs before the reference field is looked up)",
               "theorems assume every operation addresses an existing paragraph (ops_in_range)",
               "C10_insert_append_no_merge_partial: that the separators suffice for the real parser needs C01/C05's "
               "parse(dump) theorem; the no-merge condition itself is checked on every case through the fresh parse"]


# ---------------------------------------------------------------------------
# implementation driver

# sort_fields(key=...): name in the case -> (the Python key function passed, constructor of Repro/StructSort.v)
SORT_KEYS = {
    "default": (None, "KDefault"),                                       # sort_fields(): name.lower()
    "len": (len, "KLen"),
    "const": (lambda n: 0, "KConst"),                                    # everything ties
    "xlast": (lambda n: n.lower().startswith("x-"), "KXLast"),          # "X-" fields after the others
    "firstchar": (lambda n: n[:1].lower(), "KFirstChar"),
    "exact": (str, "KExact"),                                            # the name as spelled, case-sensitive
}
CUSTOM_KEYS = ["len", "const", "xlast", "firstchar", "exact"]


def apply_op(f, op):
    if op["o"] == "reappend":
        f.append(list(f)[op["p"]])
        return
    if op["o"] == "sort" and op.get("key", "default") != "default":
        list(f)[op["p"]].sort_fields(key=SORT_KEYS[op["key"]][0])
        return
    c05.apply_op(f, op)


def positions(p):
    """[[name, i, {"ok": position} | {"err": kind}]] for every name of the paragraph, i = -1, 0..count"""
    parts = list(p.iter_parts())
    seen = {}
    for kv in parts:
        n = str(kv.field_name)
        seen.setdefault(n.lower(), [n, 0])[1] += 1
    out = []
    for _, (n, c) in seen.items():
        for i in [-1] + list(range(c + 1)):
            try:
                e = p.get_kvpair_element((n, i))
                where = [j for j, x in enumerate(parts) if x is e]
                out.append([n, i, {"ok": where[0]} if where else {"err": "OtherError"}])
            except Exception as ex:
                out.append([n, i, {"err": err_kind(ex)}])
    return out


def extra_queries(p, op):
    out = []
    for kk in ("k", "r"):
        if kk in op:
            n = key_name(op[kk])
            for i in (0, 1):
                try:
                    parts = list(p.iter_parts())
                    e = p.get_kvpair_element((n, i))
                    where = [j for j, x in enumerate(parts) if x is e]
                    out.append([n, i, {"ok": where[0]} if where else {"err": "OtherError"}])
                except Exception as ex:
                    out.append([n, i, {"err": err_kind(ex)}])
    return out


def observe_step(f, op, last):
    err = None
    try:
        apply_op(f, op)
    except Exception as e:
        err = err_kind(e)
    try:
        dump = f.dump()
    except Exception as e:      # the document must always be printable: recorded, so that holds judges it
        dump = "\x00<dump() raised %s after this operation>" % err_kind(e)
    st = {"err": err, "dump": dump, "pos": []}
    everything = last or op["o"] in ("append", "insert", "reappend")
    for j, p in enumerate(f):
        if not everything and op.get("p") != j:
            continue
        q = positions(p)
        if op.get("p") == j:
            have = {(n.lower(), i) for n, i, _ in q}
            q += [x for x in extra_queries(p, op) if (x[0].lower(), x[1]) not in have]
        st["pos"].append([j, q])
    try:
        g = parse_doc(split_lines(dump))
        st["reparse"] = [[[str(kv.field_name), kv.convert_to_text()] for kv in p.iter_parts()] for p in g]
    except Exception:
        st["reparse"] = None
    return st


def run_impl(case):
    f = parse_doc(split_lines(case["text"]))
    obs = {"items": c05.abstract(f), "steps": []}
    for k, op in enumerate(case["ops"]):
        obs["steps"].append(observe_step(f, op, k + 1 == len(case["ops"])))
    return obs


# ---------------------------------------------------------------------------
# Coq emission

def cq_kvs(kvs, S):
    return cq_list(["(%s, %s)" % (S(k), S(v)) for k, v in kvs])


def cq_op(op, S):
    o = op["o"]
    if o == "first":
        return "LFirst %d %s" % (op["p"], cq_key(op["k"], S))
    if o == "last":
        return "LLast %d %s" % (op["p"], cq_key(op["k"], S))
    if o == "before":
        return "LBefore %d %s %s" % (op["p"], cq_key(op["k"], S), cq_key(op["r"], S))
    if o == "after":
        return "LAfter %d %s %s" % (op["p"], cq_key(op["k"], S), cq_key(op["r"], S))
    if o == "sort":
        return "LSort %d %s" % (op["p"], SORT_KEYS[op.get("key", "default")][1])
    if o == "set":
        return "LSet %d %s %s" % (op["p"], cq_key(op["k"], S), S(op["v"]))
    if o == "del":
        return "LDel %d %s" % (op["p"], cq_key(op["k"], S))
    if o == "append":
        return "LAppend %s" % cq_kvs(op["kv"], S)
    if o == "insert":
        return "LInsert (%d)%%Z %s" % (op["i"], cq_kvs(op["kv"], S))
    if o == "reappend":
        return "LReappend %d" % op["p"]
    raise AssertionError(o)


def cq_ans(r):
    return "(Ok %d)" % r["ok"] if "ok" in r else "(Err %s)" % r["err"]


def cq_z(i):
    return "%d%%Z" % i if i >= 0 else "(%d)%%Z" % i


def cq_item2(it, S):
    if it[0] == "P":
        return "IP %s %s" % (cq_bool(it[1]), cq_list(["FL %s %s %s" % (S(c), S(n), S(r)) for c, n, r in it[2]]))
    return cq_item(it, S)


def cq_step(st, S):
    rp = st["reparse"]
    rps = "None" if rp is None else "(Some %s)" % cq_list(
        [cq_list(["NT %s %s" % (S(n), S(t)) for n, t in para]) for para in rp])
    pos = cq_list(["PQ %d %s" % (j, cq_list(["Q %s %s %s" % (S(n), cq_z(i), cq_ans(r)) for n, i, r in para]))
                   for j, para in st["pos"]])
    return "mkS %s %s %s %s" % ("None" if st["err"] is None else "(Some %s)" % st["err"],
                                cq_pieces(st["dump"], S), rps, pos)


def emit(case, obs):
    I = Interner()
    _walk_strings([split_lines(case["text"]), [[v for k, v in op.items() if k != "o"] for op in case["ops"]],
                   obs["items"]], I.note)
    for st in obs["steps"]:
        _walk_strings([split_lines(st["dump"]), st["reparse"], [[n for n, _, _ in para] for _, para in st["pos"]]], I.note)
    I.finish()
    S = I.ref
    term = "Run %s %s %s %s" % (
        cq_pieces(case["text"], S), cq_list([cq_item2(it, S) for it in obs["items"]]),
        cq_list([cq_op(op, S) for op in case["ops"]]), cq_list([cq_step(st, S) for st in obs["steps"]]))
    return I.wrap(term)


# ---------------------------------------------------------------------------
# generator

SMALL_NAMES = ["A", "B", "C", "Dd", "e"]
VALUES = ["new", "n2", "", "1.0-1", "a b  c", "x # y", "#h", "é"]
ODD_VALUES = ["multi\n line2", " padded ", "bad\nnocont", "a\rb", "x\n"]
NEW_NAMES = ["N", "M", "Q", "New-Field", "x_y", "9lives"]
BAD_KEYS = ["", "A B", "#c", "A:B", "É", "a\nb"]


def gen_small_doc(rng):
    npar = rng.choice([1, 1, 2, 3])
    text = rng.choice(["", "", "\n", "# head\n\n"])
    names_pp = []
    for j in range(npar):
        k = rng.choice([1, 2, 3, 4])
        names = rng.sample(SMALL_NAMES, k)
        if rng.random() < 0.6:
            for _ in range(rng.randint(1, 2)):
                n = rng.choice(names)
                names.insert(rng.randint(0, len(names)), rng.choice([n, n.lower(), n.upper()]))
        for n in names:
            if rng.random() < 0.2:
                text += "# c\n"
            text += n + ":" + rng.choice([" ", " ", "", "\t"]) + rng.choice(["v", "w x", "1"]) + "%d\n" % rng.randint(0, 9)
            if rng.random() < 0.2:
                text += rng.choice([" cont\n", "# in\n more\n", "\tt\n"])
        names_pp.append(names)
        if j + 1 < npar:
            text += rng.choice(["\n", "\n\n", "\n# free\n\n", " \n"] + GLUED)
    r = rng.random()
    if r < 0.4:
        text = text[:-1]
    elif r < 0.5:
        text += rng.choice(["\n", "\n# end\n", "\n# end", " \n", "\n  ", "# glued end\n", "# glued end"])
    return text, names_pp


# what stands between two paragraphs: free comment lines glued to the end of the paragraph before (no blank
# line in front of them), glued to the start of the next (they become the comment of its first field), both,
# with blank / whitespace-only lines on either side or not
GLUED = ["# g\n\n", "# g1\n# g2\n\n", "# g\n \n", "# g\n\n\n", "# g\n\n# free\n\n", "\n# lead\n",
         "# g\n\n# lead\n", "\n# free\n\n# lead\n", "# g\n\n# free\n\n# lead\n", "\n\n# free\n\n"]


def gen_glued(rng):
    """2-4 paragraphs separated by the GLUED layouts x an insert at a middle index (every one in turn over
    the stream), surrounded by a few other operations"""
    npar = rng.choice([2, 2, 3, 4])
    text = rng.choice(["", "", "# head\n\n", "\n"])
    npp = []
    for j in range(npar):
        names = rng.sample(SMALL_NAMES, rng.choice([1, 2, 2, 3]))
        if rng.random() < 0.3:
            n = rng.choice(names)
            names.append(rng.choice([n, n.lower(), n.upper()]))
        for n in names:
            text += n + ": v%d\n" % rng.randint(0, 9)
            if rng.random() < 0.15:
                text += " cont\n"
        npp.append(names)
        if j + 1 < npar:
            text += rng.choice(GLUED) if rng.random() < 0.85 else "\n"
    r = rng.random()
    if r < 0.3:
        text = text[:-1]
    elif r < 0.45:
        text += rng.choice(["# glued end\n", "# glued end", "\n# end\n"])
    ops = []
    if rng.random() < 0.4:
        ops.append(gen_op(rng, npp))
    for _ in range(rng.choice([1, 1, 2])):
        i = rng.randint(1, len(npp) - 1)
        kv = gen_kvs(rng)
        npp.insert(i, [k for k, _ in kv])
        ops.append({"o": "insert", "i": i, "kv": kv})
    if rng.random() < 0.5:
        ops.append(gen_op(rng, npp))
    return {"text": text, "ops": ops}


def gen_key(rng, names):
    r = rng.random()
    if r < 0.03:
        return rng.choice(BAD_KEYS)
    n = rng.choice(list(names)) if names and r < 0.92 else "Zz"
    c = sum(1 for m in names if m.lower() == n.lower())
    n = rng.choice([n, n, n.lower(), n.upper(), n.swapcase()])
    r2 = rng.random()
    if r2 < 0.45:
        return n
    r3 = rng.random()
    if c and r3 < 0.7:
        return [n, rng.randrange(c)]
    if c and r3 < 0.8:
        return [n, -rng.randint(1, c)]
    return [n, rng.choice([0, 1, 2, 3, -1, -2, c, -c - 1])]


def gen_kvs(rng):
    kv = [[rng.choice(NEW_NAMES + ["A"]), rng.choice(VALUES)]]
    if rng.random() < 0.4:
        kv.append([rng.choice(NEW_NAMES), rng.choice(VALUES)])
    if rng.random() < 0.1:
        kv.append([kv[0][0].lower(), "again"])
    if rng.random() < 0.03:
        kv.append(["W", rng.choice(ODD_VALUES)])
    return kv


def gen_op(rng, npp):
    r = rng.random()
    if r < 0.14 or not npp:
        kv = gen_kvs(rng)
        if rng.random() < 0.5:
            npp.append([k for k, _ in kv])
            return {"o": "append", "kv": kv}
        i = rng.randint(0, len(npp) + 1) if rng.random() < 0.95 else rng.choice([-1, -2])
        npp.insert(min(max(i, 0), len(npp)), [k for k, _ in kv])
        return {"o": "insert", "i": i, "kv": kv}
    if r < 0.16:
        return {"o": "reappend", "p": rng.randrange(len(npp))}
    j = rng.randrange(len(npp))
    names = npp[j] or ["A"]
    o = rng.choice(["first", "last", "before", "after", "first", "last", "before", "after", "sort", "set", "set", "del"])
    op = {"o": o, "p": j}
    if o == "sort" and rng.random() < 0.5:
        op["key"] = rng.choice(CUSTOM_KEYS)
    if o != "sort":
        op["k"] = gen_key(rng, names)
    if o in ("before", "after"):
        op["r"] = gen_key(rng, names)
    if o == "set":
        op["v"] = rng.choice(VALUES) if rng.random() < 0.93 else rng.choice(ODD_VALUES)
        if rng.random() < 0.3:
            n = rng.choice(NEW_NAMES)
            op["k"] = n if rng.random() < 0.8 else [n, rng.choice([0, 0, 1, -1])]
            if isinstance(op["k"], str) or op["k"][1] == 0:
                npp[j] = names + [n]
    if o == "del" and isinstance(op["k"], str):
        npp[j] = [m for m in names if m.lower() != op["k"].lower()]
    return op


def gen_empty_tail(rng):
    """a paragraph loses all its fields, then paragraphs are appended / inserted and the emptied one is refilled"""
    names = rng.sample(SMALL_NAMES, rng.choice([1, 1, 2]))
    text = rng.choice(["", "# head\n\n", "X: 1\n\n"])
    npar_before = 1 if text.startswith("X") else 0
    for n in names:
        text += n + ": v\n"
    if rng.random() < 0.4:
        text = text[:-1]
    ops = [{"o": "del", "p": npar_before, "k": n} for n in names]
    ops.append(rng.choice([{"o": "append", "kv": [["N", "x"]]},
                           {"o": "insert", "i": npar_before + 1, "kv": [["N", "x"]]},
                           {"o": "insert", "i": 0, "kv": [["N", "x"]]}]))
    j = npar_before + (1 if ops[-1].get("i") == 0 else 0)
    ops.append(rng.choice([{"o": "set", "p": j, "k": "A", "v": "b"}, {"o": "sort", "p": j},
                           {"o": "first", "p": j, "k": "A"}]))
    if rng.random() < 0.5:
        ops.append({"o": "append", "kv": [["M", "y"]]})
    return {"text": text, "ops": ops}


def gen_insert_history(rng):
    """3-8 append/insert operations in a row on a small document (any index order: front, middle, end, repeated),
    optionally followed by an edit of one of the paragraphs: the list of paragraphs must follow the list model at
    every step whatever was inserted before."""
    text, npp = gen_small_doc(rng)
    npp = [list(x) for x in npp]
    ops = []
    for _ in range(rng.choice([3, 3, 4, 4, 5, 6, 8])):
        kv = [[rng.choice(NEW_NAMES + ["A"]), rng.choice(VALUES)]]
        r = rng.random()
        if r < 0.15:
            npp.append([k for k, _ in kv])
            ops.append({"o": "append", "kv": kv})
            continue
        i = 0 if r < 0.45 else rng.randint(1, len(npp)) if r < 0.9 else len(npp) + 1
        npp.insert(min(i, len(npp)), [k for k, _ in kv])
        ops.append({"o": "insert", "i": i, "kv": kv})
    if rng.random() < 0.4:
        ops.append(gen_op(rng, npp))
    return {"text": text, "ops": ops}


# names that tie with one another under the custom sort keys: equal lengths (A/B/e, Ab/ab/a1/Zz/XY,
# X-Foo/x-bar, Depends/Package/Section), equal first characters (Source/Section, Package/Pre-Depends,
# A/Ab/ab/a1, X-Foo/x-bar/X-B/XY), with and without the "X-" prefix, case variants
SORT_NAMES = ["Source", "Depends", "Homepage", "Package", "Section", "Pre-Depends", "X-Foo", "x-bar", "X-B", "XY",
              "A", "B", "e", "Ab", "ab", "a1", "Zz"]


def gen_sort_doc(rng):
    """1-2 paragraphs over SORT_NAMES, most of them with a field repeated 2-3 times (same or another case
    spelling) whose occurrences are interleaved with the other fields; every field has its own value"""
    npar = rng.choice([1, 1, 1, 2])
    text = rng.choice(["", "", "", "# head\n\n"])
    npp = []
    v = 0
    for j in range(npar):
        names = rng.sample(SORT_NAMES, rng.choice([2, 3, 3, 4, 5, 6]))
        if rng.random() < 0.75:
            for _ in range(rng.choice([1, 1, 2])):
                n = rng.choice(names)
                for _ in range(rng.choice([1, 1, 2])):
                    names.insert(rng.randint(0, len(names)), rng.choice([n, n, n.lower(), n.upper(), n.swapcase()]))
        for n in names:
            if rng.random() < 0.15:
                text += "# c%d\n" % v
            text += "%s: v%d\n" % (n, v)
            if rng.random() < 0.15:
                text += rng.choice([" cont\n", "# in\n more\n"])
            v += 1
        npp.append(names)
        if j + 1 < npar:
            text += rng.choice(["\n", "\n", "\n# free\n\n"])
    if rng.random() < 0.35:
        text = text[:-1]
    return text, npp


def gen_sort_case(rng):
    """sort_fields with a custom key on a document whose names tie under it (own small documents, or c05's
    duplicate-fields documents), sometimes after / before other operations on the same paragraph (the name
    index must follow the new order: indexed keys afterwards)"""
    if rng.random() < 0.6:
        text, npp = gen_sort_doc(rng)
    else:
        text, npp = c05.gen_doc(rng, dups=rng.random() < 0.8)
    npp = [list(x) for x in npp]
    ops = []
    if rng.random() < 0.25:
        ops.append(gen_op(rng, npp))
    j = rng.randrange(len(npp))
    ops.append({"o": "sort", "p": j, "key": rng.choice(CUSTOM_KEYS)})
    r = rng.random()
    if r < 0.2:
        ops.append({"o": "sort", "p": j, "key": rng.choice(CUSTOM_KEYS + ["default"])})
    elif r < 0.45 and npp[j]:
        n = rng.choice(npp[j])
        c = sum(1 for m in npp[j] if m.lower() == n.lower())
        o = rng.choice(["first", "last", "del", "set"])
        op = {"o": o, "p": j, "k": [n, rng.randrange(c)] if rng.random() < 0.8 else n}
        if o == "set":
            op["v"] = rng.choice(VALUES)
        ops.append(op)
    return {"text": text, "ops": ops}


def generate(rng, n, tier):
    for t in range(n):
        r = rng.random()
        if r < 0.02:
            yield gen_empty_tail(rng)
            continue
        if r >= 0.86:
            yield gen_sort_case(rng)
            continue
        if r < 0.10:
            yield gen_insert_history(rng)
            continue
        if r < 0.18:
            yield gen_glued(rng)
            continue
        if r < 0.58:
            text, npp = gen_small_doc(rng)
        else:
            text, npp = c05.gen_doc(rng, dups=rng.random() < 0.5)
        npp = [list(x) for x in npp]
        ops = [gen_op(rng, npp) for _ in range(rng.choice([1, 2, 2, 3, 4, 6]))]
        yield {"text": text, "ops": ops}


def from_json(j):
    return j


def classify(case, obs):
    kinds = []
    prev = case["text"]
    for op, st in zip(case["ops"], obs["steps"]):
        k = op["o"]
        if k == "sort" and op.get("key", "default") != "default":
            k += "-" + op["key"]
        if any(not isinstance(op.get(x, ""), str) for x in ("k", "r")):
            k += "-idx"
        k += ":" + (st["err"] or ("same" if st["dump"] == prev else "ok"))
        prev = st["dump"]
        kinds.append(k)
    first = kinds[0] if kinds else "none"
    return "%s/%s/%s" % ("dup" if any(it[0] == "P" and it[1] for it in obs["items"]) else "nodup",
                         "nl" if case["text"].endswith("\n") else "nonl", first)


def nontrivial(case, obs):
    prev = case["text"]
    for st in obs["steps"]:
        if st["err"] is None and st["dump"] != prev:
            return True
        prev = st["dump"]
    return False


def _fits(text, ops):
    """every paragraph index of the history exists when it is used"""
    try:
        f = parse_doc(split_lines(text))
    except Exception:
        return False
    n = len(list(f))
    for op in ops:
        if "p" in op and op["p"] >= n:
            return False
        if op["o"] in ("append", "insert"):
            n += 1
    return True


def shrink(case):
    ops = case["ops"]
    text = case["text"]
    for i in range(len(ops)):
        o2 = ops[:i] + ops[i + 1:]
        if _fits(text, o2):
            yield dict(case, ops=o2)
    if len(ops) > 1 and _fits(text, ops[-1:]):
        yield dict(case, ops=ops[-1:])
    lines = split_lines(text)
    for i in range(len(lines)):
        t = "".join(lines[:i] + lines[i + 1:])
        if t and _fits(t, ops):
            yield dict(case, text=t)
    for i, op in enumerate(ops):
        for kk in ("k", "r"):
            if kk in op and not isinstance(op[kk], str):
                yield dict(case, ops=ops[:i] + [dict(op, **{kk: op[kk][0]})] + ops[i + 1:])
        if op["o"] in ("append", "insert") and len(op["kv"]) > 1:
            yield dict(case, ops=ops[:i] + [dict(op, kv=op["kv"][:1])] + ops[i + 1:])
        if op["o"] == "insert":
            yield dict(case, ops=ops[:i] + [{"o": "append", "kv": op["kv"]}] + ops[i + 1:])
        if op["o"] == "sort" and op.get("key", "default") not in ("default", "const"):
            yield dict(case, ops=ops[:i] + [dict(op, key="const")] + ops[i + 1:])
    for i, l in enumerate(lines):
        if len(l) > 4 and not l.startswith(("#", " ", "\t")) and ":" in l:
            name, _, rest = l.partition(":")
            short = name + ": v%d" % i + ("\n" if l.endswith("\n") else "")
            if short != l:
                t = "".join(lines[:i] + [short] + lines[i + 1:])
                if _fits(t, ops):
                    yield dict(case, text=t)


def describe(case, obs):
    return {"call": "f = parse_deb822_file(text); per op: p = list(f)[op.p]; first/last: p.order_first/last(k) | "
                    "before/after: p.order_before/after(k, r) | sort: p.sort_fields() or, with op.key, p.sort_fields(key=F): "
                    "len -> len, const -> lambda n: 0, xlast -> lambda n: n.lower().startswith('x-'), firstchar -> "
                    "lambda n: n[:1].lower(), exact -> str | set: p[k] = v | del: del p[k] | "
                    "append/insert: f.append/insert(i, paragraph built by new_empty_paragraph() and p[k] = v) | "
                    "reappend: f.append(list(f)[p]); keys written [name, i] are the tuples (name, i)",
            "text": case["text"], "ops": case["ops"],
            "dumps": [st["dump"] for st in obs.get("steps", [])],
            "errors": [st["err"] for st in obs.get("steps", [])],
            "reparse_after_each_op": [st["reparse"] for st in obs.get("steps", [])],
            "positions_after_each_op": [st["pos"] for st in obs.get("steps", [])],
            "specified": "every dump = concatenation of the field texts of the reference list after the same list "
                         "operation (whole fields moved/removed/replaced, moved duplicates keep their order; "
                         "sort_fields(key=...) is the stable sort by that key: fields whose keys tie keep their relative "
                         "order, occurrences of a repeated field stay interleaved with the tying fields of other names; only a "
                         "missing final newline may be supplied); a fresh parse of the dump shows the reference's "
                         "non-empty paragraphs field by field; get_kvpair_element((name, i)) is the i-th field of "
                         "that name in document order; refused operations leave the dump unchanged (up to that newline)"}


# ---------------------------------------------------------------------------
# TIE BY REGENERATION (harness/py2coq.py, METHOD + HEAP MODE): the ORDERING methods of the two paragraph classes are
# regenerated from the working tree on every run.  They are built on debian/_util.py's OrderedSet / LinkedList, which C09
# already regenerates (coq/Gen/TrLinkedList.v): nothing of that is translated again — the OrderedSet held in
# self._kvpair_order is the record of its attributes and its methods are C09's regenerated functions run on (heap, record)
# (coq/Repro/StructTrPrims.v: os_run).  A key-value pair element is a reference into a store of the model's fields; the
# only things the methods do with one are field_name and value_element.add_final_newline_if_missing() (the model's f_name /
# add_nl).  coq/Repro/StructTie.v proves, for every state that REPRESENTS a list of fields (the linked structure holds the
# field names in order, the dict maps each lowered name to its element, the store maps each element to its field), that
# the regenerated method ends in a state that represents the result of the model function that `agree` runs (Struct.nd_*)
# with the same exception kind — a refinement; statements in coq/Props/C10Tie.v.
from harness import extract            # noqa: E402
from harness import py2coq as _P       # noqa: E402

_T_HEAP = ("coq", "heap")
_T_KV = ("ref", "Deb822KeyValuePairElement")
_T_VE = ("coq", "velem")
_T_KVS = ("coq", "kvstore")
_T_KVD = ("coq", "kvdict")
_T_OS = ("coq", "osobj")
_T_KEY = ("coq", "trp_key")
_T_SK = ("coq", "trp_sortkey")
_T_STRI = ("coq", "stri")
_T_ANY = ("coq", "trp_any")
_T_TOK = ("coq", "nametoken")
_T_LOW = [("lower", ("coq", "(str -> str)"))]
_T_UNPACKED = ("tuple", _T_STRI, ("option", "Z"), ("option", _T_TOK))
# state of a Deb822NoDuplicateFieldsParagraphElement: the heap of list nodes, the store of pair elements, the two attributes
_ND_S = [("<heap>", "hp", _T_HEAP), ("<kvpair elements>", "kvs", _T_KVS),
         ("self._kvpair_elements", "s_kv", _T_KVD), ("self._kvpair_order", "s_order", _T_OS)]
_ND_G = _T_LOW + [(v, t) for _, v, t in _ND_S]
_ND_V = [v for _, v, _ in _ND_S]
_ND_GV = "lower hp kvs s_kv s_order"
_ND = "Deb822NoDuplicateFieldsParagraphElement."


def _t_sub(coq, args, ret, sub):
    c = _P.Call(coq, args, ret)
    c.substate = list(sub)
    return c


def _t_kw(call, names):
    call.kw = list(names)
    return call


def _nd_w(coq, qual, params, ret, **kw):      # methods that change the paragraph
    return _P.Fun(coq, qual, params, ret, skip_first=True, state=_ND_S, ghost=_T_LOW, **kw)


def _nd_r(coq, qual, params, ret, **kw):      # methods that only read it
    return _P.Fun(coq, qual, params, ret, skip_first=True, ghost=_ND_G, **kw)


_nd_sort = _nd_w("tr_nd_sort_fields", _ND + "sort_fields", [("key", ("option", _T_SK))], "unit",
                 locals={"last_field_name": _T_STRI, "last_kvpair": _T_KV})
_nd_sort.narrow = True                  # `if key is None: key = default_field_sort_key`: a key function afterwards
_nd_remove = _nd_w("tr_nd_remove_kvpair_element", _ND + "remove_kvpair_element", [("key", _T_KEY)], "unit",
                   locals={"_": _T_ANY})
_nd_remove.retype = {"key": [_T_STRI]}  # `key, _, _ = _unpack_key(key, ..)`: a ParagraphKey, then a _strI

_T_CASTS = [_P.Call("", [("literal", "'Deb822KeyValuePairElement'", ""), _T_KV], _T_KV),
            _P.Call("", [("literal", "'_strI'", ""), _T_STRI], _T_STRI),
            _P.Call("", [("literal", "'ParagraphKey'", ""), _T_KEY], _T_KEY),
            _P.Call("", [("literal", "'Iterable[_strI]'", ""), _T_OS], _T_OS)]
_T_KVCLASS = _P.HeapClass(
    "kvelem", fields={},
    props={"field_name": (_P.Call("trp_kv_field_name kvs", [_T_KV], _T_STRI, True), None),
           "value_element": (_P.Call("trp_kv_value_element", [_T_KV], _T_VE, True), None)})
_T_COERCIONS = [(("option", "Z"), _T_ANY, "(trp_drop %s)"), (("option", _T_TOK), _T_ANY, "(trp_drop %s)"),
                (_T_STRI, "str", "%s")]

TR_MODULE = _P.Module(
    "TrStruct", "lib/debian/_deb822_repro/parsing.py",
    funs=[
        _nd_r("tr_nd_iter_parts", _ND + "iter_parts", [], _T_KV, generator=True),
        _nd_w("tr_nd_ensure_final_newline", "Deb822ParagraphElement._ensure_final_newline", [], "unit",
              locals={"last_kvpair": ("option", _T_KV)}),
        _nd_r("tr_nd_kvpair_count", _ND + "kvpair_count", [], "Z"),
        _nd_w("tr_nd_order_last", _ND + "order_last", [("field", _T_KEY)], "unit",
              locals={"unpacked_field": _T_STRI, "_": _T_ANY}),
        _nd_w("tr_nd_order_first", _ND + "order_first", [("field", _T_KEY)], "unit",
              locals={"unpacked_field": _T_STRI, "_": _T_ANY}),
        _nd_w("tr_nd_order_before", _ND + "order_before", [("field", _T_KEY), ("reference_field", _T_KEY)], "unit",
              locals={"unpacked_field": _T_STRI, "unpacked_ref_field": _T_STRI, "_": _T_ANY}),
        _nd_w("tr_nd_order_after", _ND + "order_after", [("field", _T_KEY), ("reference_field", _T_KEY)], "unit",
              locals={"unpacked_field": _T_STRI, "unpacked_ref_field": _T_STRI, "_": _T_ANY}),
        _nd_r("tr_nd_iter_keys", _ND + "iter_keys", [], "str", generator=True),
        _nd_remove,
        _nd_r("tr_nd_contains_kvpair_element", _ND + "contains_kvpair_element", [("item", _T_KEY)], "bool",
              locals={"key": _T_STRI, "_": _T_ANY}),
        _nd_sort,
    ],
    calls={
        "_unpack_key": _t_kw(_P.Call("trp_unpack_key", [_T_KEY, "bool"], _T_UNPACKED, True), [None, "raise_if_indexed"]),
        "isinstance": _P.Call("trp_is_paragraph_key", [_T_KEY, ("literal", "(str, tuple, Deb822FieldNameToken)", "")], "bool"),
        "cast": _T_CASTS,
        "str": _P.Call("trp_str", [_T_STRI], "str"),
        "len": _P.Call("trp_kvd_len", [_T_KVD], "Z"),
        "reversed": _P.Call("trp_os_reversed lower hp", [_T_OS], ("list", _T_STRI), True),
        "sorted": _t_kw(_P.Call("trp_sorted_os lower hp", [_T_OS, _T_SK], ("list", _T_STRI), True), [None, "key"]),
        "OrderedSet": _t_sub("trp_os_new lower", [("list", _T_STRI)], _T_OS, ["hp"]),
        "self.iter_parts": _P.Call("tr_nd_iter_parts " + _ND_GV, [], ("list", _T_KV), True),
        "self._ensure_final_newline": _t_sub("tr_nd_ensure_final_newline", [], "unit", _ND_V),
        "self._kvpair_order.order_last": _t_sub("trp_os_order_last lower", [_T_STRI], "unit", ["hp", "s_order"]),
        "self._kvpair_order.order_first": _t_sub("trp_os_order_first lower", [_T_STRI], "unit", ["hp", "s_order"]),
        "self._kvpair_order.order_before": _t_sub("trp_os_order_before lower", [_T_STRI, _T_STRI], "unit", ["hp", "s_order"]),
        "self._kvpair_order.order_after": _t_sub("trp_os_order_after lower", [_T_STRI, _T_STRI], "unit", ["hp", "s_order"]),
        "self._kvpair_order.remove": _t_sub("trp_os_remove lower", [_T_STRI], "unit", ["hp", "s_order"]),
        "<osobj>.__iter__": _P.Call("trp_os_iter lower hp", [_T_OS], ("list", _T_STRI), True),
        "<kvdict>.__getitem__": _P.Call("trp_kvd_get lower", [_T_KVD, _T_STRI], _T_KV, True),
        "<kvdict>.__contains__": _P.Call("trp_kvd_mem lower", [_T_KVD, _T_STRI], "bool"),
        "<kvdict>.__delitem__": _P.Call("trp_kvd_del lower", [_T_KVD, _T_STRI], "unit", True, mutates=True),
        "<velem>.add_final_newline_if_missing": _t_sub("trp_ve_add_final_newline", [_T_VE], "unit", ["kvs"]),
    },
    consts={"self._kvpair_elements": ("s_kv", _T_KVD), "self._kvpair_order": ("s_order", _T_OS),
            "default_field_sort_key": ("trp_KDefault", _T_SK)},
    imports=["Dict.Common", "Dict.Heap", "Dict.TrPrims", "Repro.StructTrPrims"])
TR_MODULE.heap = _P.Heap("hp", _T_HEAP, {"Deb822KeyValuePairElement": _T_KVCLASS})
TR_MODULE.coercions = _T_COERCIONS


# Code that the primitives of coq/Repro/StructTrPrims.v stand for and that the translator does not see, asserted as source
# text (sha256 of ast.unparse, 16 hex digits): a change fails the translation closed.
_T_ASSERTED = {
    "lib/debian/_util.py": {
        "OrderedSet.__init__": "6f1ea51042f76c15",              # trp_os_new: the loop of extend on an empty set
        "OrderedSet.__reversed__": "0c2ed6b2206eabf5",          # trp_os_reversed: __iter__ in the opposite order
        "LinkedList.__reversed__": "074912c392c70ceb",
        "LinkedListNode.iter_previous": "2360658220a87cde",
        "default_field_sort_key": "1daf93c0b51e00ac"},          # trp_KDefault: x.lower()
    "lib/debian/_deb822_repro/parsing.py": {
        "_unpack_key": "c174592769564ae6",                      # trp_unpack_key: the model's unpack_key
        "Deb822ValueElement.add_final_newline_if_missing": "deb06d2543d50f65",     # trp_ve_add_final_newline: add_nl
        "Deb822ValueLineElement.add_newline_if_missing": "21cc8e1b64a3f5b4",
        "Deb822KeyValuePairElement.field_name": "6e9d2ed2ebf8ab71",               # trp_kv_field_name: f_name
        "Deb822KeyValuePairElement.value_element@getter": "e639f7b7c8edd2cf"}}


def _t_assert_sources(repo, table=None):
    import ast
    import hashlib
    for rel, defs in (table or _T_ASSERTED).items():
        tree = extract._parse(repo, rel)
        for qual, sha in defs.items():
            got = hashlib.sha256(ast.unparse(_P.find_def(tree, qual)).encode()).hexdigest()[:16]
            if got != sha:
                raise extract.ExtractError("%s (%s) changed: a primitive of coq/Repro/StructTrPrims.v models the "
                                           "previous text" % (qual, rel))


@extract.register("TrStruct")
def _gen_tr(repo):
    _t_assert_sources(repo)
    return _P.translate_module(repo, TR_MODULE)


# --- Deb822DuplicateFieldsParagraphElement (coq/Gen/TrStructDup.v).  self._kvpair_order is a LinkedList whose node values are the
# pair elements: the record of its attributes, its methods C09's regenerated LinkedList functions run on (heap, record)
# (StructTrPrims.v: ll_run).  The Python lists of nodes (the values of self._kvpair_elements, `nodes`, `nodes_being_relocated`) are
# changed in place under several names (the list stored in the dict is handed out by _nodes_being_relocated and changed by its
# callers): they are references into a store of lists, threaded as hidden state; `[]` / `[node]` allocate.
_T_REF = ("ref", "LinkedListNode")
_T_OREF = ("option", _T_REF)
_T_LL = ("coq", "llobj")
_T_NL = ("coq", "nlref")
_T_NLS = ("coq", "nlstore")
_T_KVDD = ("coq", "kvdd")
_D_S = [("<heap>", "hp", _T_HEAP), ("<kvpair elements>", "kvs", _T_KVS), ("<node lists>", "nls", _T_NLS),
        ("self._kvpair_elements", "s_kv", _T_KVDD), ("self._kvpair_order", "s_ll", _T_LL)]
_D_G = _T_LOW + [(v, t) for _, v, t in _D_S]
_D_V = [v for _, v, _ in _D_S]
_D_GV = "lower hp kvs nls s_kv s_ll"
_DD = "Deb822DuplicateFieldsParagraphElement."
_T_NLPAIR = ("tuple", _T_NL, _T_NL)


def _d_w(coq, qual, params, ret, **kw):      # methods that change the paragraph (or allocate)
    return _P.Fun(coq, qual, params, ret, skip_first=True, state=_D_S, ghost=_T_LOW, **kw)


def _d_r(coq, qual, params, ret, **kw):      # methods that only read it
    return _P.Fun(coq, qual, params, ret, skip_first=True, ghost=_D_G, **kw)


_D_ORD_LOCALS = {"nodes": _T_NL, "nodes_being_relocated": _T_NL, "kvpair_order": _T_LL, "node": _T_REF,
                 "single_node": _T_REF, "_": _T_NL, "reference_nodes": _T_NL, "reference_node": _T_REF,
                 "field_name": _T_STRI}


def _d_ord(coq, name, params):
    f = _d_w(coq, _DD + name, params, "unit", locals=dict(_D_ORD_LOCALS))
    f.alias_state = {"kvpair_order": "self._kvpair_order"}      # `kvpair_order = self._kvpair_order`: a second name of the list
    return f


# _resolve_to_single_node only reads (the list objects are a ghost parameter); use_get keeps its default (False)
_d_resolve = _P.Fun("tr_d_resolve_to_single_node", _DD + "_resolve_to_single_node",
                    [("nodes", _T_NL), ("key", _T_STRI), ("index", ("option", "Z")), ("name_token", ("option", _T_TOK))],
                    _T_OREF, skip_first=True, ghost=[("nls", _T_NLS)],
                    locals={"node": _T_OREF, "msg": "str", "use_get": "bool"})
_d_resolve.narrow = True
_d_resolve.calls = {
    "len": _P.Call("trp_nl_len_total nls", [_T_NL], "Z"),
    "self._find_node_via_name_token": _P.Call("trp_find_node_via_name_token", [_T_TOK, _T_NL], _T_OREF),
    "<str>.format": [_t_kw(_P.Call("trp_fmt3", ["str", _T_STRI, "Z", "Z"], "str"), [None, "key", "res_len", "res_len_1"]),
                     _t_kw(_P.Call("trp_fmt2", ["str", _T_STRI, "Z"], "str"), [None, "key", "index"])]}

_d_sort = _d_w("tr_d_sort_fields", _DD + "sort_fields", [("key", ("option", _T_SK))], "unit",
               locals={"key_impl": _T_SK, "last_kvpair": _T_KV, "sorted_kvpair_list": ("list", _T_KV)})
_d_sort.narrow = True

TR_MODULE_DUP = _P.Module(
    "TrStructDup", "lib/debian/_deb822_repro/parsing.py",
    funs=[
        _d_r("tr_d_iter_parts", _DD + "iter_parts", [], _T_KV, generator=True),
        _d_w("tr_d_ensure_final_newline", "Deb822ParagraphElement._ensure_final_newline", [], "unit",
             locals={"last_kvpair": ("option", _T_KV)}),
        _d_r("tr_d_kvpair_count", _DD + "kvpair_count", [], "Z"),
        _d_r("tr_d_iter_keys", _DD + "iter_keys", [], _T_STRI, generator=True),
        _d_w("tr_d_init_kvpair_fields", _DD + "_init_kvpair_fields", [("kvpairs", ("list", _T_KV))], "unit",
             locals={"kv": _T_KV, "field_name": _T_STRI, "node": _T_REF}),
        _d_resolve,
        _d_w("tr_d_nodes_being_relocated", _DD + "_nodes_being_relocated", [("field", _T_KEY)], _T_NLPAIR,
             locals={"key": _T_STRI, "index": ("option", "Z"), "name_token": ("option", _T_TOK), "nodes": _T_NL,
                     "nodes_being_relocated": _T_NL, "single_node": _T_OREF}),
        _d_w("tr_d_regenerate", _DD + "_regenerate_relative_kvapir_order", [("field_name", _T_STRI)], "unit",
             locals={"nodes": _T_NL, "node": _T_REF}),
        _d_ord("tr_d_order_last", "order_last", [("field", _T_KEY)]),
        _d_ord("tr_d_order_first", "order_first", [("field", _T_KEY)]),
        _d_ord("tr_d_order_before", "order_before", [("field", _T_KEY), ("reference_field", _T_KEY)]),
        _d_ord("tr_d_order_after", "order_after", [("field", _T_KEY), ("reference_field", _T_KEY)]),
        _d_sort,
    ],
    calls={
        "_unpack_key": _P.Call("(fun k_ => trp_unpack_key k_ false)", [_T_KEY], _T_UNPACKED, True),   # raise_if_indexed=False
        "cast": _T_CASTS,
        "len": [_P.Call("trp_ll_len", [_T_LL], "Z"), _P.Call("trp_nl_len nls", [_T_NL], "Z", True)],
        "reversed": [_P.Call("trp_ll_reversed hp", [_T_LL], ("list", _T_KV), True),
                     _P.Call("trp_nl_reversed nls", [_T_NL], ("list", _T_REF), True)],
        # sorted(self._kvpair_order, key=_actual_key), _actual_key(kvpair) = key_impl(kvpair.field_name) (text asserted below)
        "sorted": _t_kw(_P.Call("trp_sorted_ll hp kvs", [_T_LL, ("literal", "_actual_key", "key_impl")], ("list", _T_KV), True),
                        [None, "key"]),
        "_actual_key": _P.Call("trp_not_called", [], "unit"),       # the nested helper: only named, as the key of sorted()
        "LinkedList": _P.Call("trp_ll_new", [], _T_LL),
        "self.iter_parts": _P.Call("tr_d_iter_parts " + _D_GV, [], ("list", _T_KV), True),
        "self._ensure_final_newline": _t_sub("tr_d_ensure_final_newline", [], "unit", _D_V),
        "self._nodes_being_relocated": _t_sub("tr_d_nodes_being_relocated", [_T_KEY], _T_NLPAIR, _D_V),
        "self._regenerate_relative_kvapir_order": _t_sub("tr_d_regenerate", [_T_STRI], "unit", _D_V),
        "self._init_kvpair_fields": _t_sub("tr_d_init_kvpair_fields", [("list", _T_KV)], "unit", _D_V),
        "self._resolve_to_single_node": _P.Call("tr_d_resolve_to_single_node nls",
                                                [_T_NL, _T_STRI, ("option", "Z"), ("option", _T_TOK)], _T_OREF, True),
        "self._kvpair_order.remove_node": _t_sub("trp_ll_remove_node", [_T_REF], "unit", ["hp", "s_ll"]),
        "self._kvpair_order.insert_node_after": _t_sub("trp_ll_insert_node_after", [_T_REF, _T_REF], _T_REF, ["hp", "s_ll"]),
        "self._kvpair_order.insert_node_before": _t_sub("trp_ll_insert_node_before", [_T_REF, _T_REF], _T_REF, ["hp", "s_ll"]),
        "self._kvpair_order.append": _t_sub("trp_ll_append", [_T_KV], _T_REF, ["hp", "s_ll"]),
        "self._kvpair_order.iter_nodes": _P.Call("trp_ll_iter_nodes hp s_ll", [], ("list", _T_REF), True),
        "<llobj>.__iter__": _P.Call("trp_ll_iter hp", [_T_LL], ("list", _T_KV), True),
        "<llobj>.__bool__": _P.Call("trp_ll_bool", [_T_LL], "bool"),
        "<llobj>.@tail_node": _P.Call("trp_ll_tail", [_T_LL], _T_OREF),
        "<llobj>.@head_node": _P.Call("trp_ll_head", [_T_LL], _T_OREF),
        "<kvdd>.__getitem__": _P.Call("trp_kvdd_get lower", [_T_KVDD, _T_STRI], _T_NL, True),
        "<kvdd>.__contains__": _P.Call("trp_kvdd_mem lower", [_T_KVDD, _T_STRI], "bool"),
        "<kvdd>.__setitem__": _P.Call("trp_kvdd_set lower", [_T_KVDD, _T_STRI, _T_NL], "unit", mutates=True),
        "<kvdd>.__bool__": _P.Call("trp_kvdd_bool", [_T_KVDD], "bool"),
        "<nlref>.[]": _t_sub("trp_nl_new", [("list", _T_REF)], _T_NL, ["nls"]),
        "<nlref>.append": _t_sub("trp_nl_append", [_T_NL, _T_REF], "unit", ["nls"]),
        "<nlref>.remove": _t_sub("trp_nl_remove", [_T_NL, _T_REF], "unit", ["nls"]),
        "<nlref>.insert": _t_sub("trp_nl_insert0", [_T_NL, ("literal", "0", ""), _T_REF], "unit", ["nls"]),
        "<nlref>.__getitem__": _P.Call("trp_nl_getitem nls", [_T_NL, "Z"], _T_REF, True),
        "<nlref>.__iter__": _P.Call("trp_nl_iter nls", [_T_NL], ("list", _T_REF), True),
        "in nodes_being_relocated": _P.Call("trp_nl_mem nls nodes_being_relocated", [_T_REF], "bool", True),
        "<stri>.__eq__": _P.Call("trp_stri_eqb lower", [_T_STRI, _T_STRI], "bool"),
        "<velem>.add_final_newline_if_missing": _t_sub("trp_ve_add_final_newline", [_T_VE], "unit", ["kvs"]),
    },
    consts={"self._kvpair_elements": ("s_kv", _T_KVDD), "self._kvpair_order": ("s_ll", _T_LL),
            "default_field_sort_key": ("trp_KDefault", _T_SK), "{}": ("trp_kvdd_empty", _T_KVDD)},
    imports=["Dict.Common", "Dict.Heap", "Dict.TrPrims", "Repro.StructTrPrims"])
TR_MODULE_DUP.heap = _P.Heap("hp", _T_HEAP, {
    "Deb822KeyValuePairElement": _T_KVCLASS,
    "LinkedListNode": _P.HeapClass("id", fields={"value": (_T_KV, "trp_get_value", "trp_set_value")},
                                   eqb="Pos.eqb", opt_eqb="oid_eqb")},
    assume="trp_assume_some")
TR_MODULE_DUP.coercions = _T_COERCIONS
_T_ASSERTED_DUP = {"lib/debian/_deb822_repro/parsing.py": {
    _DD + "sort_fields._actual_key": "72280d00256c9c3a"}}           # trp_sorted_ll: key_impl(kvpair.field_name)


@extract.register("TrStructDup")
def _gen_tr_dup(repo):
    _t_assert_sources(repo)
    _t_assert_sources(repo, _T_ASSERTED_DUP)
    return _P.translate_module(repo, TR_MODULE_DUP)


# --- Deb822FileElement.append / insert / _set_parent (coq/Gen/TrStructFile.v).  self._token_and_elements is a LinkedList of the
# top-level tokens and elements (record + C09's regenerated functions, as above); a token / element is a reference into a store
# of the model's items (Doc.item) with its parent pointer; Deb822WhitespaceToken('\n') allocates.
_T_IT = ("ref", "Deb822Element")
_T_FILE = ("ref", "Deb822FileElement")
_T_ITS = ("coq", "itstore")
_F_S = [("<heap>", "hp", _T_HEAP), ("<tokens and elements>", "its", _T_ITS), ("self._token_and_elements", "s_ll", _T_LL)]
_F_V = [v for _, v, _ in _F_S]
_FE = "Deb822FileElement."


def _f_w(coq, qual, params, ret, **kw):
    return _P.Fun(coq, qual, params, ret, skip_first=True, state=_F_S, **kw)


TR_MODULE_FILE = _P.Module(
    "TrStructFile", "lib/debian/_deb822_repro/parsing.py",
    funs=[
        _f_w("tr_f_set_parent", _FE + "_set_parent", [("t", _T_IT)], _T_IT),
        _f_w("tr_f_append", _FE + "append", [("paragraph", _T_IT)], "unit", locals={"tail_element": ("option", _T_IT)}),
        _f_w("tr_f_insert", _FE + "insert", [("idx", "Z"), ("para", _T_IT)], "unit",
             locals={"anchor_node": _T_OREF, "needs_newline": "bool", "i": "Z", "node": _T_REF, "entry": _T_IT,
                     "nl_token": _T_IT}),
    ],
    calls={
        "isinstance": [_P.Call("trp_item_is_para its", [_T_IT, ("literal", "Deb822ParagraphElement", "")], "bool", True),
                       _P.Call("trp_item_is_ws its", [_T_IT, ("literal", "Deb822WhitespaceToken", "")], "bool", True)],
        "bool": _P.Call("trp_ll_bool", [_T_LL], "bool"),
        "Deb822WhitespaceToken": _t_sub("trp_new_ws_token", ["str"], _T_IT, ["its"]),
        "self._set_parent": _t_sub("tr_f_set_parent", [_T_IT], _T_IT, _F_V),
        "self.append": _t_sub("tr_f_append", [_T_IT], "unit", _F_V),
        "self._token_and_elements.append": _t_sub("trp_ll_append", [_T_IT], _T_REF, ["hp", "s_ll"]),
        "self._token_and_elements.insert_before": _t_sub("trp_ll_insert_before", [_T_IT, _T_REF], _T_REF, ["hp", "s_ll"]),
        "self._token_and_elements.iter_nodes": _P.Call("trp_ll_iter_nodes hp s_ll", [], ("list", _T_REF), True),
        "<llobj>.__bool__": _P.Call("trp_ll_bool", [_T_LL], "bool"),
        "<llobj>.@head_node": _P.Call("trp_ll_head", [_T_LL], _T_OREF),
        "<llobj>.@tail": _P.Call("trp_ll_tail_value hp", [_T_LL], ("option", _T_IT), True),
        "<Deb822Element>.convert_to_text": _P.Call("trp_item_text its", [_T_IT], "str", True),
        "<Deb822Element>._ensure_final_newline": _t_sub("trp_item_ensure_nl", [_T_IT], "unit", ["its"]),
        "<str>.endswith": _P.Call("trp_endswith", ["str", "str"], "bool"),
    },
    consts={"self": ("trp_self", _T_FILE)},
    imports=["Dict.Common", "Dict.Heap", "Dict.TrPrims", "Repro.StructTrPrims"])
TR_MODULE_FILE.heap = _P.Heap("hp", _T_HEAP, {
    "Deb822Element": _P.HeapClass(
        "itref", fields={},
        props={"parent_element": (_P.Call("trp_item_parent its", [_T_IT], ("option", _T_FILE), True),
                                  _t_sub("trp_item_set_parent", [_T_IT, ("option", _T_FILE)], "unit", ["its"]))}),
    "Deb822FileElement": _P.HeapClass("fileref", fields={}, eqb="trp_file_eqb", opt_eqb="trp_ofile_eqb"),
    "LinkedListNode": _P.HeapClass("id", fields={"value": (_T_IT, "trp_get_value", "trp_set_value")},
                                   eqb="Pos.eqb", opt_eqb="oid_eqb")},
    assume="trp_assume_some")


_T_ASSERTED_FILE = {"lib/debian/_deb822_repro/parsing.py": {
    "Deb822Element.parent_element@getter": "7316ac44d107b3b4",      # trp_item_parent: the stored parent pointer
    "Deb822Element.parent_element@setter": "7bc2ef1e0ed4f09b",      # trp_item_set_parent
    "Deb822Element.convert_to_text": "8674d6267ddb7384"}}           # trp_item_text: the model's item_text


@extract.register("TrStructFile")
def _gen_tr_file(repo):
    _t_assert_sources(repo, _T_ASSERTED_FILE)
    return _P.translate_module(repo, TR_MODULE_FILE)


import os as _os    # noqa: E402
# (registered only while the theorem file is there, so that ./check C10 never breaks on a tree without it)
TIE_FILE = "Props/C10Tie.v" if _os.path.exists(_os.path.join(
    _os.path.dirname(_os.path.abspath(__file__)), "..", "..", "coq", "Props", "C10Tie.v")) else None
