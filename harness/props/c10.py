"""C10 — structural edits of a preserved document only move or insert whole elements.

Driver, observation format and literals are shared with C05 (harness/props/c05.py) where
they coincide; the case format is coq/Repro/StructCheck.v.
"""
from harness.core import cq_bool, cq_list, err_kind
from harness.props import c05
from harness.props.c05 import (Interner, _walk_strings, cq_item, cq_key, cq_pieces, key_name,
                               parse_doc, pykey, split_lines)

ID = "C10"
CHECK_MODULE = "Repro.StructCheck"
PROPS_FILE = "Props/C10.v"
SHARD = 50
SHARD_IMPORTS = "From Verif Require Import Repro.Doc Repro.StructSort Repro.Struct."
ANCHORS = [("lib/debian/_deb822_repro/parsing.py",
            ["Deb822NoDuplicateFieldsParagraphElement", "Deb822DuplicateFieldsParagraphElement",
             "Deb822FileElement", "_unpack_key", "_ensure_final_newline", "from_kvpairs",
             "add_final_newline_if_missing"]),
           ("lib/debian/_util.py", ["OrderedSet", "LinkedList", "default_field_sort_key"])]
BUDGET = {"quick": 500, "thorough": 6000}
RULE = ("documents of 1-3 paragraphs (c05.gen_doc: comment lines before fields, multi-line values, free "
        "comments/blank lines between paragraphs, head/tail comments, with and without final LF), half of them "
        "with duplicated (also case-variant) field names, plus small documents over five names (60% with duplicates); "
        "x histories of 1-6 operations: order_first/last/before/after with un-indexed and (name, i) keys (mostly valid "
        "indices, also negative, out of range, any case spelling, absent names, self references), sort_fields (half of "
        "them with a custom key: len, a constant, 'X- fields last', first character lower-cased, exact spelling), "
        "p[k]=v / del p[k] with un-indexed and indexed keys (plain one-line values; a few multi-line/invalid values "
        "and bad keys), Deb822FileElement.append/insert of freshly built paragraphs (index 0..n+1, rarely negative), "
        "re-appending a paragraph of the file; a 2% stream that empties a paragraph, appends/inserts and refills it "
        "(D23); a 10% stream of 2-4 paragraphs separated by free comment lines glued to the end of the paragraph "
        "before / to the start of the next (with and without blank lines on either side) x insert at a middle index; "
        "a 14% stream of sort_fields(key=custom) on documents whose names tie under the key (equal lengths, equal first "
        "characters, X- and other names, case variants) and that repeat a field 2-3 times with the occurrences interleaved "
        "with other fields (own generator 60%, c05.gen_doc(dups) 40%), alone, after another operation, followed by a second "
        "sort or by an indexed order/set/del on the sorted paragraph.  Observed after every operation: exception kind, dump(), a fresh parse of the dump (name and exact "
        "text of every field), and for the paragraph operated on (all paragraphs after append/insert and at the end "
        "of the history) and every name in it the position of get_kvpair_element((name, i)) among iter_parts() for "
        "i = -1, 0..count.  non-trivial = at least one operation succeeded and changed the dump")
TRUSTED = ["model coq/Repro/Struct.v (on coq/Repro/Doc.v) is a hand transcription of the order_*/sort_fields methods of "
           "both paragraph classes, _nodes_being_relocated, _regenerate_relative_kvapir_order and "
           "Deb822FileElement.append/insert at field-text level; OrderedSet and LinkedList at list level (the linked "
           "structure itself is C09's subject); tied to the code only by this correspondence",
           "the initial abstract document of a case is read off the implementation's own parse (c05.abstract: class, "
           "comment text, name text, remaining text per key-value pair)",
           "p[k]=v inside a history is Doc.setitem (C05's model); the reference judges it only for plain one-line values",
           "sorted() is a stable sort: modelled by insertion sort (coq/Repro/StructSort.v), proved sorted/stable/permutation "
           "for every key function into a type with a total transitive <= (coq/Repro/StructSortProofs.v)",
           "the key functions passed to sort_fields(key=...) are the six of SORT_KEYS; each is transcribed by hand as a "
           "constructor of sortkey with its key type and Python's <= on it (str / int / bool) in coq/Repro/StructSort.v"]
ASSUMPTIONS = ["keys are ASCII (str.lower is modelled by ascii_lower); histories are judged up to the first non-ASCII key",
               "set values outside 'plain one-line value' and new names outside [A-Za-z0-9][A-Za-z0-9_-]* end the judged "
               "part of a history (they are C05's subject); the model is still compared on them",
               "a negative index (name, -k) may be refused (the no-duplicates class refuses every index but 0) or count "
               "from the end; (name, 0) for an absent name may add the field or be refused",
               "insert(i): the new paragraph may land anywhere between paragraph i-1 and paragraph i (the docstring leaves "
               "the side of free-floating comments open), i beyond the last paragraph = anywhere after it; negative i is "
               "outside the quantifier (the model reproduces what the code does with it)",
               "paragraphs that have lost all their fields have no text: a fresh parse shows the non-empty paragraphs",
               "a refused operation may already have supplied the missing final newline of the paragraph "
               "(_ensure_final_newline runs before the reference field is looked up)",
               "theorems assume every operation addresses an existing paragraph (ops_in_range)",
               "C10_insert_append_no_merge_partial: that the separators suffice for the real parser needs C01/C05's "
               "parse(dump) theorem; the no-merge condition itself is checked on every case through the fresh parse"]


# ---------------------------------------------------------------------------
# implementation driver

# sort_fields(key=...): name in the case -> (the Python key function passed, constructor of Repro/StructSort.v)
SORT_KEYS = {
    "default": (None, "KDefault"),                                       # sort_fields(): name.lower()
    "len": (len, "KLen"),
    "const": (lambda n: 0, "KConst"),                                    # everything ties
    "xlast": (lambda n: n.lower().startswith("x-"), "KXLast"),          # "X-" fields after the others
    "firstchar": (lambda n: n[:1].lower(), "KFirstChar"),
    "exact": (str, "KExact"),                                            # the name as spelled, case-sensitive
}
CUSTOM_KEYS = ["len", "const", "xlast", "firstchar", "exact"]


def apply_op(f, op):
    if op["o"] == "reappend":
        f.append(list(f)[op["p"]])
        return
    if op["o"] == "sort" and op.get("key", "default") != "default":
        list(f)[op["p"]].sort_fields(key=SORT_KEYS[op["key"]][0])
        return
    c05.apply_op(f, op)


def positions(p):
    """[[name, i, {"ok": position} | {"err": kind}]] for every name of the paragraph, i = -1, 0..count"""
    parts = list(p.iter_parts())
    seen = {}
    for kv in parts:
        n = str(kv.field_name)
        seen.setdefault(n.lower(), [n, 0])[1] += 1
    out = []
    for _, (n, c) in seen.items():
        for i in [-1] + list(range(c + 1)):
            try:
                e = p.get_kvpair_element((n, i))
                where = [j for j, x in enumerate(parts) if x is e]
                out.append([n, i, {"ok": where[0]} if where else {"err": "OtherError"}])
            except Exception as ex:
                out.append([n, i, {"err": err_kind(ex)}])
    return out


def extra_queries(p, op):
    out = []
    for kk in ("k", "r"):
        if kk in op:
            n = key_name(op[kk])
            for i in (0, 1):
                try:
                    parts = list(p.iter_parts())
                    e = p.get_kvpair_element((n, i))
                    where = [j for j, x in enumerate(parts) if x is e]
                    out.append([n, i, {"ok": where[0]} if where else {"err": "OtherError"}])
                except Exception as ex:
                    out.append([n, i, {"err": err_kind(ex)}])
    return out


def observe_step(f, op, last):
    err = None
    try:
        apply_op(f, op)
    except Exception as e:
        err = err_kind(e)
    try:
        dump = f.dump()
    except Exception as e:      # the document must always be printable: recorded, so that holds judges it
        dump = "\x00<dump() raised %s after this operation>" % err_kind(e)
    st = {"err": err, "dump": dump, "pos": []}
    everything = last or op["o"] in ("append", "insert", "reappend")
    for j, p in enumerate(f):
        if not everything and op.get("p") != j:
            continue
        q = positions(p)
        if op.get("p") == j:
            have = {(n.lower(), i) for n, i, _ in q}
            q += [x for x in extra_queries(p, op) if (x[0].lower(), x[1]) not in have]
        st["pos"].append([j, q])
    try:
        g = parse_doc(split_lines(dump))
        st["reparse"] = [[[str(kv.field_name), kv.convert_to_text()] for kv in p.iter_parts()] for p in g]
    except Exception:
        st["reparse"] = None
    return st


def run_impl(case):
    f = parse_doc(split_lines(case["text"]))
    obs = {"items": c05.abstract(f), "steps": []}
    for k, op in enumerate(case["ops"]):
        obs["steps"].append(observe_step(f, op, k + 1 == len(case["ops"])))
    return obs


# ---------------------------------------------------------------------------
# Coq emission

def cq_kvs(kvs, S):
    return cq_list(["(%s, %s)" % (S(k), S(v)) for k, v in kvs])


def cq_op(op, S):
    o = op["o"]
    if o == "first":
        return "LFirst %d %s" % (op["p"], cq_key(op["k"], S))
    if o == "last":
        return "LLast %d %s" % (op["p"], cq_key(op["k"], S))
    if o == "before":
        return "LBefore %d %s %s" % (op["p"], cq_key(op["k"], S), cq_key(op["r"], S))
    if o == "after":
        return "LAfter %d %s %s" % (op["p"], cq_key(op["k"], S), cq_key(op["r"], S))
    if o == "sort":
        return "LSort %d %s" % (op["p"], SORT_KEYS[op.get("key", "default")][1])
    if o == "set":
        return "LSet %d %s %s" % (op["p"], cq_key(op["k"], S), S(op["v"]))
    if o == "del":
        return "LDel %d %s" % (op["p"], cq_key(op["k"], S))
    if o == "append":
        return "LAppend %s" % cq_kvs(op["kv"], S)
    if o == "insert":
        return "LInsert (%d)%%Z %s" % (op["i"], cq_kvs(op["kv"], S))
    if o == "reappend":
        return "LReappend %d" % op["p"]
    raise AssertionError(o)


def cq_ans(r):
    return "(Ok %d)" % r["ok"] if "ok" in r else "(Err %s)" % r["err"]


def cq_z(i):
    return "%d%%Z" % i if i >= 0 else "(%d)%%Z" % i


def cq_item2(it, S):
    if it[0] == "P":
        return "IP %s %s" % (cq_bool(it[1]), cq_list(["FL %s %s %s" % (S(c), S(n), S(r)) for c, n, r in it[2]]))
    return cq_item(it, S)


def cq_step(st, S):
    rp = st["reparse"]
    rps = "None" if rp is None else "(Some %s)" % cq_list(
        [cq_list(["NT %s %s" % (S(n), S(t)) for n, t in para]) for para in rp])
    pos = cq_list(["PQ %d %s" % (j, cq_list(["Q %s %s %s" % (S(n), cq_z(i), cq_ans(r)) for n, i, r in para]))
                   for j, para in st["pos"]])
    return "mkS %s %s %s %s" % ("None" if st["err"] is None else "(Some %s)" % st["err"],
                                cq_pieces(st["dump"], S), rps, pos)


def emit(case, obs):
    I = Interner()
    _walk_strings([split_lines(case["text"]), [[v for k, v in op.items() if k != "o"] for op in case["ops"]],
                   obs["items"]], I.note)
    for st in obs["steps"]:
        _walk_strings([split_lines(st["dump"]), st["reparse"], [[n for n, _, _ in para] for _, para in st["pos"]]], I.note)
    I.finish()
    S = I.ref
    term = "Run %s %s %s %s" % (
        cq_pieces(case["text"], S), cq_list([cq_item2(it, S) for it in obs["items"]]),
        cq_list([cq_op(op, S) for op in case["ops"]]), cq_list([cq_step(st, S) for st in obs["steps"]]))
    return I.wrap(term)


# ---------------------------------------------------------------------------
# generator

SMALL_NAMES = ["A", "B", "C", "Dd", "e"]
VALUES = ["new", "n2", "", "1.0-1", "a b  c", "x # y", "#h", "é"]
ODD_VALUES = ["multi\n line2", " padded ", "bad\nnocont", "a\rb", "x\n"]
NEW_NAMES = ["N", "M", "Q", "New-Field", "x_y", "9lives"]
BAD_KEYS = ["", "A B", "#c", "A:B", "É", "a\nb"]


def gen_small_doc(rng):
    npar = rng.choice([1, 1, 2, 3])
    text = rng.choice(["", "", "\n", "# head\n\n"])
    names_pp = []
    for j in range(npar):
        k = rng.choice([1, 2, 3, 4])
        names = rng.sample(SMALL_NAMES, k)
        if rng.random() < 0.6:
            for _ in range(rng.randint(1, 2)):
                n = rng.choice(names)
                names.insert(rng.randint(0, len(names)), rng.choice([n, n.lower(), n.upper()]))
        for n in names:
            if rng.random() < 0.2:
                text += "# c\n"
            text += n + ":" + rng.choice([" ", " ", "", "\t"]) + rng.choice(["v", "w x", "1"]) + "%d\n" % rng.randint(0, 9)
            if rng.random() < 0.2:
                text += rng.choice([" cont\n", "# in\n more\n", "\tt\n"])
        names_pp.append(names)
        if j + 1 < npar:
            text += rng.choice(["\n", "\n\n", "\n# free\n\n", " \n"] + GLUED)
    r = rng.random()
    if r < 0.4:
        text = text[:-1]
    elif r < 0.5:
        text += rng.choice(["\n", "\n# end\n", "\n# end", " \n", "\n  ", "# glued end\n", "# glued end"])
    return text, names_pp


# what stands between two paragraphs: free comment lines glued to the end of the paragraph before (no blank
# line in front of them), glued to the start of the next (they become the comment of its first field), both,
# with blank / whitespace-only lines on either side or not
GLUED = ["# g\n\n", "# g1\n# g2\n\n", "# g\n \n", "# g\n\n\n", "# g\n\n# free\n\n", "\n# lead\n",
         "# g\n\n# lead\n", "\n# free\n\n# lead\n", "# g\n\n# free\n\n# lead\n", "\n\n# free\n\n"]


def gen_glued(rng):
    """2-4 paragraphs separated by the GLUED layouts x an insert at a middle index (every one in turn over
    the stream), surrounded by a few other operations"""
    npar = rng.choice([2, 2, 3, 4])
    text = rng.choice(["", "", "# head\n\n", "\n"])
    npp = []
    for j in range(npar):
        names = rng.sample(SMALL_NAMES, rng.choice([1, 2, 2, 3]))
        if rng.random() < 0.3:
            n = rng.choice(names)
            names.append(rng.choice([n, n.lower(), n.upper()]))
        for n in names:
            text += n + ": v%d\n" % rng.randint(0, 9)
            if rng.random() < 0.15:
                text += " cont\n"
        npp.append(names)
        if j + 1 < npar:
            text += rng.choice(GLUED) if rng.random() < 0.85 else "\n"
    r = rng.random()
    if r < 0.3:
        text = text[:-1]
    elif r < 0.45:
        text += rng.choice(["# glued end\n", "# glued end", "\n# end\n"])
    ops = []
    if rng.random() < 0.4:
        ops.append(gen_op(rng, npp))
    for _ in range(rng.choice([1, 1, 2])):
        i = rng.randint(1, len(npp) - 1)
        kv = gen_kvs(rng)
        npp.insert(i, [k for k, _ in kv])
        ops.append({"o": "insert", "i": i, "kv": kv})
    if rng.random() < 0.5:
        ops.append(gen_op(rng, npp))
    return {"text": text, "ops": ops}


def gen_key(rng, names):
    r = rng.random()
    if r < 0.03:
        return rng.choice(BAD_KEYS)
    n = rng.choice(list(names)) if names and r < 0.92 else "Zz"
    c = sum(1 for m in names if m.lower() == n.lower())
    n = rng.choice([n, n, n.lower(), n.upper(), n.swapcase()])
    r2 = rng.random()
    if r2 < 0.45:
        return n
    r3 = rng.random()
    if c and r3 < 0.7:
        return [n, rng.randrange(c)]
    if c and r3 < 0.8:
        return [n, -rng.randint(1, c)]
    return [n, rng.choice([0, 1, 2, 3, -1, -2, c, -c - 1])]


def gen_kvs(rng):
    kv = [[rng.choice(NEW_NAMES + ["A"]), rng.choice(VALUES)]]
    if rng.random() < 0.4:
        kv.append([rng.choice(NEW_NAMES), rng.choice(VALUES)])
    if rng.random() < 0.1:
        kv.append([kv[0][0].lower(), "again"])
    if rng.random() < 0.03:
        kv.append(["W", rng.choice(ODD_VALUES)])
    return kv


def gen_op(rng, npp):
    r = rng.random()
    if r < 0.14 or not npp:
        kv = gen_kvs(rng)
        if rng.random() < 0.5:
            npp.append([k for k, _ in kv])
            return {"o": "append", "kv": kv}
        i = rng.randint(0, len(npp) + 1) if rng.random() < 0.95 else rng.choice([-1, -2])
        npp.insert(min(max(i, 0), len(npp)), [k for k, _ in kv])
        return {"o": "insert", "i": i, "kv": kv}
    if r < 0.16:
        return {"o": "reappend", "p": rng.randrange(len(npp))}
    j = rng.randrange(len(npp))
    names = npp[j] or ["A"]
    o = rng.choice(["first", "last", "before", "after", "first", "last", "before", "after", "sort", "set", "set", "del"])
    op = {"o": o, "p": j}
    if o == "sort" and rng.random() < 0.5:
        op["key"] = rng.choice(CUSTOM_KEYS)
    if o != "sort":
        op["k"] = gen_key(rng, names)
    if o in ("before", "after"):
        op["r"] = gen_key(rng, names)
    if o == "set":
        op["v"] = rng.choice(VALUES) if rng.random() < 0.93 else rng.choice(ODD_VALUES)
        if rng.random() < 0.3:
            n = rng.choice(NEW_NAMES)
            op["k"] = n if rng.random() < 0.8 else [n, rng.choice([0, 0, 1, -1])]
            if isinstance(op["k"], str) or op["k"][1] == 0:
                npp[j] = names + [n]
    if o == "del" and isinstance(op["k"], str):
        npp[j] = [m for m in names if m.lower() != op["k"].lower()]
    return op


def gen_empty_tail(rng):
    """a paragraph loses all its fields, then paragraphs are appended / inserted and the emptied one is refilled"""
    names = rng.sample(SMALL_NAMES, rng.choice([1, 1, 2]))
    text = rng.choice(["", "# head\n\n", "X: 1\n\n"])
    npar_before = 1 if text.startswith("X") else 0
    for n in names:
        text += n + ": v\n"
    if rng.random() < 0.4:
        text = text[:-1]
    ops = [{"o": "del", "p": npar_before, "k": n} for n in names]
    ops.append(rng.choice([{"o": "append", "kv": [["N", "x"]]},
                           {"o": "insert", "i": npar_before + 1, "kv": [["N", "x"]]},
                           {"o": "insert", "i": 0, "kv": [["N", "x"]]}]))
    j = npar_before + (1 if ops[-1].get("i") == 0 else 0)
    ops.append(rng.choice([{"o": "set", "p": j, "k": "A", "v": "b"}, {"o": "sort", "p": j},
                           {"o": "first", "p": j, "k": "A"}]))
    if rng.random() < 0.5:
        ops.append({"o": "append", "kv": [["M", "y"]]})
    return {"text": text, "ops": ops}


def gen_insert_history(rng):
    """3-8 append/insert operations in a row on a small document (any index order: front, middle, end, repeated),
    optionally followed by an edit of one of the paragraphs: the list of paragraphs must follow the list model at
    every step whatever was inserted before."""
    text, npp = gen_small_doc(rng)
    npp = [list(x) for x in npp]
    ops = []
    for _ in range(rng.choice([3, 3, 4, 4, 5, 6, 8])):
        kv = [[rng.choice(NEW_NAMES + ["A"]), rng.choice(VALUES)]]
        r = rng.random()
        if r < 0.15:
            npp.append([k for k, _ in kv])
            ops.append({"o": "append", "kv": kv})
            continue
        i = 0 if r < 0.45 else rng.randint(1, len(npp)) if r < 0.9 else len(npp) + 1
        npp.insert(min(i, len(npp)), [k for k, _ in kv])
        ops.append({"o": "insert", "i": i, "kv": kv})
    if rng.random() < 0.4:
        ops.append(gen_op(rng, npp))
    return {"text": text, "ops": ops}


# names that tie with one another under the custom sort keys: equal lengths (A/B/e, Ab/ab/a1/Zz/XY,
# X-Foo/x-bar, Depends/Package/Section), equal first characters (Source/Section, Package/Pre-Depends,
# A/Ab/ab/a1, X-Foo/x-bar/X-B/XY), with and without the "X-" prefix, case variants
SORT_NAMES = ["Source", "Depends", "Homepage", "Package", "Section", "Pre-Depends", "X-Foo", "x-bar", "X-B", "XY",
              "A", "B", "e", "Ab", "ab", "a1", "Zz"]


def gen_sort_doc(rng):
    """1-2 paragraphs over SORT_NAMES, most of them with a field repeated 2-3 times (same or another case
    spelling) whose occurrences are interleaved with the other fields; every field has its own value"""
    npar = rng.choice([1, 1, 1, 2])
    text = rng.choice(["", "", "", "# head\n\n"])
    npp = []
    v = 0
    for j in range(npar):
        names = rng.sample(SORT_NAMES, rng.choice([2, 3, 3, 4, 5, 6]))
        if rng.random() < 0.75:
            for _ in range(rng.choice([1, 1, 2])):
                n = rng.choice(names)
                for _ in range(rng.choice([1, 1, 2])):
                    names.insert(rng.randint(0, len(names)), rng.choice([n, n, n.lower(), n.upper(), n.swapcase()]))
        for n in names:
            if rng.random() < 0.15:
                text += "# c%d\n" % v
            text += "%s: v%d\n" % (n, v)
            if rng.random() < 0.15:
                text += rng.choice([" cont\n", "# in\n more\n"])
            v += 1
        npp.append(names)
        if j + 1 < npar:
            text += rng.choice(["\n", "\n", "\n# free\n\n"])
    if rng.random() < 0.35:
        text = text[:-1]
    return text, npp


def gen_sort_case(rng):
    """sort_fields with a custom key on a document whose names tie under it (own small documents, or c05's
    duplicate-fields documents), sometimes after / before other operations on the same paragraph (the name
    index must follow the new order: indexed keys afterwards)"""
    if rng.random() < 0.6:
        text, npp = gen_sort_doc(rng)
    else:
        text, npp = c05.gen_doc(rng, dups=rng.random() < 0.8)
    npp = [list(x) for x in npp]
    ops = []
    if rng.random() < 0.25:
        ops.append(gen_op(rng, npp))
    j = rng.randrange(len(npp))
    ops.append({"o": "sort", "p": j, "key": rng.choice(CUSTOM_KEYS)})
    r = rng.random()
    if r < 0.2:
        ops.append({"o": "sort", "p": j, "key": rng.choice(CUSTOM_KEYS + ["default"])})
    elif r < 0.45 and npp[j]:
        n = rng.choice(npp[j])
        c = sum(1 for m in npp[j] if m.lower() == n.lower())
        o = rng.choice(["first", "last", "del", "set"])
        op = {"o": o, "p": j, "k": [n, rng.randrange(c)] if rng.random() < 0.8 else n}
        if o == "set":
            op["v"] = rng.choice(VALUES)
        ops.append(op)
    return {"text": text, "ops": ops}


def generate(rng, n, tier):
    for t in range(n):
        r = rng.random()
        if r < 0.02:
            yield gen_empty_tail(rng)
            continue
        if r >= 0.86:
            yield gen_sort_case(rng)
            continue
        if r < 0.10:
            yield gen_insert_history(rng)
            continue
        if r < 0.18:
            yield gen_glued(rng)
            continue
        if r < 0.58:
            text, npp = gen_small_doc(rng)
        else:
            text, npp = c05.gen_doc(rng, dups=rng.random() < 0.5)
        npp = [list(x) for x in npp]
        ops = [gen_op(rng, npp) for _ in range(rng.choice([1, 2, 2, 3, 4, 6]))]
        yield {"text": text, "ops": ops}


def from_json(j):
    return j


def classify(case, obs):
    kinds = []
    prev = case["text"]
    for op, st in zip(case["ops"], obs["steps"]):
        k = op["o"]
        if k == "sort" and op.get("key", "default") != "default":
            k += "-" + op["key"]
        if any(not isinstance(op.get(x, ""), str) for x in ("k", "r")):
            k += "-idx"
        k += ":" + (st["err"] or ("same" if st["dump"] == prev else "ok"))
        prev = st["dump"]
        kinds.append(k)
    first = kinds[0] if kinds else "none"
    return "%s/%s/%s" % ("dup" if any(it[0] == "P" and it[1] for it in obs["items"]) else "nodup",
                         "nl" if case["text"].endswith("\n") else "nonl", first)


def nontrivial(case, obs):
    prev = case["text"]
    for st in obs["steps"]:
        if st["err"] is None and st["dump"] != prev:
            return True
        prev = st["dump"]
    return False


def _fits(text, ops):
    """every paragraph index of the history exists when it is used"""
    try:
        f = parse_doc(split_lines(text))
    except Exception:
        return False
    n = len(list(f))
    for op in ops:
        if "p" in op and op["p"] >= n:
            return False
        if op["o"] in ("append", "insert"):
            n += 1
    return True


def shrink(case):
    ops = case["ops"]
    text = case["text"]
    for i in range(len(ops)):
        o2 = ops[:i] + ops[i + 1:]
        if _fits(text, o2):
            yield dict(case, ops=o2)
    if len(ops) > 1 and _fits(text, ops[-1:]):
        yield dict(case, ops=ops[-1:])
    lines = split_lines(text)
    for i in range(len(lines)):
        t = "".join(lines[:i] + lines[i + 1:])
        if t and _fits(t, ops):
            yield dict(case, text=t)
    for i, op in enumerate(ops):
        for kk in ("k", "r"):
            if kk in op and not isinstance(op[kk], str):
                yield dict(case, ops=ops[:i] + [dict(op, **{kk: op[kk][0]})] + ops[i + 1:])
        if op["o"] in ("append", "insert") and len(op["kv"]) > 1:
            yield dict(case, ops=ops[:i] + [dict(op, kv=op["kv"][:1])] + ops[i + 1:])
        if op["o"] == "insert":
            yield dict(case, ops=ops[:i] + [{"o": "append", "kv": op["kv"]}] + ops[i + 1:])
        if op["o"] == "sort" and op.get("key", "default") not in ("default", "const"):
            yield dict(case, ops=ops[:i] + [dict(op, key="const")] + ops[i + 1:])
    for i, l in enumerate(lines):
        if len(l) > 4 and not l.startswith(("#", " ", "\t")) and ":" in l:
            name, _, rest = l.partition(":")
            short = name + ": v%d" % i + ("\n" if l.endswith("\n") else "")
            if short != l:
                t = "".join(lines[:i] + [short] + lines[i + 1:])
                if _fits(t, ops):
                    yield dict(case, text=t)


def describe(case, obs):
    return {"call": "f = parse_deb822_file(text); per op: p = list(f)[op.p]; first/last: p.order_first/last(k) | "
                    "before/after: p.order_before/after(k, r) | sort: p.sort_fields() or, with op.key, p.sort_fields(key=F): "
                    "len -> len, const -> lambda n: 0, xlast -> lambda n: n.lower().startswith('x-'), firstchar -> "
                    "lambda n: n[:1].lower(), exact -> str | set: p[k] = v | del: del p[k] | "
                    "append/insert: f.append/insert(i, paragraph built by new_empty_paragraph() and p[k] = v) | "
                    "reappend: f.append(list(f)[p]); keys written [name, i] are the tuples (name, i)",
            "text": case["text"], "ops": case["ops"],
            "dumps": [st["dump"] for st in obs.get("steps", [])],
            "errors": [st["err"] for st in obs.get("steps", [])],
            "reparse_after_each_op": [st["reparse"] for st in obs.get("steps", [])],
            "positions_after_each_op": [st["pos"] for st in obs.get("steps", [])],
            "specified": "every dump = concatenation of the field texts of the reference list after the same list "
                         "operation (whole fields moved/removed/replaced, moved duplicates keep their order; "
                         "sort_fields(key=...) is the stable sort by that key: fields whose keys tie keep their relative "
                         "order, occurrences of a repeated field stay interleaved with the tying fields of other names; only a "
                         "missing final newline may be supplied); a fresh parse of the dump shows the reference's "
                         "non-empty paragraphs field by field; get_kvpair_element((name, i)) is the i-th field of "
                         "that name in document order; refused operations leave the dump unchanged (up to that newline)"}
