"""C12 — structured multi-line fields round-trip as records and can always be dumped
(deb822._multivalued and its five table-carrying classes)."""
import ast

from harness import extract
from harness.core import cq_bool, cq_list, cq_opt, cq_str, err_kind
from harness.extract import ExtractError, coq_string
from harness.props import packed

ID = "C12"
CHECK_MODULE = "Deb822.MvCheck"
PROPS_FILE = "Props/C12.v"
CLASSES = ["Dsc", "Changes", "BuildInfo", "PdiffIndex", "Release"]
ANCHORS = [("lib/debian/deb822.py",
            ["_multivalued", "Dsc", "Changes", "BuildInfo", "PdiffIndex", "Release"])]
BUDGET = {"quick": 1400, "thorough": 16000}
SHARD = 175          # cases per Coq file (a case carries about 4 kB of text)
SHARD_IMPORTS = "From Coq Require Import Uint63."


# ---------------------------------------------------------------------------
# Gen/MvTables.v : the five _multivalued_fields dict literals, which classes
# define _fixed_field_lengths, the width constant and the behaviour names.

def _str_const(node, what):
    if isinstance(node, ast.Constant) and isinstance(node.value, str):
        return node.value
    raise ExtractError("%s: expected a string literal, got %s" % (what, ast.dump(node)[:80]))


def _ascii_token(s, what):
    if not s or any(ord(c) >= 128 or c.isspace() for c in s):
        raise ExtractError("%s: %r is not a non-empty whitespace-free ASCII name" % (what, s))
    return s


def _table(cls_node):
    val = extract.find_assign(cls_node.body, "_multivalued_fields")
    if not isinstance(val, ast.Dict):
        raise ExtractError("%s._multivalued_fields is not a dict literal" % cls_node.name)
    out = []
    for k, v in zip(val.keys, val.values):
        if k is None:
            raise ExtractError("%s._multivalued_fields uses ** unpacking" % cls_node.name)
        key = _ascii_token(_str_const(k, cls_node.name + " key"), cls_node.name + " key")
        if not isinstance(v, ast.List):
            raise ExtractError("%s[%r] is not a list literal" % (cls_node.name, key))
        subs = [_ascii_token(_str_const(e, "%s[%r]" % (cls_node.name, key)), "%s[%r]" % (cls_node.name, key))
                for e in v.elts]
        if key != key.lower() or key in [k0 for k0, _ in out]:
            raise ExtractError("%s: key %r is not lower-case or is repeated" % (cls_node.name, key))
        if not subs:
            raise ExtractError("%s[%r] has no sub-fields" % (cls_node.name, key))
        out.append((key, subs))
    return out


def _defines(cls_node, name):
    for n in cls_node.body:
        if isinstance(n, (ast.FunctionDef, ast.AsyncFunctionDef)) and n.name == name:
            return True
        if isinstance(n, ast.Assign) and any(isinstance(t, ast.Name) and t.id == name for t in n.targets):
            return True
    return False


def _method(cls_node, name):
    for n in cls_node.body:
        if isinstance(n, ast.FunctionDef) and n.name == name:
            return n
    raise ExtractError("%s.%s not found" % (cls_node.name, name))


def _size_keys(cls_node):
    """The literal inner key of `fixed_field_lengths[key] = {<k>: length}` and the
    literal subscript of `item[<k>]` in _get_size_field_length."""
    inner, sub = set(), set()
    for n in ast.walk(_method(cls_node, "_fixed_field_lengths")):
        if isinstance(n, ast.Assign) and isinstance(n.value, ast.Dict) and len(n.value.keys) == 1 \
                and isinstance(n.targets[0], ast.Subscript):
            inner.add(_str_const(n.value.keys[0], "inner key"))
    for n in ast.walk(_method(cls_node, "_get_size_field_length")):
        if isinstance(n, ast.Subscript) and isinstance(n.value, ast.Name) and n.value.id == "item":
            sub.add(_str_const(n.slice, "item[...] key"))
    if len(inner) != 1 or len(sub) != 1:
        raise ExtractError("%s: cannot identify the size sub-field (%r, %r)" % (cls_node.name, inner, sub))
    return inner.pop(), sub.pop()


def _release_consts(cls_node):
    """(fixed width, name of the fixed-width behaviour, name of the computed-width behaviour,
    accepted behaviour names, default behaviour)"""
    fn = _method(cls_node, "_get_size_field_length")
    fixed = computed = None
    for n in fn.body:
        if isinstance(n, ast.If) and isinstance(n.test, ast.Compare) and len(n.test.ops) == 1 \
                and isinstance(n.test.ops[0], ast.Eq):
            name = _str_const(n.test.comparators[0], "behaviour name")
            rets = [r for r in ast.walk(n) if isinstance(r, ast.Return)]
            if len(rets) != 1:
                raise ExtractError("Release._get_size_field_length: branch %r has %d returns" % (name, len(rets)))
            v = rets[0].value
            if isinstance(v, ast.Constant) and isinstance(v.value, int) and not isinstance(v.value, bool):
                if fixed is not None:
                    raise ExtractError("two fixed-width behaviours")
                fixed = (name, v.value)
            elif isinstance(v, ast.Call) and isinstance(v.func, ast.Name) and v.func.id == "max":
                if computed is not None:
                    raise ExtractError("two computed-width behaviours")
                computed = name
            else:
                raise ExtractError("Release._get_size_field_length: unexpected return in branch %r" % name)
    if fixed is None or computed is None:
        raise ExtractError("Release._get_size_field_length: behaviours not recognised")
    setter = _method(cls_node, "set_size_field_behavior")
    accepted = None
    for n in ast.walk(setter):
        if isinstance(n, ast.Compare) and len(n.ops) == 1 and isinstance(n.ops[0], ast.NotIn) \
                and isinstance(n.comparators[0], (ast.List, ast.Tuple)):
            accepted = [_str_const(e, "accepted behaviour") for e in n.comparators[0].elts]
    if accepted is None:
        raise ExtractError("Release.set_size_field_behavior: accepted names not found")
    default = None
    for n in cls_node.body:
        if isinstance(n, ast.Assign) and any(isinstance(t, ast.Name) and t.id.endswith("__size_field_behavior")
                                             for t in n.targets):
            default = _str_const(n.value, "default behaviour")
    if default is None:
        raise ExtractError("Release.__size_field_behavior default not found")
    if sorted(accepted) != sorted([fixed[0], computed]) or default not in accepted:
        raise ExtractError("Release behaviours %r do not match the branches %r/%r" % (accepted, fixed[0], computed))
    return fixed[1], fixed[0], computed, accepted, default


def _cq_s(s):
    return "dec %s" % coq_string(s)


@extract.register("MvTables")
def _gen_mvtables(repo):
    tree = extract._parse(repo, "lib/debian/deb822.py")
    out = ["(* GENERATED by harness/props/c12.py from lib/debian/deb822.py (class bodies, AST). Do not edit. *)\n",
           "From Coq Require Import String List NArith.\nImport ListNotations.\n",
           "From Verif Require Import Lib.Base Lib.Dec.\nLocal Open Scope string_scope.\n\n"]
    has = {}
    for c in CLASSES:
        node = extract.find_class(tree, c)
        tbl = _table(node)
        if not tbl:
            raise ExtractError("%s._multivalued_fields is empty" % c)
        rows = ";\n   ".join("(%s, [%s])" % (_cq_s(k), "; ".join(_cq_s(s) for s in subs)) for k, subs in tbl)
        out.append("Definition mv_fields_%s : list (str * list str) :=\n  [%s].\n\n" % (c, rows))
        has[c] = _defines(node, "_fixed_field_lengths")
        if _defines(node, "get_as_string") or _defines(node, "validate_input") or _defines(node, "_dump_format"):
            raise ExtractError("%s overrides get_as_string/validate_input/_dump_format: not modelled" % c)
    # the model transcribes exactly these two implementations of _fixed_field_lengths
    if [c for c in CLASSES if has[c]] != ["PdiffIndex", "Release"]:
        raise ExtractError("_fixed_field_lengths is defined by %r; the model covers PdiffIndex and Release"
                           % [c for c in CLASSES if has[c]])
    for c in CLASSES:
        out.append("Definition has_fixed_field_lengths_%s : bool := %s.\n" % (c, "true" if has[c] else "false"))
    keys = set()
    for c in ("PdiffIndex", "Release"):
        keys.update(_size_keys(extract.find_class(tree, c)))
    if len(keys) != 1:
        raise ExtractError("size sub-field named differently in different places: %r" % sorted(keys))
    out.append("\n(* the sub-field whose column is right-justified *)\n")
    out.append("Definition mv_size_key : str := %s.\n" % _cq_s(keys.pop()))
    width, fixed_name, computed_name, accepted, default = _release_consts(extract.find_class(tree, "Release"))
    out.append("\n(* Release.size_field_behavior *)\n")
    out.append("Definition release_fixed_width : N := %d%%N.\n" % width)
    out.append("Definition release_fixed_name : str := %s.\n" % _cq_s(fixed_name))
    out.append("Definition release_computed_name : str := %s.\n" % _cq_s(computed_name))
    out.append("Definition release_default_name : str := %s.\n" % _cq_s(default))
    return "".join(out)


# ---------------------------------------------------------------------------
# correspondence

RULE = ("one case = one object and its re-parse.  build stream: class x subset of the class's structured fields (every "
        "subset for the 4-field classes, sampled subsets of PdiffIndex's 14 incl. every singleton, every co-singleton, "
        "the empty and the full set) x Release size_field_behavior (unset/apt-ftparchive/dak) x 1-5 records per present "
        "field x key spelling (lower/Title/UPPER/mixed) x records as plain dicts or Deb822Dicts, str or int sizes of 1-19 "
        "digits, tokens over ASCII punctuation and non-space Unicode, optional plain fields in between; the object is "
        "dumped, then (40% of the well-formed cases) edited 1-3 times in place - p[k][i] = rec, p[k][i][sub] = v, "
        "pop(0)+append, append, p[k] = records (also for a so far absent field), del p[k] - and dumped after every edit, "
        "so the subset of present fields changes during the life of one object; the last dump is re-parsed by the class "
        "and by plain Deb822 and dumped again.  A few 0-record lists (classed 'empty': outside the property's domain by "
        "decision, a field without records is not representable in the format).  malformed build stream: token with LF / "
        "blank / other Unicode space / empty, missing or extra or re-spelt sub-field, single mapping, string assigned to a "
        "structured field, same field twice in different case, invalid behaviour name, invalid plain value, misspelt "
        "field; malformed edits (index out of range, absent key, incomplete record, value with blanks or LF, empty list).  "
        "text stream: hand-written paragraphs parsed and dumped - 45% 'clean' (every line complete, any spacing, a quarter "
        "of the fields in the single-line form as SHA1-Current in real Index files; the dump must succeed whichever "
        "fields are present, except single-line under Release/dak), the rest short/long rows, tabs, trailing blanks, value on the key "
        "line, empty value, single-line form, CR LF, FF/VT/NEL/LS inside a line, comments, PGP armour.  "
        "non-trivial = at least one structured field with a record, or any malformed/text case")
TRUSTED = ["model coq/Deb822/Multivalued.v is a hand transcription of _multivalued.__init__/get_as_string, "
           "Deb822._dump_format, PdiffIndex/Release._fixed_field_lengths/_get_size_field_length and "
           "Release.set_size_field_behavior; besides this correspondence, the control flow of get_as_string, of the "
           "two _fixed_field_lengths/_get_size_field_length, of set_size_field_behavior, of _multivalued.__init__ / "
           "validate_input and of the inherited __setitem__ / is_single_line / is_multi_line is regenerated from the "
           "source on every run (coq/Gen/TrMvLengths.v, TrMultivalued.v) and proved equal to the model functions on all "
           "inputs (coq/Props/C12Tie.v); Deb822._dump_format and the edits are tied by the correspondence only",
           "for the tie: harness/py2coq.py's rendering of each construct, the types and renderings in TR_MODULE / "
           "TR_MODULE_LENGTHS, coq/Lib/Tr.v, the primitives of coq/Deb822/MvTrPrims.v (the object as an ordered "
           "case-insensitive mapping; what hasattr/iteration/item[x]/count/splitlines do on a str, a mapping, a list; "
           "str() of a value as the identity; the bound method `updater_method` as 'which method of which entry'), the "
           "class dispatch of self._fixed_field_lengths (coq/Deb822/MvTrDispatch.v; AttributeError = kind OtherError, "
           "Module.catches), self.size_field_behavior read as the private attribute",
           "the split of a text into (field, raw value) pairs (Deb822._internal_parser) is NOT modelled here: the "
           "model's parse stage starts from Deb822(text).items() as observed (C02 owns that parser); the theorem "
           "C12_paragraph_reparse is stated from the pairs MvProofs.spec_raw and says so",
           "str.splitlines/str.split/str.rstrip as modelled in coq/Lib/PyStr.v with the interpreter's tables (./check LIB)"]
ASSUMPTIONS = ["field names and sub-field names are US-ASCII (str.lower = ascii_lower); other cases are run and judged "
               "by holds but a model disagreement there is not acted on",
               "a structured field holding ZERO records is outside the property (documented exclusion, integrator's "
               "decision): it dumps to an empty value which can only re-parse as the single-mapping form; on /repo "
               "PdiffIndex and Release('dak') raise ValueError (max of an empty list) on it, the other classes dump "
               "'key:' and the re-parsed {} then raises KeyError on its own dump, and Release('dak') raises TypeError "
               "on a structured field in single-line form.  All three are explicit Err branches of the model and are "
               "generated (classes 'empty', 'text/...'), so agree covers them",
               "values handed to the API are str or int; records are dicts or Deb822Dicts",
               "objects are built by assignment after construction (constructing a class from a mapping whose values "
               "are lists raises AttributeError in __init__: modelled as Err, not generated)"]

HEX = "0123456789abcdef"
NAMECH = "abcxyzABC019._-+~/:,;=@%#!$&*()[]{}<>?'\"\\|^`"
UNI = ["é", "ß", "Ж", "日", "😀", "​", "­", "ٍ", "٣"]
SPACES = [" ", "\t", "\r", "\x0b", "\x0c", "\x1c", "\x1d", "\x1e", "\x1f", "\x85", "\xa0", " ", " ", " ", "　"]
PLAIN = [("Origin", "Debian"), ("Format", "1.0"), ("Source", "hello"), ("Suite", "unstable x"),
         ("Date", "Sat, 26 Sep 2026 10:00:00 UTC"), ("X-Note", "a:b  c")]


def _tables():
    from debian import deb822
    return {c: [(k, list(v)) for k, v in getattr(deb822, c)._multivalued_fields.items()] for c in CLASSES}


def _size(rng):
    n = rng.choice([1, 1, 2, 3, 5, 7, 10, 15, 16, 16, 17, 19])
    s = str(rng.randrange(10 ** (n - 1), 10 ** n)) if n > 1 else str(rng.randrange(10))
    r = rng.random()
    if r < 0.06:
        s = "0" * rng.randint(1, 4) + s       # a size token is text: the column is as wide as the longest TOKEN
    elif r < 0.09:
        s = "+" + s
    elif r < 0.11:
        s = s + "_0"
    return s


def _token(rng, sub):
    r = rng.random()
    if sub == "size" and r < 0.85:
        s = _size(rng)
        return int(s) if rng.random() < 0.3 and s.isdigit() and not (len(s) > 1 and s[0] == "0") else s
    if r < 0.04:
        return "#" + "".join(rng.choice(HEX) for _ in range(rng.choice([1, 4, 8])))      # a token may start with '#'
    if r < 0.35:
        return "".join(rng.choice(HEX) for _ in range(rng.choice([1, 4, 8, 8, 32])))
    if r < 0.9:
        return "".join(rng.choice(NAMECH) for _ in range(rng.randint(1, 9)))
    return "".join(rng.choice(NAMECH + "".join(UNI)) for _ in range(rng.randint(1, 6)))


def _spell(rng, key):
    r = rng.random()
    if r < 0.4:
        return key
    if r < 0.7:
        return "-".join(w[:1].upper() + w[1:] for w in key.split("-"))
    if r < 0.85:
        return key.upper()
    return "".join(c.upper() if rng.random() < 0.5 else c for c in key)


def _subsets(rng, cls, tbl, k):
    """k-th subset of the class's structured fields (systematic first, then random)."""
    keys = [f for f, _ in tbl]
    n = len(keys)
    if n <= 4:
        m = k % (1 << n)
        return [keys[i] for i in range(n) if m >> i & 1]
    k = k % (2 * n + 6)
    if k < n:
        return [keys[k]]
    if k == n:
        return list(keys)
    if k == n + 1:
        return []
    if k < 2 * n + 2:
        return [x for i, x in enumerate(keys) if i != k - n - 2]
    return [x for x in keys if rng.random() < rng.choice([0.15, 0.5, 0.8])]


def _wf_build(rng, cls, tbl, subset, nrec=None):
    order = dict(tbl)
    fields = list(subset)
    rng.shuffle(fields)
    build = []
    for f in fields:
        # many fields at once: fewer records each (keeps a case near 4 kB of text)
        n = nrec if nrec is not None else (rng.choice([1, 1, 2]) if len(fields) > 6 else rng.choice([1, 1, 2, 3, 4, 5]))
        rows = [[[s, _token(rng, s)] for s in order[f]] for _ in range(n)]
        build.append([_spell(rng, f), {"multi": rows}])
    if rng.random() < 0.35:
        for kv in rng.sample(PLAIN, rng.randint(1, 2)):
            build.insert(rng.randint(0, len(build)), [kv[0], {"plain": kv[1]}])
    return build


def _behav(rng, cls):
    if cls != "Release":
        return None
    return rng.choice([None, "apt-ftparchive", "dak", "dak"])


def _malform(rng, cls, tbl, case):
    """One corruption of a well-formed build case; returns the kind."""
    build = case["build"]
    mv = [i for i, (k, v) in enumerate(build) if "multi" in v and v["multi"]]
    kind = rng.choice(["lf", "blank", "unispace", "emptytok", "missing", "extra", "respell", "single",
                       "string", "twice", "behav", "badplain", "emptylist", "emptylist", "wrongkey"])
    if kind == "behav":
        case["cls"] = "Release"
        t = dict(_tables())["Release"]
        case["build"] = _wf_build(rng, "Release", t, [t[0][0]])
        case["behav"] = rng.choice(["DAK", "", "apt", "dak "])
        return kind
    if kind == "badplain":
        build.insert(rng.randint(0, len(build)),
                     ["Description", {"plain": rng.choice(["a\n", "a\nb", "a\n\n b", "a\n b\n", "a\x0cb", "a\n\tb", "\n x", "a\x0c\x0c b"])}])
        return kind
    if not mv:
        f, subs = tbl[0]
        build.append([f, {"multi": [[[s, _token(rng, s)] for s in subs]]}])
        mv = [len(build) - 1]
    i = rng.choice(mv)
    key, val = build[i]
    rows = val["multi"]
    r = rng.randrange(len(rows))
    c = rng.randrange(len(rows[r]))
    if kind == "lf":
        rows[r][c][1] = rng.choice(["a\nb", "\n", "x\n", "\nx"])
    elif kind == "blank":
        rows[r][c][1] = rng.choice(["a b", " a", "a ", "a\tb", " "])
    elif kind == "unispace":
        rows[r][c][1] = "a" + rng.choice(SPACES[2:]) + "b"
    elif kind == "emptytok":
        rows[r][c][1] = ""
    elif kind == "missing":
        del rows[r][c]
    elif kind == "extra":
        rows[r].insert(rng.randint(0, len(rows[r])), [rng.choice(["extra", "x y", "Size2"]), "zz"])
    elif kind == "respell":
        rows[r][c][0] = rng.choice([rows[r][c][0].upper(), rows[r][c][0].capitalize(), rows[r][c][0].swapcase()])
    elif kind == "single":
        build[i] = [key, {"single": rows[r]}]
    elif kind == "string":
        build[i] = [key, {"plain": rng.choice(["", "x", "\n a b c", "abc def"])}]
    elif kind == "twice":
        build.append([key.swapcase(), {"multi": [[list(kv) for kv in rows[0]]] * rng.randint(1, 2)}])
    elif kind == "emptylist":
        build[i] = [key, {"multi": []}]
    elif kind == "wrongkey":
        build[i] = [key + "x", val]
    return kind


def _line(rng, subs, clean=False):
    n = len(subs)
    k = n if clean else rng.choice([n, n, n, n, n - 1, n + 1, 1, 0])
    toks = [str(_token(rng, subs[j] if j < n else "x")) for j in range(max(k, 0))]
    sep = rng.choice([" ", " ", " ", "  ", "\t", " \t "])
    lead = rng.choice([" ", " ", " ", "\t", "  "])
    tail = rng.choice(["", "", "", " ", "\t", "\r"])
    if rng.random() < 0.12 and toks and not clean:
        j = rng.randrange(len(toks))
        toks[j] = toks[j] + rng.choice(["\x0c", "\x0b", "\x85", " ", "\x1c", "\x1f", "\xa0", "\r"]) + "q"
    if not toks:
        return lead + rng.choice([".", "", " "])
    return lead + sep.join(toks) + tail


def _text(rng, cls, tbl, subset):
    order = dict(tbl)
    fields = list(subset)
    rng.shuffle(fields)
    out = []
    shapes = []
    clean = rng.random() < 0.45        # every line complete, multi-line form only: the dump must succeed
    if clean:
        shapes.append("clean")
    for f in fields:
        key = _spell(rng, f)
        shape = (rng.choice(["multi", "multi", "multi", "single"]) if clean
                 else rng.choice(["multi", "multi", "multi", "multi", "firstline", "single", "empty", "emptysp"]))
        shapes.append(shape)
        if shape == "multi":
            out.append(key + ":" + rng.choice(["", "", " "]))
            out += [_line(rng, order[f], clean) for _ in range(rng.randint(1, 4))]
        elif shape == "firstline":
            out.append(key + ":" + _line(rng, order[f]))
            out += [_line(rng, order[f]) for _ in range(rng.randint(1, 3))]
        elif shape == "single":
            out.append(key + ":" + _line(rng, order[f], clean))
        elif shape == "empty":
            out.append(key + ":")
        else:
            out.append(key + ": ")
        if rng.random() < 0.15:
            out.append("# comment")
        if rng.random() < 0.25:
            kv = rng.choice(PLAIN)
            out.append("%s: %s" % kv)
    nl = "\r\n" if rng.random() < 0.08 else "\n"
    text = nl.join(out) + (nl if rng.random() < 0.85 else "")
    if rng.random() < 0.1:
        text += nl + "Other: paragraph" + nl
    if rng.random() < 0.06 and out:
        text = ("-----BEGIN PGP SIGNED MESSAGE-----\nHash: SHA256\n\n" + text.rstrip("\r\n")
                + "\n\n-----BEGIN PGP SIGNATURE-----\n\niQ\n-----END PGP SIGNATURE-----\n")
        shapes.append("pgp")
    return text, "+".join(sorted(set(shapes))) or "none"


def _wf_record(rng, subs):
    return [[s, _token(rng, s)] for s in subs]


def _edits(rng, cls, tbl, build, malformed):
    """0-3 edits of the built object.  Tracks which structured fields hold lists (and how
    many records) so that indices are valid unless a malformed edit is wanted."""
    order = dict(tbl)
    state = {}     # lower-case field -> (spelling, number of records) for list-valued structured fields
    plain = []
    for k, v in build:
        if "multi" in v and k.lower() in order:
            state[k.lower()] = [k, len(v["multi"])]
        elif "plain" in v and k.lower() not in order and k not in plain:
            plain.append(k)
    out = []
    for _ in range(rng.choice([1, 1, 2, 2, 3])):
        present = sorted(state)
        absent = [f for f, _ in tbl if f not in state]
        kind = rng.choice(["r", "s", "o", "a", "=", "=", "d", "d"])
        bad = malformed and rng.random() < 0.5
        if kind in "rsoa" and not present:
            kind = "="
        if kind in "rsoa":
            f = rng.choice(present)
            key = _spell(rng, f) if rng.random() < 0.5 else state[f][0]
            nrec = state[f][1]
            if kind == "r":
                i = nrec + rng.randint(0, 2) if bad or nrec == 0 else rng.randrange(nrec)
                out.append(["r", key, i, _wf_record(rng, order[f])])
            elif kind == "s":
                i = nrec + rng.randint(0, 1) if (bad and rng.random() < 0.4) or nrec == 0 else rng.randrange(nrec)
                sub = rng.choice(order[f])
                val = _token(rng, sub)
                if bad:
                    r = rng.random()
                    if r < 0.3:
                        sub = rng.choice([sub.swapcase(), sub.capitalize(), "extra"])
                    elif r < 0.6:
                        val = rng.choice(["a b", "a\nb", "", " ", "x\t"])
                out.append(["s", key, i, sub, str(val)])
            elif kind == "o":
                out.append(["o", key, _wf_record(rng, order[f])])
                if nrec == 0:
                    break            # IndexError: nothing after this is executed
            else:
                rec = _wf_record(rng, order[f])
                if bad:
                    del rec[rng.randrange(len(rec))]
                out.append(["a", key, rec])
                state[f][1] += 1
        elif kind == "=":
            if absent and (rng.random() < 0.7 or not present):
                f = rng.choice(absent)
            elif present:
                f = rng.choice(present)
            else:
                f = tbl[0][0]
            key = _spell(rng, f)
            if bad and rng.random() < 0.5:
                k2 = rng.choice(["Comment", "X-Extra"])
                out.append(["=", k2, {"plain": rng.choice(["ok", "a\n b", "a\nb", "x\n"])}])
                continue
            n = rng.choice([1, 1, 2, 3]) if not bad else rng.choice([0, 1])
            out.append(["=", key, {"multi": [_wf_record(rng, order[f]) for _ in range(n)]}])
            if f in state:
                state[f][1] = n
            else:
                state[f] = [key, n]
        else:
            cands = [state[f][0] for f in present] + plain
            if bad or not cands:
                out.append(["d", rng.choice(["Nope", tbl[-1][0] + "-x"])])
                break                # KeyError: nothing after this is executed
            k = rng.choice(cands)
            key = _spell(rng, k) if rng.random() < 0.5 else k
            out.append(["d", key])
            if k.lower() in state:
                del state[k.lower()]
            else:
                plain.remove(k)
    return out


def generate(rng, n, tier):
    tables = _tables()
    k = 0
    for i in range(n):
        cls = CLASSES[i % len(CLASSES)]
        tbl = tables[cls]
        r = rng.random()
        k = i // len(CLASSES)
        subset = _subsets(rng, cls, tbl, k)
        case = {"cls": cls, "behav": _behav(rng, cls), "plainrec": rng.random() < 0.5,
                "build": None, "edits": [], "text": "", "kind": ""}
        if r < 0.6:
            case["build"] = _wf_build(rng, cls, tbl, subset)
            case["kind"] = "wf"
            if rng.random() < 0.4:
                case["edits"] = _edits(rng, cls, tbl, case["build"], False)
                case["kind"] = "wf+edits"
        elif r < 0.64:
            case["build"] = _wf_build(rng, cls, tbl, subset or [tbl[0][0]], nrec=0)
            case["kind"] = "empty"
        elif r < 0.76:
            case["build"] = _wf_build(rng, cls, tbl, subset)
            case["kind"] = "bad:" + _malform(rng, cls, tbl, case)
        elif r < 0.8:
            case["build"] = _wf_build(rng, cls, tbl, subset)
            case["edits"] = _edits(rng, cls, tbl, case["build"], True)
            case["kind"] = "bad:edit"
        else:
            case["text"], shape = _text(rng, cls, tbl, subset)
            case["kind"] = "text/" + shape
        yield case


def from_json(j):
    j = dict(j)
    j.setdefault("edits", [])
    j.setdefault("text", "")
    j.setdefault("kind", "corpus")
    j.setdefault("plainrec", False)
    j.setdefault("behav", None)
    j.setdefault("build", None)
    return j


def _mk(plainrec):
    from debian import deb822
    if plainrec:
        return lambda kvs: dict((k, x) for k, x in kvs)
    return lambda kvs: deb822.Deb822Dict([(k, x) for k, x in kvs])


def _conv(v, plainrec):
    mk = _mk(plainrec)
    if "multi" in v:
        return [mk(r) for r in v["multi"]]
    if "single" in v:
        return mk(v["single"])
    return v["plain"]


def _canon(v):
    if isinstance(v, str):
        return {"plain": v}
    if hasattr(v, "keys"):
        return {"single": [[k, x] for k, x in v.items()]}
    return {"multi": [[[k, x] for k, x in d.items()] for d in v]}


def _apply_edit(p, e, plainrec):
    mk = _mk(plainrec)
    op = e[0]
    if op == "r":
        p[e[1]][e[2]] = mk(e[3])
    elif op == "s":
        p[e[1]][e[2]][e[3]] = e[4]
    elif op == "o":
        lst = p[e[1]]
        lst.pop(0)
        lst.append(mk(e[2]))
    elif op == "a":
        p[e[1]].append(mk(e[2]))
    elif op == "=":
        p[e[1]] = _conv(e[2], plainrec)
    elif op == "d":
        del p[e[1]]
    else:
        raise RuntimeError("unknown edit %r" % (op,))


def _bad_behaviour_first(obj, case):
    """On a Release paragraph, for every seventh case (chosen from the case itself): an illegal size_field_behavior
    is assigned first and refused (ValueError); the refusal must leave the object as it was."""
    if case["cls"] != "Release" or (len(case["text"] or "") + len(case.get("build") or [])) % 7 != 0:
        return
    for bad in ("Dak", "", None, "apt", 7):
        try:
            obj.size_field_behavior = bad
        except ValueError:
            pass


def run_impl(case):
    from debian import deb822
    K = getattr(deb822, case["cls"])
    text = case["text"]
    dumps = []
    if case["build"] is not None:
        p = K()
        _bad_behaviour_first(p, case)
        if case["behav"] is not None:
            try:
                p.size_field_behavior = case["behav"]
            except Exception as e:
                return {"stage": "behav", "err": err_kind(e)}
        try:
            for k, v in case["build"]:
                p[k] = _conv(v, case["plainrec"])
        except Exception as e:
            return {"stage": "build", "err": err_kind(e)}
        try:
            dumps.append(p.dump())
        except Exception as e:
            return {"stage": "dump", "dumps": dumps, "err": err_kind(e)}
        for ed in case["edits"]:
            try:
                _apply_edit(p, ed, case["plainrec"])
            except Exception as e:
                return {"stage": "edit", "dumps": dumps, "err": err_kind(e)}
            try:
                dumps.append(p.dump())
            except Exception as e:
                return {"stage": "dump", "dumps": dumps, "err": err_kind(e)}
        text = dumps[-1]
    # the text is handed over in one of its equivalent forms (chosen from the case itself): str, UTF-8 bytes, a list of
    # lines with line ends, a binary file — the same form for the plain read-out and for the class under test
    form = (len(text) + text.count(" ")) % 4
    if any(ch in text for ch in "\r\x0b\x0c\x1c\x1d\x1e\x85\u2028\u2029"):
        form = 0        # line boundaries other than LF split differently in str and bytes input (C02's subject)

    def mk():
        import io as _io
        if form == 0:
            return text
        if form == 1:
            return text.encode("utf-8")
        if form == 2:
            return text.encode("utf-8").splitlines(True)
        return _io.BytesIO(text.encode("utf-8"))
    raw = [[k, v] for k, v in deb822.Deb822(mk()).items()]
    q = K(mk())
    _bad_behaviour_first(q, case)
    if case["behav"] is not None:
        try:
            q.size_field_behavior = case["behav"]
        except Exception as e:
            return {"stage": "behav", "err": err_kind(e)}
    parsed = [[k, _canon(v)] for k, v in q.items()]
    try:
        d2 = {"ok": q.dump()}
    except Exception as e:
        d2 = {"err": err_kind(e)}
    return {"stage": "full", "dumps": dumps, "raw": raw, "parsed": parsed, "dump2": d2}


# ---- packed emission (coq/Deb822/Packed.v, MvCheck.t_case)

def _t_rec(r):
    return [[k, str(v)] for k, v in r]


def _t_val(v):
    if "multi" in v:
        return ["M", [_t_rec(r) for r in v["multi"]]]
    if "single" in v:
        return ["S", _t_rec(v["single"])]
    return ["P", v["plain"]]


def _t_para(p):
    return [[k, _t_val(v)] for k, v in p]


def _t_edit(e):
    op = e[0]
    if op == "r":
        return ["r", e[1], int(e[2]), _t_rec(e[3])]
    if op == "s":
        return ["s", e[1], int(e[2]), e[3], str(e[4])]
    if op in ("o", "a"):
        return [op, e[1], _t_rec(e[2])]
    if op == "=":
        return ["=", e[1], _t_val(e[2])]
    return ["d", e[1]]


def _t_obs(obs):
    st = obs["stage"]
    if st == "behav":
        return ["b", obs["err"]]
    if st == "build":
        return ["u", obs["err"]]
    if st == "dump":
        return ["D", list(obs["dumps"]), obs["err"]]
    if st == "edit":
        return ["E", list(obs["dumps"]), obs["err"]]
    d2 = packed.ok(obs["dump2"]["ok"]) if "ok" in obs["dump2"] else packed.err(obs["dump2"]["err"])
    return ["F", list(obs["dumps"]), [[k, v] for k, v in obs["raw"]], _t_para(obs["parsed"]), d2]


def emit(case, obs):
    tree = [CLASSES.index(case["cls"]),
            None if case["behav"] is None else packed.some(case["behav"]),
            bool(case["plainrec"]),
            None if case["build"] is None else packed.some(_t_para(case["build"])),
            [_t_edit(e) for e in case["edits"]],
            case["text"],
            _t_obs(obs)]
    return "pc " + packed.pack(tree)


def classify(case, obs):
    st = obs["stage"]
    if st == "full":
        res = "ok" if "ok" in obs["dump2"] else "dump2:" + obs["dump2"]["err"]
    elif st in ("dump", "edit"):
        res = "%s%d:%s" % (st, len(obs["dumps"]), obs["err"])
    else:
        res = "%s:%s" % (st, obs["err"])
    b = "" if case["cls"] != "Release" else "(%s)" % (case["behav"] or "unset")
    kind = case["kind"]
    if kind.startswith("text/"):
        kind = "text-clean" if "clean" in kind else "text"
    return "%s%s/%s/%s" % (case["cls"], b, kind, res)


def nontrivial(case, obs):
    if case["kind"] in ("wf", "wf+edits"):
        return any("multi" in v and v["multi"] for _, v in case["build"])
    return True


def _present_after(case):
    """structured fields present (as lists) after the build and after each successful edit (harness-side estimate,
    used only for the coverage report)"""
    cur = [k.lower() for k, v in case["build"] if "multi" in v]
    out = [tuple(sorted(set(cur)))]
    for e in case["edits"]:
        if e[0] == "=" and "multi" in e[2] and e[1].lower() not in cur:
            cur.append(e[1].lower())
        elif e[0] == "d" and e[1].lower() in cur:
            cur.remove(e[1].lower())
        out.append(tuple(sorted(set(cur))))
    return out


def extra_evidence(items):
    """How many distinct subsets of structured fields were present at a dump, per class."""
    seen = {}
    for c, o in items:
        if c["kind"] in ("wf", "wf+edits"):
            for s in _present_after(c):
                seen.setdefault(c["cls"], set()).add(s)
    return {"distinct_field_subsets_dumped_in_wf_cases": {k: len(v) for k, v in sorted(seen.items())}}


def shrink(case):
    b = case["build"]
    eds = case.get("edits", [])
    for i in range(len(eds)):
        yield dict(case, edits=eds[:i] + eds[i + 1:])
    if b is not None:
        for i in range(len(b)):
            yield dict(case, build=b[:i] + b[i + 1:])
        for i, (k, v) in enumerate(b):
            if "multi" in v:
                rows = v["multi"]
                for j in range(len(rows)):
                    if len(rows) > 1:
                        yield dict(case, build=b[:i] + [[k, {"multi": rows[:j] + rows[j + 1:]}]] + b[i + 1:])
                for j, row in enumerate(rows):
                    for c, (s, t) in enumerate(row):
                        if isinstance(t, int) or len(t) > 1:
                            t2 = str(t)[:1]
                            nr = row[:c] + [[s, t2]] + row[c + 1:]
                            yield dict(case, build=b[:i] + [[k, {"multi": rows[:j] + [nr] + rows[j + 1:]}]] + b[i + 1:])
            if k != k.lower():
                yield dict(case, build=b[:i] + [[k.lower(), v]] + b[i + 1:])
        if case["plainrec"]:
            yield dict(case, plainrec=False)
    else:
        lines = case["text"].splitlines(True)
        for i in range(len(lines)):
            yield dict(case, text="".join(lines[:i] + lines[i + 1:]))
        t = case["text"]
        if len(t) < 200:
            for i in range(len(t)):
                yield dict(case, text=t[:i] + t[i + 1:])
    if case["behav"] == "apt-ftparchive":
        yield dict(case, behav=None)


def describe(case, obs):
    return {"call": "p = %s(); [p.size_field_behavior = behav]; p[key] = records ...; d0 = p.dump(); "
                    "for each edit (r: p[k][i] = rec, s: p[k][i][sub] = v, o: l = p[k]; l.pop(0); l.append(rec), "
                    "a: p[k].append(rec), =: p[k] = value, d: del p[k]): apply it, dump again; "
                    "q = %s(last dump, or text); q.items(); q.dump()" % (case["cls"], case["cls"]),
            "observed": obs,
            "specified": "in every state inside the domain (every present structured field a list of >= 1 complete "
                         "records of non-empty whitespace-free values): the dump succeeds and is the documented text "
                         "with the size column right-aligned; q holds the same records in the same order and "
                         "q.dump() equals the last dump - for every subset of the class's structured fields being present"}


# ---------------------------------------------------------------------------
# TIE BY REGENERATION (DESIGN §3.1b): the control flow of the writer (_multivalued.get_as_string), of the two
# _fixed_field_lengths properties with their helpers (PdiffIndex, Release) and of the reader (_multivalued.__init__ with
# Deb822.__setitem__ / _multivalued.validate_input / Deb822.is_single_line / is_multi_line) is regenerated from the working
# tree by harness/py2coq.py into coq/Gen/TrMvLengths.v and coq/Gen/TrMultivalued.v; coq/Deb822/MvTie.v proves the
# regenerated functions equal to the model functions of coq/Deb822/Multivalued.v on all inputs; statements:
# coq/Props/C12Tie.v.  Primitives: coq/Deb822/MvTrPrims.v; the dynamic dispatch of `self._fixed_field_lengths` on the
# class of the object: coq/Deb822/MvTrDispatch.v (between the two generated files).
#
# The object is the model's `para`; its class is the leading Coq parameter `c` (self._multivalued_fields = table_of c, the
# regenerated tables of Gen/MvTables.v); `ci` = the mappings inside are Deb822Dicts (True) or plain dicts; `sfb` = the
# value of Release's private attribute __size_field_behavior.  Values of fields are dynamic (`fvalue`: str / one mapping /
# a list of mappings): the operations the code applies to them are primitives that say what each shape does.
from harness import py2coq as _P   # noqa: E402

TIE_FILE = "Props/C12Tie.v"

_LS = ("list", "str")
_CLS = ("coq", "cls")
_PARA = ("coq", "para")
_FV = ("coq", "fvalue")
_ITEM = ("coq", "trp_item")      # (= the model's `item`; the code has a VARIABLE named item)
_REC = ("coq", "record")
_TABLE = ("coq", "trp_table")
_LENS = ("coq", "trp_lengths")
_SD = ("coq", "trp_sizedict")
_UPD = ("coq", "trp_updater")
_PAIRS = ("list", ("tuple", "str", "str"))


def _lit(src):
    return ("literal", src, "tt")


def _kw(call, names):
    call.kw = list(names)
    return call


def _selfm(coq, qual, args, ret):
    c = _P.Call(coq, args, ret)
    c.selfmethod = qual
    return c


def _stprim(coq, args, ret):
    c = _P.Call(coq, args, ret)
    c.stateprim = True
    return c


# what both generated modules use: the object, its values, the class table, the {field: {"size": n}} dicts
_COMMON_CALLS = {
    "<trp_table>.__contains__": _P.Call("trp_table_contains", [_TABLE, "str"], "bool"),
    "<trp_table>.__getitem__": _P.Call("trp_table_getitem", [_TABLE, "str"], _LS, True),
    "<trp_table>.__iter__": _P.Call("trp_table_keys", [_TABLE], _LS),
    "<trp_table>.items": _P.Call("trp_table_items", [_TABLE], ("list", ("tuple", "str", _LS))),
    "<para>.__contains__": _P.Call("trp_para_contains", [_PARA, "str"], "bool"),
    "<para>.__getitem__": _P.Call("trp_para_getitem", [_PARA, "str"], _FV, True),
    "hasattr": _P.Call("trp_hasattr_keys", [_FV, _lit("'keys'")], "bool"),
    "<fvalue>.__iter__": _P.Call("trp_value_iter", [_FV], ("list", _ITEM)),
    "<trp_item>.__getitem__": _P.Call("trp_item_getitem ci", [_ITEM, "str"], "str", True),
    "str": _P.Call("trp_str", ["str"], "str"),
    "max": _P.Call("trp_max", [("list", "Z")], "Z", True),
    "<trp_sizedict>.{}": _kw(_P.Call("trp_sizedict_new", ["Z"], _SD), ["size"]),
    "<trp_sizedict>.__getitem__": _P.Call("trp_sizedict_getitem", [_SD, "str"], "Z", True),
    "<trp_lengths>.__getitem__": _P.Call("trp_lengths_getitem", [_LENS, "str"], _SD, True),
    "<trp_lengths>.__setitem__": _P.Call("trp_lengths_setitem", [_LENS, "str", _SD], "unit", mutates=True),
}
_COMMON_CONSTS = {"{}": ("trp_lengths_empty", _LENS)}

# --- module 1: PdiffIndex / Release ._fixed_field_lengths, ._get_size_field_length, Release.set_size_field_behavior
# `self._get_size_field_length` names a different method in each class: Fun.calls.  `self.size_field_behavior` is the
# property `property(lambda self: self.__size_field_behavior, set_size_field_behavior)`: its read is the private
# attribute, the leading parameter `sfb` (spec author's claim); the setter is translated in method mode on that attribute.
_GH_P = [("ci", "bool"), ("self", _PARA)]
_GH_R = [("sfb", "str"), ("ci", "bool"), ("self", _PARA)]
# self._multivalued_fields in a method of PdiffIndex / Release is that class's own table: the leading parameter `mvf`
# of the two _fixed_field_lengths (the dispatcher MvTrDispatch.v passes table_of PdiffIndex / table_of Release; the tie
# of each function holds for ANY table with distinct keys)
_MVF = [("mvf", _TABLE)]
_LOC_GSFL = {"lengths": ("list", "Z"), "item": _ITEM}
_LOC_FFL = {"fixed_field_lengths": _LENS, "key": "str", "length": "Z"}
_F_P_GSFL = _P.Fun("tr_pdiff_get_size_field_length", "PdiffIndex._get_size_field_length", [("key", "str")], "Z",
                   locals=_LOC_GSFL, ghost=_GH_P, skip_first=True)
_F_P_FFL = _P.Fun("tr_pdiff_fixed_field_lengths", "PdiffIndex._fixed_field_lengths", [], _LENS,
                  locals=_LOC_FFL, ghost=_MVF + _GH_P, skip_first=True)
_F_P_FFL.calls = {"self._get_size_field_length": _P.Call("tr_pdiff_get_size_field_length ci self", ["str"], "Z", True)}
_F_R_GSFL = _P.Fun("tr_release_get_size_field_length", "Release._get_size_field_length", [("key", "str")], "Z",
                   locals=_LOC_GSFL, ghost=_GH_R, skip_first=True)
_F_R_FFL = _P.Fun("tr_release_fixed_field_lengths", "Release._fixed_field_lengths", [], _LENS,
                  locals=_LOC_FFL, ghost=_MVF + _GH_R, skip_first=True)
_F_R_FFL.calls = {"self._get_size_field_length": _P.Call("tr_release_get_size_field_length sfb ci self", ["str"], "Z", True)}
_F_R_SET = _P.Fun("tr_set_size_field_behavior", "Release.set_size_field_behavior", [("value", "str")], "unit",
                  skip_first=True, state=[("self.__size_field_behavior", "s_sfb", "str")])

TR_MODULE_LENGTHS = _P.Module(
    "TrMvLengths", "lib/debian/deb822.py",
    funs=[_F_P_GSFL, _F_P_FFL, _F_R_GSFL, _F_R_FFL, _F_R_SET],
    calls=dict(_COMMON_CALLS, **{
        "<para>.@size_field_behavior": _P.Call("trp_size_field_behavior sfb", [_PARA], "str"),
    }),
    consts=dict(_COMMON_CONSTS, **{"self._multivalued_fields": ("mvf", _TABLE)}),
    imports=["Gen.MvTables", "Deb822.Multivalued", "Deb822.MvTrPrims"])


@extract.register("TrMvLengths")
def _gen_tr_lengths(repo):
    return _P.translate_module(repo, TR_MODULE_LENGTHS)


# --- module 2: the writer and the reader
# get_as_string: `self` is read only: a leading (ghost) parameter.  `self._fixed_field_lengths` is a property of SOME
# classes: the attribute read is `self.__getattribute__('_fixed_field_lengths')` (Module.attr_hooks), rendered by the
# dispatcher trp_fixed_field_lengths (MvTrDispatch.v): the translated property of PdiffIndex / Release, AttributeError
# (kind OtherError) for a class that does not define it.  Module.catches: in the try bodies of this module the kind
# OtherError is an AttributeError (the only producers are the dispatcher and the primitives of MvTrPrims.v that say so).
_GH_W = [("c", _CLS), ("sfb", "str"), ("ci", "bool"), ("self", _PARA)]
_F_GAS = _P.Fun("tr_get_as_string", "_multivalued.get_as_string", [("key", "str")], "str",
                locals={"keyl": "str", "fd": "strbuf", "array": ("list", _ITEM), "order": _LS, "field_lengths": _LENS,
                        "item": _ITEM, "x": "str", "raw_value": "str", "length": "Z", "value": "str"},
                ghost=_GH_W, skip_first=True)
_F_GAS.join_defines = True      # `array` (if/else) and `value` (except/else) are first assigned on every path

# the reader: METHOD MODE on the object itself (one state variable `self` : para), ghost p0 = the mapping that
# Deb822.__init__ leaves in the object for the constructor's (opaque, forwarded) arguments.
_GH_I = [("c", _CLS), ("p0", _PARA)]
_ST_SELF = [("self", "self", _PARA)]
_F_SINGLE = _P.Fun("tr_is_single_line", "Deb822.is_single_line", [("s", _FV)], "bool")
_F_MULTI = _P.Fun("tr_is_multi_line", "Deb822.is_multi_line", [("s", _FV)], "bool")
_F_VALID = _P.Fun("tr_mv_validate_input", "_multivalued.validate_input", [("key", "str"), ("value", _FV)], "unit",
                  ghost=_GH_I, skip_first=True, state=_ST_SELF)
_F_SETITEM = _P.Fun("tr_mv_setitem", "Deb822.__setitem__", [("key", "str"), ("value", _FV)], "unit",
                    ghost=_GH_I, skip_first=True, state=_ST_SELF)
_F_INIT = _P.Fun("tr_mv_init", "_multivalued.__init__", [], "unit",
                 locals={"field": "str", "fields": _LS, "contents": _FV, "updater_method": _UPD, "line": "str"},
                 ghost=_GH_I, skip_first=True, state=_ST_SELF)
_F_INIT.join_defines = True                     # updater_method is first assigned in both branches of the if
_F_INIT.forwards_varargs = "Deb822.__init__"    # Deb822.__init__(self, *args, **kwargs)

TR_MODULE = _P.Module(
    "TrMultivalued", "lib/debian/deb822.py",
    funs=[_F_GAS, _F_SINGLE, _F_MULTI, _F_VALID, _F_SETITEM, _F_INIT],
    calls=dict(_COMMON_CALLS, **{
        "<str>.lower": _P.Call("trp_lower", ["str"], "str"),
        "<str>.rstrip": _P.Call("trp_rstrip", ["str", "str"], "str"),
        "self.__getattribute__": _P.Call("trp_fixed_field_lengths c sfb ci self", [_lit("'_fixed_field_lengths'")], _LENS, True),
        "Deb822.get_as_string": _P.Call("trp_base_get_as_string", [_PARA, "str"], "str", True),
        # the reader
        "<fvalue>.count": _P.Call("trp_value_count_lf", [_FV, _lit("'\\n'")], "Z", True),
        "Deb822.is_single_line": _P.Call("tr_is_single_line", [_FV], "bool", True),
        "self.is_multi_line": _P.Call("tr_is_multi_line", [_FV], "bool", True),
        "super(_multivalued, self).validate_input": _stprim("trp_base_validate_input", ["str", _FV], "unit"),
        "self.validate_input": _selfm("tr_mv_validate_input", "_multivalued.validate_input", ["str", _FV], "unit"),
        "Deb822Dict.__setitem__": _stprim("trp_dict_setitem", [_lit("self"), "str", _FV], "unit"),
        "<para>.__setitem__": _selfm("tr_mv_setitem", "Deb822.__setitem__", ["str", _FV], "unit"),
        "Deb822.__init__": _stprim("trp_deb822_init", [_lit("self")], "unit"),
        "<fvalue>.splitlines": _P.Call("trp_value_splitlines", [_FV], _LS, True),
        "filter": _P.Call("trp_filter_none", [_lit("None"), _LS], _LS),
        "<str>.split": _P.Call("trp_split", ["str"], _LS),
        "zip": _P.Call("trp_zip", [_LS, _LS], _PAIRS),
        "Deb822Dict": [_P.Call("trp_empty_mapping", [], _FV), _P.Call("trp_record_of_pairs", [_PAIRS], _REC)],
        # updater_method = self[field].append / .update: WHICH bound method of WHICH entry (MvTrPrims.trp_updater); the
        # call runs it on the object's state
        "updater_method": _stprim("trp_call_updater updater_method", [_REC], "unit"),
    }),
    consts=dict(_COMMON_CONSTS, **{
        "self._multivalued_fields": ("(table_of c)", _TABLE),
        "self[field].append": ("(BoundAppend field)", _UPD),
        "self[field].update": ("(BoundUpdate field)", _UPD),
    }),
    imports=["Gen.MvTables", "Deb822.Multivalued", "Deb822.MvTrPrims", "Gen.TrMvLengths", "Deb822.MvTrDispatch"])
TR_MODULE.attr_hooks = {"self._fixed_field_lengths": ("self.__getattribute__", None)}
TR_MODULE.catches = {"AttributeError": (("OtherError",), ())}
# a value where an element of `array` / an iterable of items is expected; `[]` as a value
TR_MODULE.coercions = [(_FV, _ITEM, "(trp_item_of_value %s)"), (_FV, ("list", _ITEM), "(trp_value_iter %s)"),
                       ("nil", _FV, "(Multi [])")]


@extract.register("TrMultivalued")
def _gen_tr(repo):
    return _P.translate_module(repo, TR_MODULE)
