"""Validation of the shared Coq library against the Python built-ins it models.
Not a property: run by `./check LIB` (exit 2 = machinery error on disagreement)."""
from harness.core import cq_N, cq_Z, cq_bool, cq_list, cq_opt, cq_str, cq_strs

ID = "LIB"
CHECK_MODULE = "Lib.LibCheck"
PROPS_FILE = None
BUDGET = {"quick": 3000, "thorough": 30000}
RULE = "random short strings over an alphabet rich in whitespace/line-boundary characters"
ALPH = ["a", "b", "Z", " ", "\t", "\n", "\r", "\x0b", "\x0c", "\x1c", "\x1d", "\x1e", "\x85", "\xa0",
        " ", " ", "　", ".", ",", "-", "0", "9", "٣", "é", "\x1f", "​", " "]
BALPH = ["a", "b", "Z", " ", "\t", "\n", "\r", "\x0b", "\x0c", "\x1c", "\x85", "\xa0", ".", ",", "0"]


def _s(rng, alph, n=8):
    return "".join(rng.choice(alph) for _ in range(rng.randint(0, n)))


def generate(rng, n, tier):
    for k in range(n):
        t = rng.randrange(13)
        b = rng.random() < 0.4
        al = BALPH if b else ALPH
        if t == 0:
            yield {"f": "splitlines", "bytes": b, "keep": rng.random() < 0.5, "s": _s(rng, al, 10)}
        elif t == 1:
            yield {"f": "spliton", "c": rng.choice(",. a"), "s": _s(rng, ALPH)}
        elif t == 2:
            yield {"f": "splitws", "bytes": b, "s": _s(rng, al, 10)}
        elif t == 3:
            yield {"f": "strip", "bytes": b, "mode": rng.randrange(3), "s": _s(rng, al)}
        elif t == 4:
            yield {"f": "stripchars", "chars": _s(rng, "ab ,\n", 3), "s": _s(rng, "ab ,\nxy")}
        elif t == 5:
            yield {"f": "join", "sep": _s(rng, ", \n", 2), "ls": [_s(rng, "ab,", 3) for _ in range(rng.randint(0, 4))]}
        elif t == 6:
            yield {"f": "sliceassign", "l": [rng.randrange(9) for _ in range(rng.randint(0, 6))],
                   "i": rng.randint(-8, 8), "j": rng.randint(-8, 8), "r": [rng.randrange(9) for _ in range(rng.randint(0, 3))]}
        elif t == 7:
            yield {"f": "slice", "l": [rng.randrange(9) for _ in range(rng.randint(0, 6))],
                   "i": rng.randint(-8, 8), "j": rng.randint(-8, 8)}
        elif t == 8:
            yield {"f": "dec", "n": rng.choice([0, 1, 9, 10, 99, 100, 1234567890, rng.randrange(10 ** rng.randint(1, 25))])}
        elif t == 9:
            yield {"f": "lower", "s": _s(rng, "aZ@[`{mM0 ~")}
        elif t == 10:
            yield {"f": "find", "sub": _s(rng, "ab", 2), "s": _s(rng, "ab", 8)}
        elif t == 11:
            yield {"f": "isspace", "c": rng.choice([rng.randrange(0x3100), rng.randrange(256)])}
        else:
            yield {"f": "red", "c": rng.choice([rng.randrange(0x3000), rng.randrange(128), 0x663, 0x1D7CE + rng.randrange(50)])}


def from_json(j):
    return j


def run_impl(c):
    f = c["f"]
    if f == "splitlines":
        if c["bytes"]:
            return [x.decode("latin-1") for x in c["s"].encode("latin-1").splitlines(c["keep"])]
        return c["s"].splitlines(c["keep"])
    if f == "spliton":
        return c["s"].split(c["c"])
    if f == "splitws":
        if c["bytes"]:
            return [x.decode("latin-1") for x in c["s"].encode("latin-1").split()]
        return c["s"].split()
    if f == "strip":
        s = c["s"].encode("latin-1") if c["bytes"] else c["s"]
        r = [s.strip, s.lstrip, s.rstrip][c["mode"]]()
        return r.decode("latin-1") if c["bytes"] else r
    if f == "stripchars":
        return c["s"].strip(c["chars"]) if c["chars"] else c["s"]
    if f == "join":
        return c["sep"].join(c["ls"])
    if f == "sliceassign":
        l = list(c["l"])
        l[c["i"]:c["j"]] = c["r"]
        return l
    if f == "slice":
        return c["l"][c["i"]:c["j"]]
    if f == "dec":
        return "%d" % c["n"]
    if f == "lower":
        return c["s"].lower()
    if f == "find":
        r = c["s"].find(c["sub"])
        return None if r < 0 else r
    if f == "isspace":
        return chr(c["c"]).isspace()
    if f == "red":
        import re
        return re.match(r"\d", chr(c["c"])) is not None


def emit(c, o):
    f = c["f"]
    nl = lambda l: cq_list([cq_N(x) for x in l])
    if f == "splitlines":
        return "LSplitlines %s %s %s %s" % (cq_bool(c["bytes"]), cq_bool(c["keep"]), cq_str(c["s"]), cq_strs(o))
    if f == "spliton":
        return "LSplitOn %s %s %s" % (cq_N(ord(c["c"])), cq_str(c["s"]), cq_strs(o))
    if f == "splitws":
        return "LSplitWs %s %s %s" % (cq_bool(c["bytes"]), cq_str(c["s"]), cq_strs(o))
    if f == "strip":
        return "LStrip %s %s %s %s" % (cq_bool(c["bytes"]), cq_N(c["mode"]), cq_str(c["s"]), cq_str(o))
    if f == "stripchars":
        return "LStripChars %s %s %s" % (cq_str(c["chars"]), cq_str(c["s"]), cq_str(o))
    if f == "join":
        return "LJoin %s %s %s" % (cq_str(c["sep"]), cq_strs(c["ls"]), cq_str(o))
    if f == "sliceassign":
        return "LSliceAssign %s %s %s %s %s" % (nl(c["l"]), cq_Z(c["i"]), cq_Z(c["j"]), nl(c["r"]), nl(o))
    if f == "slice":
        return "LSlice %s %s %s %s" % (nl(c["l"]), cq_Z(c["i"]), cq_Z(c["j"]), nl(o))
    if f == "dec":
        return "LDec %s %s" % (cq_N(c["n"]), cq_str(o))
    if f == "lower":
        return "LLower %s %s" % (cq_str(c["s"]), cq_str(o))
    if f == "find":
        return "LFind %s %s %s" % (cq_str(c["sub"]), cq_str(c["s"]), cq_opt(o, cq_N))
    if f == "isspace":
        return "LIsSpace %s %s" % (cq_N(c["c"]), cq_bool(o))
    return "LReD %s %s" % (cq_N(c["c"]), cq_bool(o))


def classify(c, o):
    return c["f"]


def nontrivial(c, o):
    return True
