"""C14 — Version objects accept exactly valid version strings and decompose losslessly
(debian_support.BaseVersion via Version)."""
import copy
import itertools

from harness.core import cq_Z, cq_list, cq_opt, cq_str, err_kind
from harness.props import version_common as vc
from harness.props import c03 as _c03

ID = "C14"
CHECK_MODULE = "Version.ParseCheck"
PROPS_FILE = "Props/C14.v"
ANCHORS = [(vc.SRC, vc.ANCHOR_NAMES_PARSE)]
BUDGET = {"quick": 3500, "thorough": 50000}
SHARD = 400
RULE = ("construction: every string of length <= 2 (quick) / <= 4 (thorough) over "
        "0 9 a . + ~ - : _ space LF and ARABIC-INDIC DIGIT THREE, then random strings: structured valid versions, "
        "single-edit mutants of them with foreign characters, a trailing LF, empty parts, stray colons and hyphens; "
        "assignment sequences (35%): a valid initial version and 1-6 assignments to epoch / upstream_version / "
        "debian_revision / debian_version / full_version / an ordinary attribute, with valid values, invalid values "
        "('', 'a b', '1:2', '1-2', '1\\n', non-ASCII digit), None and ints, 30% of the sequences repeating one of "
        "their assignments (a refused assignment must be refused again); 25% of the random constructions are "
        "attempted twice in a row (the observation is the last attempt); every case starts from pristine "
        "class/module-level state so that its replay in a fresh interpreter observes the same; the regex leaf on its own (15%) against "
        "the live BaseVersion.re_valid_version.  non-trivial = a construction from a non-empty string, or a sequence "
        "with at least one assignment")
TRUSTED = ["model coq/Version/Parse.v is a hand transcription of BaseVersion.__init__/_set_full_version/__setattr__/"
           "_update_full_version/__getattr__/__str__; since the tie by regeneration (coq/Props/C14Tie.v) each of these is "
           "PROVED equal to the method regenerated from the source (coq/Gen/TrVersionParse.v) on all states and values; "
           "still tied by this correspondence only: the hand-written leaf for re_valid_version (lazy upstream, optional "
           "revision group, optional epoch group with fall-back), str() of None/str/int, and the slot primitives of "
           "coq/Version/ParseTrPrims.v (getattr/setattr with a computed private name, super().__setattr__/__getattribute__)",
           "for the tie: harness/py2coq.py's rendering of each construct (incl. try/except, attribute hooks, the "
           "recursion group __setattr__/_update_full_version) and the types given in TR_MODULE; coq/Lib/Tr.v",
           "character classes, end anchor and magic_attrs are regenerated from the source into coq/Gen/VersionConsts.v; "
           "the skeleton of the pattern is checked by harness/props/version_common.py, not translated"]
ASSUMPTIONS = ["apt_pkg is absent: Version = NativeVersion (BaseVersion behaviour is the same either way)",
               "assigned values are None, str or int (str(value) of other types is not modelled)",
               "an empty debian_revision means 'no revision' (the code tests truthiness; the spec reads it the same way)",
               "before each case the dict/list/set attributes of debian_support and of the classes in Version.__mro__ are "
               "restored to their import-time contents, attributes created since are removed and lru caches cleared "
               "(state kept anywhere else would leak between cases)"]

ALPH = ["0", "9", "a", ".", "+", "~", "-", ":", "_", " ", "\n", "٣"]
# every ASCII character outside the three classes of the grammar (a character class written as a range can let any of
# them in), the neighbours of the class boundaries, and some non-ASCII ones
FOREIGN = ["_", " ", "\n", "٣", "é", "۴", "/", "*", "\t", "\r", "\x00", "=",
           ",", "!", "\"", "#", "$", "%", "&", "'", "(", ")", ";", "<", ">", "?", "@", "[", "\\", "]", "^", "`", "{", "|", "}",
           "\x7f", "\x0b", "\x0c", "\u00b2", "\uff11", "\u0660"]
NAMES = ["epoch", "upstream_version", "debian_revision", "debian_version", "full_version"]
GOOD = {"epoch": ["0", "1", "01", "12", "007"],
        "upstream_version": ["1.0", "2", "1.0~rc1", "a", "1+b", "0.9.9", "10"],
        "debian_revision": ["1", "0", "1~", "2+b1", "0.1", "a"],
        "full_version": ["1.0", "1:1.0", "1.0-1", "2:3.4-5", "1-2-3", "1:2:3-4", "0", "None"]}
BAD = ["", " ", "a b", "1:2", "1-2", "1\n", "٣", "1_0", "-", ":", "1.0-", "-1", "1:", ":1", "é", "1/2", "~", "1-", "a:1"]
GOOD["debian_version"] = GOOD["debian_revision"]


def _enc(v):
    if v is None:
        return {"none": True}
    if isinstance(v, int):
        return {"i": v}
    return {"s": v}


def _dec(j):
    if "none" in j:
        return None
    if "i" in j:
        return j["i"]
    return j["s"]


def _rand_value(rng, name):
    r = rng.random()
    if r < 0.4:
        return rng.choice(GOOD.get(name, GOOD["upstream_version"]))
    if r < 0.7:
        return rng.choice(BAD)
    if r < 0.82:
        return None
    if r < 0.92:
        return rng.choice([0, 1, 5, 12, -1, 100])
    return _c03.rand_version(rng)


def _mutant(rng, s):
    k = rng.randrange(8)
    i = rng.randint(0, len(s))
    if k == 0:
        return s[:i] + rng.choice(FOREIGN) + s[i:]
    if k == 1:
        return s + "\n"
    if k == 2:
        return s[:i] + rng.choice("-:") + s[i:]
    if k == 3 and s:
        j = rng.randrange(len(s))
        return s[:j] + s[j + 1:]
    if k == 4 and s:
        j = rng.randrange(len(s))
        return s[:j] + rng.choice(FOREIGN + ["-", ":"]) + s[j + 1:]
    if k == 5:
        return rng.choice(["٣", "1٣", "", "a", "-1", "+1", " 1", "1 "]) + ":" + s
    if k == 6:
        return s + "-" + rng.choice(["", "1_", "1:", "1-", "٣", " "])
    return "".join(rng.choice(ALPH) for _ in range(rng.randint(0, 7)))


def _rand_string(rng):
    r = rng.random()
    s = _c03.rand_version(rng)
    if r < 0.45:
        return s
    if r < 0.9:
        return _mutant(rng, s)
    return _mutant(rng, _mutant(rng, s))


def generate(rng, n, tier):
    maxlen = 4 if tier == "thorough" else 2
    k = 0
    for ln in range(maxlen + 1):
        for t in itertools.product(ALPH, repeat=ln):
            yield {"kind": "new", "v": _enc("".join(t))}
            k += 1
    for v in (None, 0, 15, -3):
        yield {"kind": "new", "v": _enc(v)}
    for _ in range(max(0, n - k)):
        r = rng.random()
        if r < 0.5:
            c = {"kind": "new", "v": _enc(_rand_string(rng))}
            if rng.random() < 0.25:
                c["times"] = 2
            yield c
        elif r < 0.85:
            init = _c03.rand_version(rng)
            if rng.random() < 0.05:
                init = _mutant(rng, init)
            ops = []
            for _ in range(rng.randint(1, 6)):
                name = rng.choice(NAMES + ["upstream_version", "debian_revision", "epoch", "foo"])
                ops.append([name, _enc(_rand_value(rng, name))])
            if rng.random() < 0.3:
                # the same assignment once more: directly after itself, or at the end
                i = rng.randrange(len(ops))
                ops.insert(i + 1 if rng.random() < 0.6 else len(ops), list(ops[i]))
            yield {"kind": "seq", "init": init, "ops": ops}
        else:
            yield {"kind": "leaf", "s": _rand_string(rng)}


def from_json(j):
    return j


def _snap(v):
    return {"str": str(v), "full": v.full_version, "epoch": v.epoch, "up": v.upstream_version,
            "rev": v.debian_revision, "debver": v.debian_version}


_PRISTINE = {}


def _holders(ds):
    return [ds] + [c for c in ds.Version.__mro__ if c is not object]


def _unwrap(val):
    return getattr(val, "__func__", val)


def _reset_state(ds):
    """Every case starts from the class/module-level state of a fresh import, so that a replay file
    reproduces its observation in a new interpreter: containers are restored in place, attributes that
    appeared since the import are removed, lru caches are cleared."""
    snap = _PRISTINE.get("snap")
    if _PRISTINE.get("mod") is not ds:
        snap = []
        for h in _holders(ds):
            names = set(vars(h))
            conts = [(n, v, copy.deepcopy(v)) for n, v in list(vars(h).items())
                     if not (n.startswith("__") and n.endswith("__")) and isinstance(v, (dict, list, set))]
            snap.append((h, names, conts))
        _PRISTINE["mod"] = ds
        _PRISTINE["snap"] = snap
        return
    for h, names, conts in snap:
        for n in [n for n in vars(h) if n not in names]:
            try:
                delattr(h, n)
            except Exception:
                pass
        for n, obj, pristine in conts:
            if obj != pristine:
                obj.clear()
                if isinstance(obj, list):
                    obj.extend(copy.deepcopy(pristine))
                else:
                    obj.update(copy.deepcopy(pristine))
            if vars(h).get(n) is not obj:
                try:
                    setattr(h, n, obj)
                except Exception:
                    pass
        for v in list(vars(h).values()):
            cc = getattr(_unwrap(v), "cache_clear", None)
            if callable(cc):
                try:
                    cc()
                except Exception:
                    pass


def run_impl(case):
    from debian import debian_support as ds
    _reset_state(ds)
    k = case["kind"]
    if k == "new":
        out = None
        for _ in range(max(1, int(case.get("times", 1)))):
            try:
                out = {"ok": _snap(ds.Version(_dec(case["v"])))}
            except Exception as e:
                out = {"err": err_kind(e)}
        return out
    if k == "seq":
        try:
            v = ds.Version(case["init"])
        except Exception as e:
            return {"err": err_kind(e)}
        s0 = _snap(v)
        steps = []
        for name, val in case["ops"]:
            out = None
            try:
                setattr(v, name, _dec(val))
            except Exception as e:
                out = err_kind(e)
            steps.append([out, _snap(v)])
        return {"ok": s0, "steps": steps}
    if k == "leaf":
        m = ds.BaseVersion.re_valid_version.match(case["s"])
        if not m:
            return {"m": None}
        return {"m": [m.group("epoch"), m.group("upstream_version"), m.group("debian_revision")]}
    raise ValueError(k)


def _aval(j):
    if "none" in j:
        return "ANone"
    if "i" in j:
        return "(AInt %s)" % cq_Z(j["i"])
    return "(AStr %s)" % cq_str(j["s"])


def _ostr(x):
    if x is not None and not isinstance(x, str):
        raise ValueError("non-str attribute value %r" % (x,))
    return cq_opt(x, cq_str)


def _snap_term(s):
    return "(mkS %s %s %s %s %s %s)" % (cq_str(s["str"]), _ostr(s["full"]), _ostr(s["epoch"]), _ostr(s["up"]),
                                        _ostr(s["rev"]), _ostr(s["debver"]))


def emit(case, obs):
    k = case["kind"]
    if k == "new":
        o = "(Err %s)" % obs["err"] if "err" in obs else "(Ok %s)" % _snap_term(obs["ok"])
        return "CNew %s %s" % (_aval(case["v"]), o)
    if k == "seq":
        ops = cq_list(["(%s, %s)" % (cq_str(nm), _aval(v)) for nm, v in case["ops"]])
        if "err" in obs:
            o = "(Err %s)" % obs["err"]
        else:
            steps = cq_list(["(%s, %s)" % (cq_opt(out), _snap_term(s)) for out, s in obs["steps"]])
            o = "(Ok (%s, %s))" % (_snap_term(obs["ok"]), steps)
        return "CSeq %s %s %s" % (cq_str(case["init"]), ops, o)
    if k == "leaf":
        m = obs["m"]
        g = "None" if m is None else "(Some (%s, %s, %s))" % (_ostr(m[0]), cq_str(m[1]), _ostr(m[2]))
        return "CLeaf %s %s" % (cq_str(case["s"]), g)
    raise ValueError(k)


def _sclass(s):
    if not isinstance(s, str):
        return "nonstr"
    tags = []
    if any(c not in "0123456789abcdefghijklmnopqrstuvwxyzABCDEFGHIJKLMNOPQRSTUVWXYZ.+~-:" for c in s):
        tags.append("foreign")
    if ":" in s:
        tags.append("colon")
    if "-" in s:
        tags.append("hyphen")
    return "+".join(tags) or "plain"


def classify(case, obs):
    k = case["kind"]
    if k == "new":
        return "new%s/%s/%s" % ("x2" if case.get("times", 1) > 1 else "", _sclass(_dec(case["v"])),
                                "ok" if "ok" in obs else obs["err"])
    if k == "seq":
        if "err" in obs:
            return "seq/init-" + obs["err"]
        outs = sorted({(o or "ok") for o, _ in obs["steps"]})
        return "seq/%d/%s" % (min(len(case["ops"]), 3), "+".join(outs))
    return "leaf/%s/%s" % (_sclass(case["s"]), "match" if obs["m"] else "nomatch")


def nontrivial(case, obs):
    k = case["kind"]
    if k == "new":
        return bool(_dec(case["v"]))
    if k == "seq":
        return "ok" in obs and len(case["ops"]) > 0
    return True


def _cuts(s):
    """s with a chunk removed: halves and quarters first, then single characters"""
    n = len(s)
    seen = set()
    for size in (n // 2, n // 4, 2, 1):
        if size < 1:
            continue
        for i in range(0, n - size + 1, max(1, size // 2) if size > 2 else 1):
            t = s[:i] + s[i + size:]
            if t not in seen:
                seen.add(t)
                yield t


def shrink(case):
    k = case["kind"]
    if k == "new" and case.get("times", 1) > 1:
        yield {"kind": "new", "v": case["v"]}
    if k == "new" and "s" in case["v"]:
        s = case["v"]["s"]
        for u in _cuts(s):
            yield dict(case, v={"s": u})
        for i in range(len(s)):
            if s[i] not in "1a":
                yield dict(case, v={"s": s[:i] + "1" + s[i + 1:]})
    if k == "seq":
        ops = case["ops"]
        for i in range(len(ops)):
            yield dict(case, ops=ops[:i] + ops[i + 1:])
        s = case["init"]
        for u in _cuts(s):
            yield dict(case, init=u)
        for i, (nm, v) in enumerate(ops):
            if "s" in v:
                # the same cut in every assignment of the same value (keeps a repetition a repetition)
                for u in _cuts(v["s"]):
                    yield dict(case, ops=[[n2, {"s": u}] if (n2 == nm and v2 == v) else [n2, v2] for n2, v2 in ops])
                for u in _cuts(v["s"]):
                    yield dict(case, ops=ops[:i] + [[nm, {"s": u}]] + ops[i + 1:])
    if k == "leaf":
        for u in _cuts(case["s"]):
            yield dict(case, s=u)


def neighbours(case, rng):
    k = case["kind"]
    s = case["v"].get("s") if k == "new" else case.get("s") if k == "leaf" else None
    if s is None:
        return
    for i in range(len(s) + 1):
        for ch in ALPH:
            t = s[:i] + ch + s[i:]
            yield {"kind": "new", "v": {"s": t}}
    for i in range(len(s)):
        yield {"kind": "new", "v": {"s": s[:i] + s[i + 1:]}}


def describe(case, obs):
    k = case["kind"]
    if k == "new":
        return {"call": "Version(v)%s; then str(), full_version, epoch, upstream_version, debian_revision, debian_version"
                        % (" attempted %d times in a row in one interpreter, the last attempt is what is observed"
                           % case["times"] if case.get("times", 1) > 1 else ""),
                "v": _dec(case["v"]), "observed": obs,
                "specified": "constructs iff v is a valid version by the Policy grammar (coq/Version/ParseSpec.v "
                             "valid_spec); str() == v; components = cut at the first colon / last hyphen"}
    if k == "seq":
        return {"call": "v = Version(init); setattr(v, name, value) in turn, snapshot after each",
                "init": case["init"], "ops": [[nm, _dec(v)] for nm, v in case["ops"]], "observed": obs,
                "specified": "each assignment: the recomposed version is valid -> the object is exactly that version; "
                             "otherwise ValueError and the object exactly as before"}
    return {"leaf": "BaseVersion.re_valid_version.match", "s": case["s"], "observed": obs}


# ---------------------------------------------------------------------------------------------------
# TIE BY REGENERATION (DESIGN §3.1b): the methods of BaseVersion that the model transcribes are regenerated from
# lib/debian/debian_support.py into coq/Gen/TrVersionParse.v on every run (harness/py2coq.py); coq/Version/ParseTie.v
# proves each equal to the model function of coq/Version/Parse.v on ALL states and values; statements in
# coq/Props/C14Tie.v.
#
# How the object is rendered
# * _set_full_version, __setattr__, _update_full_version, __init__: METHOD MODE.  The state is the four private
#   attributes (self.__full_version, __epoch, __upstream_version, __debian_revision); the result is
#   `mres unit state` (state returned on an exception too).
# * `self.full_version = e` (in _update_full_version and __init__) is NOT a store: the class serves that name
#   through __setattr__.  Module.attr_hooks renders it as the statement `self.__setattr__("full_version", e)`, a call
#   of the TRANSLATED __setattr__ on the current state.  __setattr__ in turn calls self._update_full_version():
#   the two form a recursion group (Fun.rec_group) = one mutual Fixpoint on explicit fuel; the tie shows fuel 3 (2)
#   is enough (the "full_version" branch of __setattr__ does not come back).
# * `self.full_version` read (in __str__) is served by __getattr__: rendered as `self.__getattr__("full_version")`,
#   a call of the translated __getattr__.
# * __getattr__ and __str__ only read the object: they are translated as plain functions of the four attribute
#   values (ghost parameters with the names of the state variables; a store in them would fail the translation
#   closed) returning `result`.  The renderings of getattr / __getattr__ / super().__getattribute__ name these
#   four variables in their Coq text: in method mode they are the state variables (always bound to the current
#   state), in __getattr__/__str__ the ghost parameters.
# * try/except in __setattr__: translated (py2coq._try): the handler runs on the state that `MErr e st` carries.
# * getattr(self, private) / setattr(self, private, v) with the computed name "_BaseVersion__%s" % attr and
#   super().__setattr__/__getattribute__: primitives over the state variables keyed by the name string
#   (coq/Version/ParseTrPrims.v, from the model's put_private/getattr).  (In Python setattr(self, private, v) itself goes
#   through BaseVersion.__setattr__, whose first branch hands a non-magic name to object.__setattr__; the primitive is
#   that store.  Likewise `self.__epoch = …` in _set_full_version is a plain state write of method mode.)
# * values are dynamic: None / str / int = `option nnval`; `str` injects by NStr (Module.coercions).
from harness import extract, py2coq as _P   # noqa: E402

_NN = ("coq", "nnval")
_ONN = ("option", _NN)
_VM = ("coq", "vmatch")
_OSTR = ("option", "str")
_ST = [("self.__full_version", "s_full", "str"), ("self.__epoch", "s_ep", _OSTR),
       ("self.__upstream_version", "s_up", _OSTR), ("self.__debian_revision", "s_rev", _OSTR)]
_STG = [(v, t) for _, v, t in _ST]          # the same four values as ghost parameters (read-only methods)
_STV = " ".join(v for _, v, _ in _ST)
_SELF = ("literal", "self", "tt")


def _m(coq, name, params, ret, **kw):
    return _P.Fun(coq, "BaseVersion." + name, params, ret, skip_first=True, state=_ST, **kw)


def _selfm(coq, name, args, ret):
    c = _P.Call(coq, args, ret)
    c.selfmethod = "BaseVersion." + name
    return c


def _stprim(coq, args, ret):
    c = _P.Call(coq, args, ret)
    c.stateprim = True
    return c


_f_set_full = _m("tr_set_full_version", "_set_full_version", [("version", "str")], "unit",
                 locals={"m": ("option", _VM)})
_f_set_full.narrow = True       # `if not m: raise`: m is the match object below
_f_setattr = _m("tr_setattr", "__setattr__", [("attr", "str"), ("value", _ONN)], "unit",
                locals={"private": "str", "old_value": _ONN})
_f_update = _m("tr_update_full_version", "_update_full_version", [], "unit", locals={"version": "str"})
for _f, _fuel in ((_f_setattr, "3"), (_f_update, "2")):
    _f.rec_group, _f.rec_fuel = "setattr", _fuel

TR_MODULE = _P.Module(
    "TrVersionParse", vc.SRC,
    funs=[
        _f_set_full,
        _f_setattr,
        _f_update,
        _m("tr_init", "__init__", [("version", _ONN)], "unit"),
        _P.Fun("tr_getattr", "BaseVersion.__getattr__", [("attr", "str")], _ONN, locals={"private": "str"},
               skip_first=True, ghost=_STG),
        _P.Fun("tr_str", "BaseVersion.__str__", [], _ONN, skip_first=True, ghost=_STG),
    ],
    calls={
        "self.re_valid_version.match": _P.Call("trp_match_version", ["str"], ("option", _VM)),
        "<vmatch>.group": [
            _P.Call("trp_group_epoch", [_VM, ("literal", "'epoch'", "tt")], _OSTR),
            _P.Call("trp_group_upstream", [_VM, ("literal", "'upstream_version'", "tt")], "str"),
            _P.Call("trp_group_revision", [_VM, ("literal", "'debian_revision'", "tt")], _OSTR)],
        "str": _P.Call("trp_str_opt", [_ONN], "str"),
        "isinstance": _P.Call("trp_isinstance_BaseVersion", [_ONN, ("literal", "BaseVersion", "tt")], "bool"),
        "getattr": _P.Call("trp_getattr " + _STV, [_SELF, "str"], _ONN, True),
        "setattr": _stprim("trp_setattr", [_SELF, "str", _ONN], "unit"),
        "super(BaseVersion, self).__setattr__": _stprim("trp_super_setattr", ["str", _ONN], "unit"),
        "super(BaseVersion, self).__getattribute__": _P.Call("trp_super_getattribute " + _STV, ["str"], _ONN, True),
        "self._set_full_version": _selfm("tr_set_full_version", "_set_full_version", ["str"], "unit"),
        "self._update_full_version": _selfm("tr_update_full_version", "_update_full_version", [], "unit"),
        "self.__setattr__": _selfm("tr_setattr", "__setattr__", ["str", _ONN], "unit"),
        "self.__getattr__": _P.Call("tr_getattr " + _STV, ["str"], _ONN, True),
    },
    consts={"self.magic_attrs": ("trp_magic_attrs", ("list", "str"))},
    imports=["Version.Parse", "Version.ParseTrPrims"],
    regexes=[("BaseVersion.re_valid_version",
              r"^((?P<epoch>[0-9]+):)?(?P<upstream_version>[A-Za-z0-9.+:~-]+?)(-(?P<debian_revision>[A-Za-z0-9+.~]+))?\Z")])
TR_MODULE.attr_hooks = {"self.full_version": ("self.__getattr__", "self.__setattr__")}
TR_MODULE.coercions = [("str", _NN, "(NStr %s)")]


@extract.register("TrVersionParse")
def _gen_tr(repo):
    return _P.translate_module(repo, TR_MODULE)


TIE_FILE = "Props/C14Tie.v"
