"""C08 — An accepted field value can never inject fields or split the paragraph.

Public API driven: p = Deb822(); p[k] = v (accept / ValueError, names and values
afterwards); p.dump(); Deb822.iter_paragraphs(text | io.StringIO(text),
strict={'whitespace-separates-paragraphs': False} | default).
"""
import io
import itertools
import random

from harness.core import cq_list, cq_str, err_kind

ID = "C08"
CHECK_MODULE = "Deb822.InjectCheck"
PROPS_FILE = "Props/C08.v"
# validate_input / __setitem__ / the reader and the writer that C08 is about are regenerated and tied in C02's tie file
TIE_FILE = "Props/C02Tie.v"
ANCHORS = [("lib/debian/deb822.py",
            ["Deb822", "Deb822Dict", "_multivalued", "validate_input", "__setitem__", "_key_part", "_single", "_multi", "_multidata",
             "_internal_parser", "_dump_format", "_dump_str", "dump", "get_as_string",
             "_gpgre", "_initial_blank_line", "_blank_line_whitespace", "_blank_line_no_whitespace",
             "split_gpg_and_payload", "_skip_useless_lines", "iter_paragraphs"]),
           ("lib/debian/_util.py", ["_CaseInsensitiveString", "OrderedSet"])]
BUDGET = {"quick": 1200, "thorough": 5000}
RULE = ("a case = 1-5 assignments p[k] = v on a fresh Deb822() (0-4 existing fields with accepted realistic values - "
        "multi-line, CR/CRLF inside, blank or whitespace-only first line, whitespace-only continuation line - then the "
        "assignment under test: a new name, or an existing name in the same or another case at the first / a middle / "
        "the last position so that fields follow it; sometimes one more field afterwards), then p.dump() re-read "
        "through iter_paragraphs as str and as io.StringIO, with whitespace-separates-paragraphs False and default. "
        "Values under test: every string over the eight symbols a : # SP TAB CR LF - up to length 3 (quick) / 5 "
        "(thorough, 37449 values), rotated over four paragraph templates; random strings of length 6-14 over the same "
        "symbols; realistic control-file text (descriptions with ' .' lines, dependency lists, injection attempts "
        "'1.0\\nInjected: yes', '\\n\\nPackage: evil', CR / CRLF variants, PGP armour lines, comment lines, trailing "
        "LF) and their single/double-edit mutants; a separate out-of-domain stream (8%): values containing NBSP, VT, "
        "FF, FS, NEL, LS, U+3000 or names containing ':' / blank / leading '#' - agree is demanded there, holds is "
        "vacuous.  non-trivial = the value under test contains LF or CR, or is rejected")
TRUSTED = ["model coq/Deb822/Model.v is a hand transcription of Deb822.validate_input/__setitem__/_dump_format/"
           "iter_paragraphs/_skip_useless_lines/split_gpg_and_payload/_internal_parser and Deb822Dict.__setitem__ "
           "(regex leaves match_single/match_multi/match_multidata/match_gpgre included); tied to the code only by this "
           "correspondence (the leaves are also compared one by one with the live compiled patterns by check C02)",
           "Python str.splitlines/strip/endswith as modelled in coq/Lib/PyStr.v (validated by ./check LIB)",
           "io.StringIO yields LF-terminated lines: modelled by Model.file_lines",
           "Props/C08.v proves InjectCheck.agree c = true -> InjectCheck.holds c = true for every case: a holds failure "
           "on the implementation always comes with an agree failure"]
ASSUMPTIONS = ["field names are compared by ASCII lower-casing; generated names are ASCII or caseless non-ASCII",
               "the property's domain: names without ':' / Python whitespace / Python line boundaries and not starting "
               "with '#', pairwise distinct ignoring case; values over printable text, ':', '#', SP, TAB, CR, LF "
               "(c08_dom); outside it holds is vacuous and only the correspondence is checked",
               "fields=None; apt_pkg absent (internal parser)",
               "to keep the case files small the emitter writes the mapping only after the last assignment, after a "
               "refused one and before a refused one, and writes a re-read only when it differs from the previous "
               "form (InjectCheck.agree demands exactly these records)"]

SYMS = ["a", ":", "#", " ", "\t", "\r", "\n", "-"]
OUT_SYMS = ["\u00a0", "\x0b", "\x0c", "\x1c", "\x85", "\u2028", "\u3000", "\x1f", "\u2003", "\x1d"]
NAMES = ["Package", "Version", "Description", "X-Foo", "a", "Z9", "!odd~name", "Depends", "x/y", "Homepage",
         "UPPER", "lower", "Mixed-Case", "-dash", "-----BEGIN", "é", "K.k", "b+c", "_u", "Q?", "a#b", "日本"]
BAD_NAMES = ["a b", "a:b", "#c", "a ", ":", " a", "a\tb", "k ", "", "a\x0c", " b"]
EXISTING = ["x", "1.0-1", "foo (>= 1), bar", "", " ", "short\n long line\n .\n more", "\n a\n b", "a\r b",
            "a\r\n b", "v \t", "  lead", "x\n \n y", "x\n  \n y", "x\n\t\n y", ":x", "#x", "-x", "a: b",
            "one\n two: 2\n three", "\r", "x\r", "\r\n z", "x\n .", "x\n \r\n y", "x\n -----BEGIN PGP SIGNATURE-----",
            "-----BEGIN PGP SIGNED MESSAGE-----", "é ü", "a\n #c", "a\r\t\r b"]
REALISTIC = ["1.0\nInjected: yes", "1.0\n\nPackage: evil", "1.0\n \nPackage: evil", "x\n", "x\n y\n", "x\r\nInjected: yes",
             "x\rInjected: y", "x\n\tInjected: y", "x\n Injected: y", "x\n -----BEGIN PGP SIGNATURE-----",
             "x\n-----BEGIN PGP SIGNATURE-----", "-----BEGIN PGP SIGNED MESSAGE-----", "x\n#comment", "x\n #comment",
             "x\n \n-----BEGIN PGP SIGNED MESSAGE-----\n \n y", "short description\n long text\n .\n second part",
             "libc6 (>= 2.34),\n libfoo1 (= ${binary:Version}),\n ${misc:Depends}", "\n a.txt\n b.txt", "\n\n a",
             "a\n\n b", "a\n b\n\n", "a\r\r b", "a\n\r b", "a\r\n\r\n b", "a\r \r b", "a\n  \n b", "a\n \t \n b",
             "a\n .\n b", "K: v", ": v", "#", "a\n:b", "a\n :b", "a\n b:", "a \n b ", "\ta", "a\n\tb\n c", "\n",
             "\r\n", "a\r\n", "a\n \r", "a\n\r", " \n a", "\t\r a", "a\n b\r", "a\n \r b", "x\n \n", "x\n ",
             "x\n  ", "x\n\t", "x\r ", "x\r\t\ry", "x\r\t\r y"]


def _exhaustive(maxlen):
    for L in range(0, maxlen + 1):
        for t in itertools.product(SYMS, repeat=L):
            yield "".join(t)


def _template(i, v):
    """Rotate the value under test over four paragraph shapes; returns (ops, index of the op under test)."""
    m = i % 4
    if m == 0:
        return [["K", v]], 0
    if m == 1:
        return [["A", "x"], ["B", "y\n z"], ["a", v]], 2
    if m == 2:
        return [["A", "x"], ["B", "y"], ["C", "z"], ["b", v]], 3
    return [["A", "x"], ["New", v], ["C", "w"]], 1


def _mutate(rng, s, alpha):
    if not s:
        return rng.choice(alpha)
    i = rng.randrange(len(s) + 1)
    r = rng.random()
    if r < 0.4:
        return s[:i] + rng.choice(alpha) + s[i:]
    if r < 0.7:
        return s[:i] + s[i + 1:]
    return s[:i] + rng.choice(alpha) + s[i + 1:]


def _gen_fields(rng):
    names = []
    for _ in range(rng.choice([0, 1, 1, 2, 2, 3, 3, 4])):
        nm = rng.choice(NAMES)
        if nm.lower() in [x.lower() for x in names]:
            continue
        names.append(nm)
    return [[nm, rng.choice(EXISTING)] for nm in names]


def _gen_value(rng):
    """-> (value, source tag)"""
    r = rng.random()
    if r < 0.30:
        return "".join(rng.choice(SYMS) for _ in range(rng.randint(6, 14))), "rand"
    if r < 0.55:
        return rng.choice(REALISTIC), "real"
    if r < 0.65:
        return rng.choice(EXISTING), "real"
    if r < 0.92:
        s = _mutate(rng, rng.choice(REALISTIC + EXISTING), SYMS)
        if rng.random() < 0.4:
            s = _mutate(rng, s, SYMS)
        return s, "mut"
    s = rng.choice(REALISTIC + EXISTING)
    for _ in range(rng.choice([1, 1, 2])):
        s = _mutate(rng, s, OUT_SYMS)
    return s, "outdom"


def _gen_random(rng):
    fields = _gen_fields(rng)
    v, src = _gen_value(rng)
    r = rng.random()
    if fields and r < 0.6:
        j = rng.randrange(len(fields))
        if rng.random() < 0.5:
            j = 0
        k = fields[j][0]
        if rng.random() < 0.5 and k.isascii():
            k = k.swapcase()
        where = "first" if j == 0 and len(fields) > 1 else "last" if j == len(fields) - 1 else "mid"
    elif r < 0.97:
        k = rng.choice([n for n in NAMES if n.lower() not in [f[0].lower() for f in fields]])
        where = "new"
    else:
        k = rng.choice(BAD_NAMES)
        where = "new"
        src = "badkey"
    ops = fields + [[k, v]]
    t = len(fields)
    if rng.random() < 0.2:
        used = [o[0].lower() for o in ops]
        more = [n for n in NAMES if n.lower() not in used]
        ops = ops + [[rng.choice(more), rng.choice(EXISTING)]]
    return {"ops": ops, "t": t, "src": src, "where": where}


def generate(rng, n, tier):
    # FIRST (before any value has been seen by the library in this process): cases whose strings were assigned
    # before to multivalued fields of OTHER objects, which accept anything.  If something leaks between objects
    # the earliest failing case then carries the flag and replays on its own.
    rng2 = random.Random(rng.random())
    for _ in range(max(20, n // 16)):
        c = _gen_random(rng2)
        c["pre_mv"] = True
        yield c
    maxlen = 5 if tier == "thorough" else 3
    for i, v in enumerate(_exhaustive(maxlen)):
        ops, t = _template(i, v)
        yield {"ops": ops, "t": t, "src": "exh", "where": ["new", "first", "mid", "new"][i % 4]}
    for v in REALISTIC:
        yield {"ops": [["A", "x"], ["B", "y"], ["a", v]], "t": 2, "src": "real", "where": "first"}
    for _ in range(n):
        c = _gen_random(rng)
        if rng.random() < 0.10:
            # the paragraph object comes from an input without any content line instead of Deb822()
            c["start"] = rng.randrange(len(START_FORMS))
        r = rng.random()
        if r < 0.12:
            # "a Deb822 paragraph" includes the subclasses; their structured (multivalued) fields are C12's, every
            # other name — also ones that merely LOOK like a structured field — is an ordinary field here
            c["cls"] = rng.randrange(1, len(CLASSES))
            mv = MV_NAMES
            lookalikes = ["Checksums-Sha384", "Checksums-Md5x", "Files-Extra", "Checksum", "X-Files", "SHA256x", "MD5Summary"]
            c["ops"] = [[k if k.lower() not in mv else "X-" + k, v] for k, v in c["ops"]]
            if rng.random() < 0.6:
                c["ops"][c["t"]][0] = rng.choice(lookalikes)
                c["ops"] = c["ops"][:c["t"] + 1] if any(o[0].lower() == c["ops"][c["t"]][0].lower() for o in c["ops"][:c["t"]]) else c["ops"]
        elif r < 0.30:
            # equivalent ways of assigning: setdefault on an absent name, update with a one-entry mapping / pair list
            seen, forms = set(), []
            for k, _ in c["ops"]:
                absent = k.lower() not in seen
                forms.append(rng.choice(["set", "setdefault", "update", "update_pairs"] + (["ctor_copy"] * 2 if not seen else [])
                                        if absent else ["set", "update", "update_pairs"]))
                seen.add(k.lower())
            c["forms"] = forms
        if rng.random() < 0.15:
            c["dumpform"] = rng.choice([1, 2])     # dump(BytesIO()) / dump(StringIO(), text_mode=True)
        yield c


CLASSES = ["Deb822", "Dsc", "Changes", "Packages", "Sources", "BuildInfo"]
MV_NAMES = {"files", "checksums-sha1", "checksums-sha256", "checksums-sha512", "checksums-md5", "md5sum", "sha1", "sha256",
            "sha512", "sha1-history", "sha256-history", "sha1-patches", "sha256-patches", "sha1-download",
            "sha256-download", "package-list", "installed-build-depends", "environment"}

START_FORMS = [lambda: "", lambda: [], lambda: "\n", lambda: "#c\n", lambda: b"", lambda: io.StringIO(""),
               lambda: ["#only a comment"], lambda: " \n\t\n", lambda: io.BytesIO(b"\n\n")]


def _earlier_multivalued(ops):
    from debian import deb822
    for cls, field in ((deb822.Dsc, "Files"), (deb822.Changes, "Checksums-Sha1"), (deb822.Release, "MD5Sum")):
        for _, v in ops:
            for f in (lambda: cls().__setitem__(field, v), lambda: cls({field: v}), lambda: cls({"Source": "x", field: v}).dump()):
                try:
                    f()
                except Exception:
                    pass


def from_json(j):
    j = dict(j)
    j.setdefault("t", len(j["ops"]) - 1)
    j.setdefault("src", "corpus")
    j.setdefault("where", "?")
    return j


# ---------------------------------------------------------------------------
# implementation driver

def _read(text, strict, as_file):
    from debian import deb822
    try:
        src = io.StringIO(text) if as_file else text
        ps = list(deb822.Deb822.iter_paragraphs(src, strict=strict))
        res = [[[k, p[k]] for k in p] for p in ps]
        for p in res:
            for k, v in p:
                if not isinstance(k, str) or not isinstance(v, str):
                    raise TypeError("non-str field in observation")
        return {"ok": res}
    except Exception as e:
        return {"err": err_kind(e)}


def _state(p):
    """The mapping as the public API shows it; a key whose value cannot be read is recorded with a marker value
    (no model state contains it), so that a half-registered field is seen by agree and holds."""
    out = []
    for kk in p:
        try:
            out.append([str(kk), p[kk]])
        except Exception as exc:
            out.append([str(kk), "\x00<%s>" % err_kind(exc)])
    if len(p) != len(out):
        out.append(["\x00<len>", str(len(p))])
    return out


def run_impl(case):
    from debian import deb822
    if case.get("pre_mv"):
        _earlier_multivalued(case["ops"])
    klass = getattr(deb822, CLASSES[case.get("cls", 0)])
    p = klass() if case.get("start") is None else klass(START_FORMS[case["start"]]())
    steps = []
    forms = case.get("forms") or ["set"] * len(case["ops"])
    for j, ((k, v), form) in enumerate(zip(case["ops"], forms)):
        try:
            if form == "ctor_copy" and j == 0 and len(p) == 0:
                # the first field arrives through the constructor, copied from a plain (never validating)
                # Deb822Dict: Deb822(mapping) must validate it like an assignment
                src = deb822.Deb822Dict()
                src[k] = v
                p2 = klass(src)
                p = p2
            elif form == "setdefault":
                p.setdefault(k, v)
            elif form == "update":
                p.update({k: v})
            elif form == "update_pairs":
                p.update([(k, v)])
            else:
                p[k] = v
            e = None
        except Exception as exc:
            e = err_kind(exc)
        steps.append([e, _state(p)])
    try:
        text = p.dump()
        df = case.get("dumpform", 0)
        if df:
            # the file forms of dump() write the same text
            fd = io.BytesIO() if df == 1 else io.StringIO()
            p.dump(fd) if df == 1 else p.dump(fd, text_mode=True)
            written = fd.getvalue().decode("utf-8") if df == 1 else fd.getvalue()
            if written != text:
                text = written if isinstance(written, str) else "\x00<dump(fd) wrote non-text>"
    except Exception as exc:       # dump() of a paragraph built by accepted assignments must not raise
        text = "\x00<dump raised %s>" % err_kind(exc)
    if not isinstance(text, str):
        raise TypeError("dump() did not return str")
    nows = {"whitespace-separates-paragraphs": False}
    return {"steps": steps, "dump": text,
            "nows_str": _read(text, nows, False), "nows_file": _read(text, nows, True),
            "ws_str": _read(text, None, False), "ws_file": _read(text, None, True)}


# ---------------------------------------------------------------------------
# emitter

def _cq_dict(d):
    return cq_list(["(%s, %s)" % (cq_str(k), cq_str(v)) for k, v in d])


def _cq_res(res):
    if "ok" in res:
        return "(Ok %s)" % cq_list([_cq_dict(d) for d in res["ok"]])
    return "(Err %s)" % res["err"]


def _recorded(steps):
    """Which states go into the case file: the last one, those after a refusal and those before a refusal."""
    n = len(steps)
    keep = set()
    if n:
        keep.add(n - 1)
    for i, (e, _) in enumerate(steps):
        if e is not None:
            keep.add(i)
            if i > 0:
                keep.add(i - 1)
    return keep


def emit(case, obs):
    steps = obs["steps"]
    keep = _recorded(steps)
    errs = cq_list(["None" if e is None else "Some %s" % e for e, _ in steps])
    states = cq_list(["(Some %s)" % _cq_dict(d) if i in keep else "None" for i, (_, d) in enumerate(steps)])

    def shared(r, base):
        return "None" if r == base else "(Some %s)" % _cq_res(r)

    return "mk %s %s %s %s %s %s %s %s" % (
        _cq_dict(case["ops"]), errs, states, cq_str(obs["dump"]),
        _cq_res(obs["nows_str"]), shared(obs["nows_file"], obs["nows_str"]),
        shared(obs["ws_str"], obs["nows_str"]), shared(obs["ws_file"], obs["ws_str"]))


# ---------------------------------------------------------------------------
# classification (independent re-statement of the value classes, for the histogram only)

def _lines(v):
    return v.replace("\r\n", "\n").replace("\r", "\n").split("\n")


def _reason(v):
    if v.endswith("\n"):
        return "endlf"
    ls = _lines(v)
    if ls and ls[-1] == "" and len(ls) > 1:
        ls = ls[:-1]
    for l in ls[1:]:
        if l == "":
            return "emptyline"
    for l in ls[1:]:
        if l[0] not in " \t":
            return "nows"
    return None


def _in_dom(s):
    return all(c in "\n\r\t " or not (c.isspace() or len((c + "x").splitlines()) > 1 or len(("x" + c + "x").splitlines()) > 1)
               for c in s)


def classify(case, obs):
    t = min(case["t"], len(case["ops"]) - 1)
    k, v = case["ops"][t]
    e = obs["steps"][t][0]
    out = "acc" if e is None else "rej"
    if not _in_dom(v):
        cls = "outdom"
    else:
        r = _reason(v)
        if r:
            cls = r
        else:
            ls = _lines(v)[1:]
            cls = "multi" if ls else "single"
            if any(l.strip(" \t") == "" for l in ls):
                cls += "+blankcont"
            if "\r" in v:
                cls += "+cr"
    n = min(len(obs["nows_str"].get("ok", [])), 3) if "ok" in obs["nows_str"] else obs["nows_str"]["err"]
    w = min(len(obs["ws_str"].get("ok", [])), 3) if "ok" in obs["ws_str"] else obs["ws_str"]["err"]
    return "%s/%s/%s/%s/nows%s/ws%s" % (case["src"], case.get("where", "?"), out, cls, n, w)


def nontrivial(case, obs):
    t = min(case["t"], len(case["ops"]) - 1)
    v = case["ops"][t][1]
    return ("\n" in v) or ("\r" in v) or obs["steps"][t][0] is not None


def shrink(case):
    ops = case["ops"]
    t = case["t"]
    for i in range(len(ops)):
        if len(ops) > 1:
            nt = t - 1 if i < t else t
            yield dict(case, ops=ops[:i] + ops[i + 1:], t=max(0, min(nt, len(ops) - 2)))
    for i, (k, v) in enumerate(ops):
        for j in range(len(v)):
            yield dict(case, ops=ops[:i] + [[k, v[:j] + v[j + 1:]]] + ops[i + 1:])
        if len(v) > 3:
            yield dict(case, ops=ops[:i] + [[k, v[:len(v) // 2]]] + ops[i + 1:])
            yield dict(case, ops=ops[:i] + [[k, v[len(v) // 2:]]] + ops[i + 1:])
    for i, (k, v) in enumerate(ops):
        if len(k) > 1 and k.lower() not in ("a", "b"):
            low = [o[0].lower() for o in ops]
            for nk in ("A", "B", "C", "D", "E"):
                if nk.lower() not in low:
                    yield dict(case, ops=[[nk if o[0].lower() == k.lower() else o[0], o[1]] for o in ops])
                    break


def describe(case, obs):
    return {"call": "p = Deb822(); p[k] = v for (k, v) in ops (steps = [exception kind or None, items of p afterwards]); "
                    "text = p.dump(); nows_* = list(Deb822.iter_paragraphs(text or io.StringIO(text), "
                    "strict={'whitespace-separates-paragraphs': False})); ws_* = the same with the default strictness",
            "ops": case["ops"], "observed": obs,
            "specified": "a refused assignment raises ValueError and leaves names and values unchanged; a value ending "
                         "in LF / with an empty continuation line / with a continuation line not starting with "
                         "space or tab is refused; the dump of the paragraph read back with "
                         "whitespace-separates-paragraphs=False (and with the default when no continuation line of "
                         "any value is whitespace-only) is exactly one paragraph with exactly the same names"}
