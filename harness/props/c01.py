"""C01 — the format-preserving deb822 parser is lossless (parse then dump reproduces the input).

Public API driven: debian._deb822_repro.tokens.tokenize_deb822_file and
debian._deb822_repro.parsing.parse_deb822_file(..., accept_files_with_error_tokens=True,
accept_files_with_duplicated_fields=True) followed by .dump(); the default (strict) mode is
observed too (ok / exception kind) because later properties parse in that mode.
"""
import ast
import itertools
import re

from harness import extract
from harness.core import cq_bool, cq_list, cq_opt, cq_str, cq_strs, err_kind, cq_N

ID = "C01"
CHECK_MODULE = "Repro.Check"
PROPS_FILE = "Props/C01.v"
ANCHORS = [
    ("lib/debian/_deb822_repro/tokens.py",
     ["tokenize_deb822_file", "_RE_WHITESPACE_LINE", "_RE_FIELD_LINE", "Deb822Token", "_verify_token_text",
      "Deb822WhitespaceToken", "Deb822NewlineAfterValueToken", "Deb822ValueContinuationToken",
      "Deb822ErrorToken", "Deb822CommentToken", "Deb822FieldNameToken", "Deb822FieldSeparatorToken",
      "Deb822ValueToken"]),
    ("lib/debian/_deb822_repro/parsing.py",
     ["parse_deb822_file", "_build_value_line", "_build_field_with_value", "_non_end_of_line_token",
      "_combine_error_tokens_into_elements", "_combine_comment_tokens_into_elements",
      "_combine_vl_elements_into_value_elements", "_combine_kvp_elements_into_paragraphs",
      "from_kvpairs", "Deb822ValueLineElement", "Deb822KeyValuePairElement", "Deb822FileElement",
      "Deb822Element", "Deb822ErrorElement", "Deb822CommentElement", "Deb822ValueElement"]),
    ("lib/debian/_deb822_repro/_util.py", ["combine_into_replacement", "BufferingIterator"]),
    ("lib/debian/_util.py", ["_CaseInsensitiveString", "OrderedSet"]),
]
BUDGET = {"quick": 2200, "thorough": 34000}
SHARD = 200
RULE = ("line lists from the adjacency product of 8 line classes {blank, whitespace-only, comment, continuation, "
        "field, field-no-value, garbage, continuation-without-field} x {last line terminated, unterminated} "
        "and the same sequences with every newline removed (form 2): ALL sequences up to length 2 (quick) / 4 "
        "(thorough), then random longer ones with odd whitespace (TAB, CR, NBSP, FF, FS, NEL, LS), duplicate and "
        "case-variant names, comments before fields and continuation lines, random Unicode lines; a malformed "
        "stream (inconsistent endings, empty lines, embedded newlines); str and bytes; plus leaf cases comparing "
        "match_field_line / is_ws_line with the live compiled _RE_FIELD_LINE / _RE_WHITESPACE_LINE "
        "(bounded-exhaustive over a 9-symbol alphabet + mutants).  non-trivial = a parse case whose input has "
        ">= 2 lines or a non-blank line, or any leaf case")
TRUSTED = ["models coq/Repro/Token.v and coq/Repro/Parse.v are hand transcriptions of tokenize_deb822_file and the "
           "grouping stages of parse_deb822_file (regex leaves match_field_line, is_ws_line); tied to the code only "
           "by this correspondence (token kinds+texts, full element tree incl. slot occupancy, dump, strict-mode outcome) — "
           "except the tokenizer: the control flow of tokenize_deb822_file is regenerated from the source on every run "
           "(coq/Gen/TrTokenize.v) and proved equal to Token.tokenize on all inputs (coq/Props/C01Tie.v); hand-modelled "
           "inside it: the two regex leaves, the token constructors (mk_token), the BufferingIterator operations and "
           "_as_str (coq/Repro/TokTrPrims.v; source text asserted)",
           "generator laziness is collapsed: an exception raised while the token generator is consumed is the "
           "result of the whole call (all error kinds in this code are ValueError)"]
ASSUMPTIONS = ["bytes input is valid UTF-8 (the tokenizer decodes each line; an undecodable line raises "
               "UnicodeDecodeError, a ValueError, which is outside the property's domain of text lines)",
               "\\s of a str pattern = str.isspace() (checked for U+0000..U+30FF when coq/Gen/PyChars.v is generated)",
               "field-name character classes are read from the _RE_FIELD_LINE pattern text on every run "
               "(coq/Gen/ReproChars.v) and the rest of the pattern is compared with a fixed skeleton (fail-closed)"]

# ---------------------------------------------------------------------------
# source-derived table: the two character classes of the field name

_SKELETON = (r"^(?P<field_name>[@1][@2]*)(?P<separator>:)(?P<space_before_value>\s*)"
             r"(?:(?P<value>\S(?:.*\S)?)(?P<space_after_value>\s*))?")
_CLASS_RE = re.compile(r"\[((?:\\x[0-9A-Fa-f]{2}(?:-\\x[0-9A-Fa-f]{2})?)+)\]")


def _pattern_of(tree, name):
    node = extract.find_assign(tree.body, name)
    if not (isinstance(node, ast.Call) and isinstance(node.func, ast.Attribute) and node.func.attr == "compile"
            and isinstance(node.func.value, ast.Name) and node.func.value.id == "re"):
        raise extract.ExtractError("%s is not a re.compile(...) call" % name)
    if not node.args or not isinstance(node.args[0], ast.Constant) or not isinstance(node.args[0].value, str):
        raise extract.ExtractError("%s: pattern is not a string literal" % name)
    flags = [ast.dump(a) for a in node.args[1:]] + [ast.dump(k.value) for k in node.keywords]
    return node.args[0].value, node.args[1:], flags


def _class_ranges(body):
    out = []
    for m in re.finditer(r"\\x([0-9A-Fa-f]{2})(?:-\\x([0-9A-Fa-f]{2}))?", body):
        lo = int(m.group(1), 16)
        hi = int(m.group(2), 16) if m.group(2) else lo
        if hi < lo:
            raise extract.ExtractError("descending class range")
        out.append((lo, hi))
    return out


@extract.register("ReproChars")
def _gen_repro_chars(repo):
    tree = extract._parse(repo, "lib/debian/_deb822_repro/tokens.py")
    pat, flag_args, _ = _pattern_of(tree, "_RE_FIELD_LINE")
    if len(flag_args) != 1 or not (isinstance(flag_args[0], ast.Attribute) and flag_args[0].attr == "VERBOSE"):
        raise extract.ExtractError("_RE_FIELD_LINE flags are not exactly re.VERBOSE")
    # re.VERBOSE: drop comments and whitespace (no class of this pattern contains '#' or blanks)
    stripped = "".join(re.sub(r"#.*", "", line) for line in pat.split("\n"))
    stripped = re.sub(r"\s+", "", stripped)
    classes = _CLASS_RE.findall(stripped)
    if len(classes) != 2:
        raise extract.ExtractError("expected two \\xHH character classes in _RE_FIELD_LINE, got %d" % len(classes))
    skel = stripped.replace("[" + classes[0] + "]", "[@1]", 1).replace("[" + classes[1] + "]", "[@2]", 1)
    if skel != _SKELETON:
        raise extract.ExtractError("_RE_FIELD_LINE no longer has the modelled shape: %s" % skel)
    first, rest = _class_ranges(classes[0]), _class_ranges(classes[1])
    # cross-check the class parser against the regex engine
    for body, rs in ((classes[0], first), (classes[1], rest)):
        rx = re.compile("[" + body + "]")
        for c in range(0x3000):
            if bool(rx.fullmatch(chr(c))) != any(lo <= c <= hi for lo, hi in rs):
                raise extract.ExtractError("class parser disagrees with re at U+%04X" % c)
    ws, ws_flags, _ = _pattern_of(tree, "_RE_WHITESPACE_LINE")
    if ws != r"^\s+$" or ws_flags:
        raise extract.ExtractError("_RE_WHITESPACE_LINE is no longer ^\\s+$")
    out = ["(* GENERATED by harness/props/c01.py from lib/debian/_deb822_repro/tokens.py (_RE_FIELD_LINE). Do not edit. *)\n",
           "From Coq Require Import List NArith Bool.\nImport ListNotations.\n",
           "From Verif Require Import Gen.PyChars.\n\n",
           extract._coq_ranges("field_first_ranges", first),
           extract._coq_ranges("field_rest_ranges", rest),
           "Definition field_name_first (c : N) : bool := in_ranges field_first_ranges c.\n",
           "Definition field_name_rest (c : N) : bool := in_ranges field_rest_ranges c.\n"]
    return "".join(out)


# ---------------------------------------------------------------------------
# generator

CLASSES = ["blank", "ws", "comment", "cont", "field", "fieldnv", "garbage", "cont0"]
# representative line bodies (without the newline) per class; index 0 is used by the exhaustive sweep
REPR = {
    "blank": [""],
    "ws": [" ", "\t", "  \t ", "\xa0", "\x0c", " \r", "\x1c", "\u2028", "\x85 "],
    "comment": ["# c", "#", "#\t x ", "# A: b", "#\xa0"],
    "cont": [" x", "\ty z", "  x ", " .", " \xa0x\t", " # not a comment", " x\r", " :"],
    "field": ["A: b", "B:c", "a: b", "A:  b c ", "Foo-Bar:\tx\t", "A: b\r", "B:\xa0c\xa0", "C: #x", "D::", "E: :x"],
    "fieldnv": ["A:", "B: ", "a:\t ", "C:\r", "D:\xa0"],
    "garbage": ["garbage", ":x", "-a: b", "A b", "\xe9: x", "A\xa0: b", "\x00", "=:", "A :b", "\r", "\x7f:"],
    "cont0": ["\tq", " r s", "\t", " :"],
}
NAMES = ["A", "a", "B", "Foo", "FOO", "foo", "X-Y", "x-y", "!", "A#", "a1"]
ODD = [" ", "\t", "\r", "\xa0", "\x0c", "\x0b", "\x1c", "\x1f", "\x85", "\u2028", "\u3000", "\u200b"]
ALPH = ["A", "a", "b", "Z", ":", " ", "\t", "#", "-", "\r", "\xa0", "\x0c", "\x1c", "\x85", "\u2028",
        "\xe9", "\x7f", "\x00", "!", "~", "\u0663", ",", "x", "\U0001F600"]


def _body(rng, cls, rich):
    if not rich:
        return REPR[cls][0]
    r = rng.random()
    if cls == "field" and r < 0.5:
        v = rng.choice(["b", "b c", "x, y", "1.0", "#v", ":", "\xe9"])
        return (rng.choice(NAMES) + ":" + "".join(rng.choice(ODD[:5]) for _ in range(rng.randint(0, 2))) + v
                + "".join(rng.choice(ODD[:6]) for _ in range(rng.choice([0, 0, 1, 2]))))
    if cls == "fieldnv" and r < 0.5:
        return rng.choice(NAMES) + ":" + "".join(rng.choice(ODD[:5]) for _ in range(rng.randint(0, 2)))
    if cls == "ws" and r < 0.4:
        return "".join(rng.choice(ODD[:10]) for _ in range(rng.randint(1, 3)))
    if cls in ("cont", "cont0") and r < 0.4:
        return rng.choice(" \t") + "".join(rng.choice(ODD[:6] + ["x", "y", "#", ":"]) for _ in range(rng.randint(0, 3))) \
            + rng.choice(["x", "y.", ""])
    if cls == "garbage" and r < 0.3:
        return "".join(rng.choice(ALPH) for _ in range(rng.randint(1, 6)))
    return rng.choice(REPR[cls])


def _mk(classes, last_term, form2, rng, rich, bts, src):
    bodies = [_body(rng, c, rich) for c in classes]
    if form2:
        lines = bodies
    else:
        lines = [b + "\n" for b in bodies]
        if not last_term and lines:
            lines[-1] = bodies[-1]
    return {"kind": "parse", "lines": lines, "bytes": bts, "src": src, "classes": "".join(c[0] if c != "cont0" else "k"
                                                                                        for c in classes)[:12]}


def _exhaustive(maxlen, rng):
    for n in range(1, maxlen + 1):
        for seq in itertools.product(CLASSES, repeat=n):
            for last_term in (True, False):
                if not last_term and seq[-1] == "blank":
                    continue        # an empty last line is not a line
                yield _mk(seq, last_term, False, rng, False, rng.random() < 0.25, "exh%d" % n)
            if n >= 2:
                yield _mk(seq, True, True, rng, False, rng.random() < 0.25, "exh%d-form2" % n)


def _random_doc(rng):
    """A mostly valid document: paragraphs of fields with comments and continuation lines."""
    classes = []
    for _ in range(rng.randint(1, 3)):
        if rng.random() < 0.3:
            classes.append("comment")
        for _ in range(rng.randint(1, 4)):
            if rng.random() < 0.3:
                classes.append("comment")
            classes.append(rng.choice(["field", "field", "fieldnv"]))
            for _ in range(rng.choice([0, 0, 1, 2])):
                if rng.random() < 0.25:
                    classes.append("comment")
                classes.append("cont")
        classes.append(rng.choice(["blank", "blank", "ws"]))
        if rng.random() < 0.2:
            classes.append(rng.choice(["blank", "ws"]))
    if rng.random() < 0.5:
        classes.pop()
    return classes


def _malformed(rng):
    kind = rng.choice(["mixed", "empty", "embedded", "embedded", "midunterm", "form2term", "wsembedded"])
    base = [_body(rng, rng.choice(CLASSES), True) for _ in range(rng.randint(1, 4))]
    if kind == "mixed":
        lines = [b + rng.choice(["\n", ""]) for b in base]
    elif kind == "empty":
        lines = [b + "\n" for b in base]
        lines.insert(rng.randint(0, len(lines)), "")
    elif kind == "embedded":
        lines = [b + "\n" for b in base]
        i = rng.randrange(len(lines))
        lines[i] = lines[i] + rng.choice(["x\n", "\n", " \n", " y", "A: b\n", "#c\n", " "])
    elif kind == "midunterm":
        lines = [b + "\n" for b in base + ["x"]]
        lines[rng.randrange(len(lines) - 1)] = rng.choice(base)
    elif kind == "form2term":
        lines = list(base) + ["A: b"]
        i = rng.randrange(1, len(lines))
        lines[i] = lines[i] + "\n"
    else:
        lines = [rng.choice([" \n ", "\n\n", " \n\t\n", "\n ", "\t\n\n "])] + [b + "\n" for b in base][:rng.randint(0, 2)]
        rng.shuffle(lines)
    return {"kind": "parse", "lines": lines, "bytes": rng.random() < 0.3, "src": "malformed:" + kind, "classes": ""}


LEAF_ALPH = ["A", "-", "#", ":", " ", "\n", "b", "\xa0", "\x7f"]


def _leaf_cases(rng, n, tier):
    out = []
    maxlen = 5 if tier == "thorough" else 3
    pool = []
    for k in range(0, maxlen + 1):
        for t in itertools.product(LEAF_ALPH, repeat=k):
            pool.append("".join(t))
    if len(pool) > n // 2:
        pool = pool[:9 ** 2 + 10] + rng.sample(pool[9 ** 2 + 10:], max(0, n // 2 - 91))
    out += pool
    gram = ["A: b\n", "A:b", "Foo-Bar:  x y \t\n", "A:\n", "A: \n", "A:", "A: b \xa0\n", "A: b\nC: d\n", "A: \n b\n",
            "A: b\n\n", "A: b\n \n", "A:\xa0b\x1c\n", "a::\n", "A: b\r\n", "\x7fx:y", "A: b c  d\x0c", "A: b\x85c\n",
            "A: \u2028b\u2028", "9: 1\n", "/:\n", ".: b\n", "$: b", "%A: b", "A;: x", "A: b\nx", "A: b \n x \n"]
    while len(out) < n:
        s = rng.choice(gram)
        if rng.random() < 0.6 and s:
            i = rng.randrange(len(s) + 1)
            r = rng.random()
            c = rng.choice(ALPH + ["\n"])
            s = s[:i] + c + s[i:] if r < 0.4 else (s[:i] + c + s[i + 1:] if r < 0.7 else s[:i] + s[i + 1:])
        out.append(s)
    return [{"kind": "leaf", "s": s} for s in out[:n]]


def generate(rng, n, tier):
    thorough = tier == "thorough"
    n_leaf = n // 6
    n_parse = n - n_leaf
    cases = []
    cases += list(_exhaustive(4 if thorough else 2, rng))
    if not thorough:
        # a sample of the length-3/4 product
        for _ in range(n_parse // 4):
            k = rng.choice([3, 3, 4])
            seq = [rng.choice(CLASSES) for _ in range(k)]
            f2 = rng.random() < 0.3
            lt = rng.random() < 0.5 or seq[-1] == "blank"
            cases.append(_mk(seq, lt, f2, rng, False, rng.random() < 0.25, "exh%d-sample%s" % (k, "-form2" if f2 else "")))
    while len(cases) < n_parse:
        r = rng.random()
        bts = rng.random() < 0.3
        if r < 0.18:
            cases.append(_malformed(rng))
            continue
        if r < 0.55:
            classes = _random_doc(rng)
            src = "doc"
        else:
            classes = [rng.choice(CLASSES) for _ in range(rng.randint(1, 9))]
            src = "rand"
        f2 = rng.random() < 0.3 and len(classes) >= 2
        lt = rng.random() < 0.6 or classes[-1] == "blank"
        cases.append(_mk(classes, lt, f2, rng, True, bts, src + ("-form2" if f2 else "")))
    cases = cases[:max(n_parse, 0)] if not thorough else cases
    for c in cases:
        yield c
    for c in _leaf_cases(rng, n_leaf, tier):
        yield c


def from_json(j):
    return j


# ---------------------------------------------------------------------------
# implementation driver

TOKEN_KINDS = {
    "Deb822WhitespaceToken": "KWhitespace",
    "Deb822SemanticallySignificantWhiteSpace": "KSemWhitespace",
    "Deb822NewlineAfterValueToken": "KNewlineAfterValue",
    "Deb822ValueContinuationToken": "KValueContinuation",
    "Deb822SpaceSeparatorToken": "KSpaceSeparator",
    "Deb822ErrorToken": "KError",
    "Deb822CommentToken": "KComment",
    "Deb822FieldNameToken": "KFieldName",
    "Deb822SeparatorToken": "KSeparator",
    "Deb822FieldSeparatorToken": "KFieldSeparator",
    "Deb822CommaToken": "KComma",
    "Deb822PipeToken": "KPipe",
    "Deb822ValueToken": "KValue",
    "Deb822ValueDependencyToken": "KValueDependency",
    "Deb822ValueDependencyVersionRelationOperatorToken": "KValueDependencyVersionRelationOperator",
}


def _plain(s):
    return "".join(ch for ch in s)      # a plain str, whatever subclass the token keeps


def _tok(t):
    return [TOKEN_KINDS[type(t).__name__], _plain(t.text)]


def _tree(x):
    """Element tree through iter_parts(), recursively; kinds carry the class name and slot occupancy."""
    from debian._deb822_repro import parsing as P
    from debian._deb822_repro.tokens import Deb822Token
    if isinstance(x, Deb822Token):
        return {"t": _tok(x)}
    name = type(x).__name__
    if name == "Deb822ValueLineElement":
        kind = "(EValueLine (mkSlots %s %s %s %s %s))" % tuple(
            cq_bool(v is not None) for v in (x._comment_element, x._continuation_line_token,
                                             x._leading_whitespace_token, x._trailing_whitespace_token,
                                             x._newline_token))
    elif name == "Deb822KeyValuePairElement":
        kind = "(EKvp %s)" % cq_bool(x.comment_element is not None)
    elif name == "Deb822NoDuplicateFieldsParagraphElement":
        kind = "(EParagraph false)"
    elif name == "Deb822DuplicateFieldsParagraphElement":
        kind = "(EParagraph true)"
    else:
        kind = {"Deb822CommentElement": "EComment", "Deb822ValueElement": "EValue",
                "Deb822ErrorElement": "EError", "Deb822ParsedValueElement": "EParsedValue",
                "Deb822FileElement": "EFile"}[name]
    assert isinstance(x, P.Deb822Element)
    return {"e": kind, "p": [_tree(p) for p in x.iter_parts()]}


def _iterable(case, lines, salt):
    """"An iterable of lines": a list, a tuple, a one-shot iterator or a generator, chosen from the case itself
    (every form must give the same result)."""
    form = (len(lines) + sum(len(l) for l in lines) + salt) % 4
    if form == 0:
        return lines
    if form == 1:
        return tuple(lines)
    if form == 2:
        return iter(lines)
    return (l for l in lines)


def run_impl(case):
    from debian._deb822_repro.tokens import tokenize_deb822_file, _RE_FIELD_LINE, _RE_WHITESPACE_LINE
    from debian._deb822_repro.parsing import parse_deb822_file
    if case["kind"] == "leaf":
        s = case["s"]
        m = _RE_FIELD_LINE.match(s)
        obs = {"ws": _RE_WHITESPACE_LINE.match(s) is not None}
        if m is None:
            obs["m"] = None
        else:
            name, sep, sb, value, sa = m.groups()
            obs["m"] = {"name": name, "sep": sep, "sb": sb, "value": value, "sa": sa, "end": m.end(),
                        "named": [m.group("field_name"), m.group("separator"), m.group("space_before_value"),
                                  m.group("value"), m.group("space_after_value")] == [name, sep, sb, value, sa]}
        return obs
    conv = (lambda l: l.encode("utf-8")) if case["bytes"] else (lambda l: l)
    obs = {}
    try:
        obs["tokens"] = [_tok(t) for t in tokenize_deb822_file(_iterable(case, [conv(l) for l in case["lines"]], 1))]
    except Exception as e:
        obs["tokens_err"] = err_kind(e)
    try:
        f = parse_deb822_file(_iterable(case, [conv(l) for l in case["lines"]], 0),
                              accept_files_with_error_tokens=True, accept_files_with_duplicated_fields=True)
        obs["tree"] = _tree(f)
        obs["dump"] = f.dump()
        obs["tok_concat"] = "".join(t.text for t in f.iter_tokens())
    except Exception as e:
        obs["tree_err"] = err_kind(e)
    try:
        parse_deb822_file(iter([conv(l) for l in case["lines"]]))
        obs["strict"] = "ok"
    except Exception as e:
        obs["strict"] = err_kind(e)
    return obs


# ---------------------------------------------------------------------------
# Coq emitter

def _emit_tree(t):
    if "t" in t:
        return "OT %s %s" % (t["t"][0], cq_str(t["t"][1]))
    return "OE %s %s" % (t["e"], cq_list([_emit_tree(p) for p in t["p"]]))


def emit(case, obs):
    if case["kind"] == "leaf":
        m = obs["m"]
        if m is None:
            om = "None"
        else:
            if m["sep"] != ":" or not m["named"]:
                om = "(Some (LeafBad))"
            else:
                val = "None" if m["value"] is None else "(Some (%s, %s))" % (cq_str(m["value"]), cq_str(m["sa"]))
                if (m["value"] is None) != (m["sa"] is None):
                    om = "(Some (LeafBad))"
                else:
                    om = "(Some (LeafGroups %s %s %s %s))" % (cq_str(m["name"]), cq_str(m["sb"]), val, cq_N(m["end"]))
        return "CLeaf %s %s %s" % (cq_str(case["s"]), om, cq_bool(obs["ws"]))
    if "tokens" in obs:
        toks = "(Ok %s)" % cq_list(["(%s, %s)" % (k, cq_str(s)) for k, s in obs["tokens"]])
    else:
        toks = "(Err %s)" % obs["tokens_err"]
    if "tree" in obs:
        tree = "(Ok (%s))" % _emit_tree(obs["tree"])
        dump = "(Some %s)" % cq_str(obs["dump"])
    else:
        tree = "(Err %s)" % obs["tree_err"]
        dump = "None"
    strict = "None" if obs["strict"] == "ok" else "(Some %s)" % obs["strict"]
    return "CParse %s %s %s %s %s" % (cq_strs(case["lines"]), toks, tree, dump, strict)


def _form(lines):
    if lines and all(l != "" and "\n" not in l[:-1] for l in lines) and all(l.endswith("\n") for l in lines[:-1]):
        return "form1"
    if not lines:
        return "form1"
    if len(lines) >= 2 and all("\n" not in l for l in lines):
        return "form2"
    return "outside"


def classify(case, obs):
    if case["kind"] == "leaf":
        return "leaf/%s/%s" % ("match" if obs["m"] else "nomatch", "ws" if obs["ws"] else "nows")
    out = "ok" if "tree" in obs else obs["tree_err"]
    src = case["src"]
    lines = case["lines"]
    term = "term" if (lines and lines[-1].endswith("\n")) else "unterm"
    return "%s/%s/%s/%s/%s/strict-%s" % (_form(lines), "bytes" if case["bytes"] else "str", src, term, out, obs["strict"])


def nontrivial(case, obs):
    if case["kind"] == "leaf":
        return True
    return len(case["lines"]) >= 2 or any(l.strip() for l in case["lines"])


def shrink(case):
    if case["kind"] == "leaf":
        s = case["s"]
        for i in range(len(s)):
            yield dict(case, s=s[:i] + s[i + 1:])
        return
    lines = case["lines"]
    for i in range(len(lines)):
        yield dict(case, lines=lines[:i] + lines[i + 1:], src="shrunk")
    if case["bytes"]:
        yield dict(case, bytes=False)
    for i, l in enumerate(lines):
        body = l[:-1] if l.endswith("\n") else l
        nl = l[len(body):]
        if len(body) > 1:
            for j in range(len(body)):
                yield dict(case, lines=lines[:i] + [body[:j] + body[j + 1:] + nl] + lines[i + 1:], src="shrunk")
        for simple in ("A: b", " ", "x"):
            if body != simple and len(body) > len(simple):
                yield dict(case, lines=lines[:i] + [simple + nl] + lines[i + 1:], src="shrunk")


def neighbours(case, rng):
    if case["kind"] == "leaf":
        return
    lines = case["lines"]
    for i in range(len(lines) + 1):
        yield dict(case, lines=lines[:i], src="prefix")
    for i in range(len(lines)):
        for repl in (" \n", "\n", "A: b\n", " x\n", "# c\n", " ", "A: b"):
            yield dict(case, lines=lines[:i] + [repl] + lines[i + 1:], src="edit")


def describe(case, obs):
    if case["kind"] == "leaf":
        return {"call": "_RE_FIELD_LINE.match(s) / _RE_WHITESPACE_LINE.match(s) (regex leaf correspondence)",
                "s": case["s"], "observed": obs}
    lines = case["lines"]
    form = _form(lines)
    exp = "".join(lines) if form == "form1" else ("".join(l + "\n" for l in lines) if form == "form2" else None)
    return {"call": "parse_deb822_file(lines, accept_files_with_error_tokens=True, "
                    "accept_files_with_duplicated_fields=True).dump() and tokenize_deb822_file(lines), lines as %s"
                    % ("bytes (UTF-8)" if case["bytes"] else "str"),
            "lines": lines, "input_form": form, "expected_text": exp,
            "observed_dump": obs.get("dump"), "observed_error": obs.get("tree_err") or obs.get("tokens_err"),
            "specified": "the call returns, dump() == expected_text and ''.join(token texts) == expected_text"}


# ---------------------------------------------------------------------------
# TIE BY REGENERATION: the control flow of tokenize_deb822_file is regenerated from lib/debian/_deb822_repro/tokens.py
# into coq/Gen/TrTokenize.v on every run (harness/py2coq.py); coq/Repro/TokTie.v proves the regenerated function
# equal to the model's `tokenize` (Repro/Token.v — what `agree` runs as py_tokenize and the theorems of Props/C01.v
# are about) on ALL line lists, for all character classes; statements in coq/Props/C01Tie.v.
#
# The translated function has three leading (ghost) parameters: the character classes of the two compiled patterns
# (`\s` of _RE_WHITESPACE_LINE/_RE_FIELD_LINE, the two classes of the field name), which the regex leaves take.
# The text stream (BufferingIterator over _as_str(sequence)) is the list of the lines not yet consumed, as a shared
# iterator: `for no, line in enumerate(text_stream, start=1)` and the two takewhile calls consume the same list.
from harness import py2coq as _P   # noqa: E402

TIE_FILE = "Props/C01Tie.v"

_TOK = ("coq", "token")
_FM = ("coq", "field_match")
_IT = ("iter", "str")
_STRS = ("list", "str")
# the two predicates handed to text_stream.takewhile, asserted AS SOURCE TEXT (ast.unparse): a changed lambda
# fails the translation closed
_LAMBDA_UNTERMINATED = "lambda x: _RE_WHITESPACE_LINE.match(x) is not None and (not x.endswith('\\n'))"
_LAMBDA_TERMINATED = "lambda x: _RE_WHITESPACE_LINE.match(x) is not None and x.endswith('\\n')"
_LF = ("literal", "'\\n'", "tt")

_F_TOKENIZE = _P.Fun(
    "tr_tokenize_deb822_file", "tokenize_deb822_file", [("sequence", _STRS)], _TOK,
    locals={"current_field_name": ("option", "str"), "field_name_cache": ("dict", "str", "str"),
            "text_stream": _IT, "auto_correct_newlines": "bool", "first_line": ("option", "str"),
            "no": "Z", "line": "str", "r": _STRS, "leading": "str", "emit_newline_token": "bool",
            "field_line_match": ("option", _FM), "field_name": "str", "_": "str", "space_before": "str",
            "value": ("option", "str"), "space_after": ("option", "str")},
    fuel={1: "S (length text_stream)"}, generator=True,
    ghost=[("is_space", ("coq", "(N -> bool)")), ("name_first", ("coq", "(N -> bool)")),
           ("name_rest", ("coq", "(N -> bool)"))])
# flow typing: current_field_name / value / space_after are Optional[str] and plain str where the code uses them as str
_F_TOKENIZE.narrow = True
# emit_newline_token is first assigned in both branches of `if line.endswith('\n'): … else: …` and read after it
_F_TOKENIZE.join_defines = True


def _tok_ctor(kind):
    return _P.Call("trp_mk_token %s" % kind, ["str"], _TOK, True)


TR_MODULE = _P.Module(
    "TrTokenize", "lib/debian/_deb822_repro/tokens.py",
    funs=[_F_TOKENIZE],
    calls={
        # the text stream
        "_as_str": _P.Call("trp_as_str", [_STRS], _STRS),
        "BufferingIterator": _P.Call("trp_buffering_iterator", [_STRS], _IT),
        "<iter>.peek": _P.Call("trp_peek", [_IT], ("option", "str")),
        "<iter>.peek_at": _P.Call("trp_peek_at", [_IT, ("literal", "2", "2%nat")], ("option", "str")),
        "<iter>.takewhile": [
            _P.Call("trp_takewhile", [_IT, ("literal", _LAMBDA_UNTERMINATED, "(trp_pred_ws_unterminated is_space)")],
                    _STRS, mutates=True),
            _P.Call("trp_takewhile", [_IT, ("literal", _LAMBDA_TERMINATED, "(trp_pred_ws_terminated is_space)")],
                    _STRS, mutates=True)],
        # str operations and regex leaves
        "<str>.endswith": _P.Call("trp_endswith_lf", ["str", _LF], "bool"),
        "''.join": _P.Call("trp_join_empty", [_STRS], "str"),
        "str": _P.Call("trp_str_of_int", ["Z"], "str"),
        "sys.intern": _P.Call("trp_intern", ["str"], "str"),
        "_strI": _P.Call("trp_strI", ["str"], "str"),
        "_RE_WHITESPACE_LINE.match": _P.Call("trp_ws_line_match is_space", ["str"], "bool"),
        "_RE_FIELD_LINE.match": _P.Call("trp_field_line_match is_space name_first name_rest", ["str"], ("option", _FM)),
        "<field_match>.groups": _P.Call("trp_groups", [_FM],
                                        ("tuple", "str", "str", "str", ("option", "str"), ("option", "str"))),
        "<dict>.get": _P.Call("tr_dict_get", [("dict", "str", "str"), "str"], ("option", "str")),
        # token constructors: Deb822Token.__init__ + _verify_token_text of the class = the model's mk_token
        "Deb822WhitespaceToken": _tok_ctor("KWhitespace"),
        "Deb822CommentToken": _tok_ctor("KComment"),
        "Deb822ErrorToken": _tok_ctor("KError"),
        "Deb822ValueContinuationToken": _tok_ctor("KValueContinuation"),
        "Deb822ValueToken": _tok_ctor("KValue"),
        "Deb822FieldNameToken": _tok_ctor("KFieldName"),
        "Deb822NewlineAfterValueToken": _P.Call("trp_newline_token", [], _TOK, True),
        "Deb822FieldSeparatorToken": _P.Call("trp_field_separator_token", [], _TOK, True),
    },
    imports=["Repro.Token", "Repro.TokTrPrims"],
    regexes=[("_RE_WHITESPACE_LINE", r'^\s+$')])

# Code that the primitives stand for and that the translator does not see, asserted as source text (ast.unparse):
# the nested helper _as_str (skipped by the translator: its name is a spec key) and the BufferingIterator methods
# behind `for … in enumerate(text_stream)` / peek / peek_at / takewhile.  A change fails the translation closed.
_AS_STR_SRC = ("def _as_str(s: Iterable[Union[str, bytes]]) -> Iterable[str]:\n    for x in s:\n"
               "        if isinstance(x, bytes):\n            x = x.decode('utf-8')\n        yield x")
_BUFITER_SHA = {"__init__": "5a2894660f0dab84", "__next__": "8fea135c984abb19", "takewhile": "4c27a68de4889396",
                "_fill_buffer": "7c6211181fa233fd", "peek": "b4778e594397902d", "peek_at": "ee3c5dc62ec7b207"}


@extract.register("TrTokenize")
def _gen_tr(repo):
    import hashlib
    # _RE_FIELD_LINE: the shape of the pattern is compared with the modelled skeleton and the two name classes are
    # regenerated (Gen/ReproChars.v) by the generator above — it raises ExtractError on any other shape
    _gen_repro_chars(repo)
    tree = extract._parse(repo, "lib/debian/_deb822_repro/tokens.py")
    fn = _P.find_def(tree, "tokenize_deb822_file._as_str")
    if ast.unparse(fn) != _AS_STR_SRC:
        raise extract.ExtractError("tokenize_deb822_file._as_str is no longer the helper that trp_as_str stands for")
    util = extract._parse(repo, "lib/debian/_deb822_repro/_util.py")
    for meth, sha in _BUFITER_SHA.items():
        got = hashlib.sha256(ast.unparse(_P.find_def(util, "BufferingIterator." + meth)).encode()).hexdigest()[:16]
        if got != sha:
            raise extract.ExtractError("BufferingIterator.%s changed: the text-stream primitives of "
                                       "coq/Repro/TokTrPrims.v model the previous text" % meth)
    return _P.translate_module(repo, TR_MODULE)
