"""C05 — tie by regeneration: the translator spec for the setters (moved out of c05.py because it needs c10's types while
c10.py imports c05: importing it lazily, at generation time, avoids the cycle).  See the comment in c05.py."""
import ast   # noqa: F401
from harness import extract            # noqa: E402
from harness import py2coq as _P       # noqa: E402
from harness.props import c10 as _c10  # noqa: E402

_LF = ("literal", "'\\n'", "tt")
_HASH = ("literal", "'#'", "tt")

_C = _c10
_T_KV, _T_KVD, _T_OS, _T_KEY, _T_STRI, _T_ANY, _T_TOK = _C._T_KV, _C._T_KVD, _C._T_OS, _C._T_KEY, _C._T_STRI, _C._T_ANY, _C._T_TOK
_T_OKV = ("option", _T_KV)
_T_PARA = ("coq", "pararef")
_ND = _C._ND

_nd_get = _C._nd_r("tr_nd_get_kvpair_element", _ND + "get_kvpair_element", [("item", _T_KEY), ("use_get", "bool")], _T_OKV,
                   locals={"_": _T_ANY})
_nd_get.retype = {"item": [_T_STRI]}
_nd_set = _C._nd_w("tr_nd_set_kvpair_element", _ND + "set_kvpair_element", [("key", _T_KEY), ("value", _T_KV)], "unit",
                   locals={"_": _T_ANY, "original_value": _T_OKV})
_nd_set.retype = {"key": [_T_STRI]}
_nd_set.narrow = True

_T_CE = ("coq", "celem")
_T_OCE = ("option", _T_CE)
_T_CM = ("coq", "commentish")
_T_OCM = ("option", _T_CM)
_T_OB = ("option", "bool")
_T_PF = ("coq", "pfile")
_T_PP = ("coq", "ppara")
_T_ET = ("coq", "errtok")
_LS = ("list", "str")
_PE = "Deb822ParagraphElement."
_ND_GV = _C._ND_GV
_KWS = [None, None, "preserve_original_field_comment", "field_comment"]

_set_raw = _C._nd_w("tr_nd_set_field_from_raw_string", _PE + "set_field_from_raw_string",
                    [("item", _T_KEY), ("raw_string_value", "str"), ("preserve_original_field_comment", _T_OB),
                     ("field_comment", _T_OCM)], "unit",
                    locals={"new_content": _LS, "field_name": _T_STRI, "_": _T_ANY, "cased_field_name": _T_STRI,
                            "original": _T_OKV, "raw": "str", "raw_lines": _LS, "i": "Z", "line": "str", "msg": "str",
                            "deb822_file": _T_PF, "error_token": ("option", _T_ET), "paragraph": _T_PP, "value": _T_OKV})
_set_raw.narrow = True
_set_raw.join_defines = True
_set_simple = _C._nd_w("tr_nd_set_field_to_simple_value", _PE + "set_field_to_simple_value",
                       [("item", _T_KEY), ("simple_value", "str"), ("preserve_original_field_comment", _T_OB),
                        ("field_comment", _T_OCM)], "unit", locals={"raw_value": "str"})
_setitem = _C._nd_w("tr_nd_setitem", "Deb822ParagraphToStrWrapperMixin.__setitem__", [("item", _T_KEY), ("value", "str")], "unit",
                    locals={"keep_comments": _T_OB, "comment": _T_OCE, "key_lookup": _T_KEY, "orig_kvpair": _T_OKV,
                            "idx": "Z", "first_line": "str", "rest": "str"})
_setitem.narrow = True
_setitem.join_defines = True

TR_MODULE = _P.Module(
    "TrDocSet", "lib/debian/_deb822_repro/parsing.py",
    funs=[
        _P.Fun("tr_format_comment", "_format_comment", [("c", "str")], "str"),
        _nd_get, _nd_set, _set_raw, _set_simple, _setitem,
    ],
    calls={
        "_unpack_key": [_C._t_kw(_P.Call("trp_unpack_key", [_T_KEY, "bool"], _C._T_UNPACKED, True), [None, "raise_if_indexed"]),
                        _P.Call("(fun k_ => trp_unpack_key k_ false)", [_T_KEY], _C._T_UNPACKED, True)],   # the default
        "isinstance": [_P.Call("trp_stri_is_nametoken", [_T_STRI, ("literal", "Deb822FieldNameToken", "tt")], "bool"),
                       _P.Call("trp_cm_is_comment_element", [_T_CM, ("literal", "Deb822CommentElement", "tt")], "bool"),
                       _P.Call("trp_pp_is_nodup", [_T_PP, ("literal", "Deb822NoDuplicateFieldsParagraphElement", "tt")], "bool"),
                       _P.Call("trp_key_is_str", [_T_KEY, ("literal", "str", "tt")], "bool")],
        "_format_comment": _P.Call("tr_format_comment", ["str"], "str", True),
        "<commentish>.__iter__": _P.Call("trp_cm_iter", [_T_CM], _LS, True),
        "<str>.join": [_P.Call("trp_join2", ["str", ("tuple", _T_STRI, "str")], "str"),
                       _P.Call("trp_join4", ["str", ("tuple", "str", "str", "str", "str")], "str")],
        "<str>.splitlines": _C._t_kw(_P.Call("trp_splitlines_keep", ["str", ("literal", "True", "tt")], _LS), [None, "keepends"]),
        "enumerate": _C._t_kw(_P.Call("trp_enumerate", [_LS, "Z"], ("list", ("tuple", "Z", "str"))), [None, "start"]),
        "<str>.format": [_C._t_kw(_P.Call("trp_fmt_i", ["str", "Z"], "str"), [None, "i"]),
                         _C._t_kw(_P.Call("trp_fmt_i_line", ["str", "Z", "char"], "str"), [None, "i", "line"])],
        "iter": [_P.Call("", [_LS], _LS), _P.Call("", [_T_PF], _T_PF)],
        "parse_deb822_file": _P.Call("trp_parse_file", [_LS], _T_PF, True),
        "<pfile>.find_first_error_element": _P.Call("trp_pf_first_error", [_T_PF], ("option", _T_ET)),
        "next": _P.Call("trp_pf_first_para", [_T_PF], _T_PP, True),
        "<ppara>.get_kvpair_element": _C._t_sub("trp_pp_get", [_T_PP, _T_STRI], _T_OKV, ["kvs"]),
        "self.get_kvpair_element": _C._t_kw(_P.Call("tr_nd_get_kvpair_element " + _ND_GV, [_T_KEY, "bool"], _T_OKV, True),
                                            [None, "use_get"]),
        "self._paragraph.get_kvpair_element": _C._t_kw(_P.Call("tr_nd_get_kvpair_element " + _ND_GV, [_T_KEY, "bool"], _T_OKV, True),
                                                       [None, "use_get"]),
        "self.set_kvpair_element": _C._t_sub("tr_nd_set_kvpair_element lower", [_T_KEY, _T_KV], "unit", _C._ND_V),
        "self.set_field_from_raw_string": _C._t_kw(_C._t_sub("tr_nd_set_field_from_raw_string lower",
                                                             [_T_KEY, "str", _T_OB, _T_OCM], "unit", _C._ND_V), _KWS),
        "self._paragraph.set_field_from_raw_string": _C._t_kw(_C._t_sub("tr_nd_set_field_from_raw_string lower",
                                                                        [_T_KEY, "str", _T_OB, _T_OCM], "unit", _C._ND_V), _KWS),
        "self._paragraph.set_field_to_simple_value": _C._t_kw(_C._t_sub("tr_nd_set_field_to_simple_value lower",
                                                                        [_T_KEY, "str", _T_OB, _T_OCM], "unit", _C._ND_V), _KWS),
        "<str>.index": _P.Call("trp_index_lf", ["str", _LF], "Z", True),
        "<str>.split": _P.Call("trp_split_lf_1", ["str", _LF, ("literal", "1", "tt")], _LS),
        "is": _P.Call("trp_stri_is_token", [_T_STRI, _T_TOK], "bool"),
        "<kvdict>.get": _P.Call("trp_kvd_get_opt lower", [_T_KVD, _T_STRI], _T_OKV),
        "<kvdict>.__getitem__": _P.Call("trp_kvd_get lower", [_T_KVD, _T_STRI], _T_KV, True),
        "<kvdict>.__setitem__": _P.Call("trp_kvd_set lower", [_T_KVD, _T_STRI, _T_KV], "unit", mutates=True),
        "<stri>.__eq__": _P.Call("trp_stri_eqb lower", [_T_STRI, _T_STRI], "bool"),
        "self._ensure_final_newline": _C._t_sub("tr_nd_ensure_final_newline lower", [], "unit", _C._ND_V),
        "self._kvpair_order.append": _C._t_sub("trp_os_add lower", [_T_STRI], "unit", ["hp", "s_order"]),
        "<str>.endswith": _P.Call("trp_ends_nl", ["str", _LF], "bool"),
        "<str>.startswith": _P.Call("trp_starts_hash", ["str", _HASH], "bool"),
        "<str>.rstrip": _P.Call("trp_rstrip", ["str"], "str"),
        "<str>.lstrip": _P.Call("trp_lstrip", ["str"], "str"),
        "<str>.strip": _P.Call("trp_strip", ["str"], "str"),
    },
    consts={"self._kvpair_elements": ("s_kv", _T_KVD), "self._kvpair_order": ("s_order", _T_OS),
            "self": ("trp_self_para", _T_PARA),
            "self._preserve_field_comments_on_field_updates": ("trp_flag_true", "bool"),
            "self._auto_resolve_ambiguous_fields": ("trp_flag_true", "bool"),
            "self._auto_map_initial_line_whitespace": ("trp_flag_true", "bool"),
            "self._auto_map_final_newline_in_multiline_values": ("trp_flag_true", "bool")},
    imports=["Gen.TrStruct", "Dict.Common", "Dict.Heap", "Dict.TrPrims", "Repro.StructTrPrims", "Repro.DocTrPrims"])

_T_KVCLASS = _P.HeapClass(
    "kvelem", fields={},
    props={"field_name": (_P.Call("trp_kv_field_name kvs", [_T_KV], _T_STRI, True), None),
           "field_token": (_P.Call("trp_kv_field_token kvs", [_T_KV], _T_TOK, True), None),
           "comment_element": (_P.Call("trp_kv_comment kvs", [_T_KV], _T_OCE, True),
                               _C._t_sub("trp_kv_set_comment", [_T_KV, _T_OCE], "unit", ["kvs"])),
           "parent_element": (None, _C._t_sub("trp_kv_set_parent", [_T_KV, ("option", _T_PARA)], "unit", ["kvs"]))})
TR_MODULE.heap = _P.Heap("hp", _C._T_HEAP, {"Deb822KeyValuePairElement": _T_KVCLASS}, assume="trp_assume_some")
TR_MODULE.coercions = _C._T_COERCIONS + [(("tuple", _T_KEY, "Z"), _T_KEY, "(trp_key_pair %s)"),
                                         (("tuple", _T_STRI, "Z"), _T_KEY, "(trp_key_name_idx %s)"),
                                         (_T_OCE, _T_OCM, "(option_map CElem %s)"),
                                         (_T_CM, _T_OCE, "(trp_cm_as_elem %s)")]
# in the try body of set_field_from_raw_string — self.get_kvpair_element of THIS class — a KeyError is never an
# AmbiguousDeb822FieldKeyError (only _resolve_to_single_node of the duplicates class raises one)
TR_MODULE.catches = {"AmbiguousDeb822FieldKeyError": ((), ())}


# Code that the primitives of coq/Repro/DocTrPrims.v stand for and that the translator does not see, asserted as source text
# (sha256 of ast.unparse, 16 hex digits): a change fails the translation closed.
_T_SHA = {'AutoResolvingMixin._auto_resolve_ambiguous_fields': '017ac70533501efb',
 'Deb822FileElement.find_first_error_element': '38bbbfef48e8f553',
 'Deb822KeyValuePairElement.comment_element@getter': 'b125c8311d59b354',
 'Deb822KeyValuePairElement.comment_element@setter': '498ca5cbf0365aeb',
 'Deb822KeyValuePairElement.field_token': '95d24712e538402b',
 'Deb822ParagraphElement._paragraph': '25bc91c6a6721b46',
 'Deb822ParagraphToStrWrapperMixin._auto_map_final_newline_in_multiline_values': '4c8ddb2e0fa52f35',
 'Deb822ParagraphToStrWrapperMixin._auto_map_initial_line_whitespace': '3cc7b60e9f4e40de',
 'Deb822ParagraphToStrWrapperMixin._preserve_field_comments_on_field_updates': '558bdb44472b4184'}


def _t_assert_set_sources(repo):
    import ast
    import hashlib
    tree = extract._parse(repo, "lib/debian/_deb822_repro/parsing.py")
    for qual, sha in _T_SHA.items():
        got = hashlib.sha256(ast.unparse(_P.find_def(tree, qual)).encode()).hexdigest()[:16]
        if got != sha:
            raise extract.ExtractError("%s changed: a primitive of coq/Repro/DocTrPrims.v models the previous text" % qual)
    # Deb822ParagraphElement does not override the four flags; OrderedSet.append is OrderedSet.add
    cls = [n for n in tree.body if isinstance(n, ast.ClassDef) and n.name == "Deb822ParagraphElement"]
    names = {n.name for n in cls[0].body if isinstance(n, ast.FunctionDef)} if len(cls) == 1 else None
    if names is None or names & {"_auto_resolve_ambiguous_fields", "_auto_map_initial_line_whitespace",
                                 "_auto_map_final_newline_in_multiline_values",
                                 "_preserve_field_comments_on_field_updates"}:
        raise extract.ExtractError("Deb822ParagraphElement overrides a flag property that DocTrPrims.v models as True")
    util = extract._parse(repo, "lib/debian/_util.py")
    if ast.unparse(_P.find_value(util, "OrderedSet.append")) != "add":
        raise extract.ExtractError("OrderedSet.append is no longer OrderedSet.add")


def generate(repo):
    _c10._t_assert_sources(repo)           # _unpack_key, add_final_newline_if_missing, field_name, … (StructTrPrims.v)
    _t_assert_set_sources(repo)
    return _P.translate_module(repo, TR_MODULE)


