"""C06 — ar members are exact, isolated, file-like views of the archive
(debian.arfile.ArFile / ArMember)."""
import ast
import io
import os
import tempfile

from harness import extract
from harness.core import cq_N, cq_Z, cq_bool, cq_list, cq_nat, cq_opt, cq_str, cq_strs, err_kind
from harness.props import _ar

# ---------------------------------------------------------------------------
# coq/Gen/ArConsts.v : header constants and slice bounds, from the source AST


def _const(node, typ):
    if isinstance(node, ast.Constant) and isinstance(node.value, typ) and not isinstance(node.value, bool):
        return node.value
    raise extract.ExtractError("expected a %s literal, got %s" % (typ.__name__, ast.dump(node)[:80]))


_NAMED_SLICES = {}      # module-level  NAME = slice(a, b)  constants of the file being read


def _slice_of(node, var="buf"):
    """node must be  buf[a:b]  with integer literals, or  buf[NAME]  with a module-level
    NAME = slice(a, b)  of integer literals; returns (a, b)."""
    if (isinstance(node, ast.Subscript) and isinstance(node.value, ast.Name) and node.value.id == var):
        sl = node.slice
        if isinstance(sl, ast.Slice) and sl.step is None and sl.lower is not None and sl.upper is not None:
            return _const(sl.lower, int), _const(sl.upper, int)
        if isinstance(sl, ast.Name) and sl.id in _NAMED_SLICES:
            return _NAMED_SLICES[sl.id]
    raise extract.ExtractError("expected %s[a:b], got %s" % (var, ast.dump(node)[:120]))


def _bytes_list(b):
    return "[%s]%%N" % "; ".join(str(x) for x in b)


@extract.register("ArConsts")
def _gen_arconsts(repo):
    tree = extract._parse(repo, "lib/debian/arfile.py")
    _NAMED_SLICES.clear()
    for st in tree.body:
        if (isinstance(st, ast.Assign) and len(st.targets) == 1 and isinstance(st.targets[0], ast.Name)
                and isinstance(st.value, ast.Call) and isinstance(st.value.func, ast.Name) and st.value.func.id == "slice"
                and len(st.value.args) == 2 and not st.value.keywords
                and all(isinstance(a, ast.Constant) and type(a.value) is int for a in st.value.args)):
            _NAMED_SLICES[st.targets[0].id] = (st.value.args[0].value, st.value.args[1].value)
    gh = _const(extract.find_assign(tree.body, "GLOBAL_HEADER"), bytes)
    ghl = extract.find_assign(tree.body, "GLOBAL_HEADER_LENGTH")
    if not (isinstance(ghl, ast.Call) and isinstance(ghl.func, ast.Name) and ghl.func.id == "len"
            and len(ghl.args) == 1 and isinstance(ghl.args[0], ast.Name) and ghl.args[0].id == "GLOBAL_HEADER"):
        raise extract.ExtractError("GLOBAL_HEADER_LENGTH is not len(GLOBAL_HEADER)")
    fhl = _const(extract.find_assign(tree.body, "FILE_HEADER_LENGTH"), int)
    magic = _const(extract.find_assign(tree.body, "FILE_MAGIC"), bytes)
    cls = extract.find_class(tree, "ArMember")
    ff = [n for n in cls.body if isinstance(n, ast.FunctionDef) and n.name == "from_file"]
    if len(ff) != 1:
        raise extract.ExtractError("ArMember.from_file not found")
    slices = {}
    sep = None
    for st in ast.walk(ff[0]):
        # if buf[a:b] != FILE_MAGIC
        if isinstance(st, ast.Compare) and len(st.ops) == 1 and isinstance(st.ops[0], ast.NotEq) \
                and isinstance(st.comparators[0], ast.Name) and st.comparators[0].id == "FILE_MAGIC":
            slices["magic"] = _slice_of(st.left)
        if isinstance(st, ast.Assign) and len(st.targets) == 1:
            tg, v = st.targets[0], st.value
            if isinstance(tg, ast.Name) and tg.id == "name":
                # buf[a:b].split(SEP)[0].strip()
                ok = (isinstance(v, ast.Call) and not v.args and not v.keywords
                      and isinstance(v.func, ast.Attribute) and v.func.attr == "strip"
                      and isinstance(v.func.value, ast.Subscript)
                      and _const(v.func.value.slice, int) == 0
                      and isinstance(v.func.value.value, ast.Call)
                      and isinstance(v.func.value.value.func, ast.Attribute)
                      and v.func.value.value.func.attr == "split"
                      and len(v.func.value.value.args) == 1 and not v.func.value.value.keywords)
                if not ok:
                    raise extract.ExtractError("name = buf[a:b].split(sep)[0].strip() expected")
                sep = _const(v.func.value.value.args[0], bytes)
                slices["name"] = _slice_of(v.func.value.value.func.value)
            if isinstance(tg, ast.Attribute) and isinstance(tg.value, ast.Name) and tg.value.id == "f":
                fld = tg.attr.lstrip("_")
                if fld in ("mtime", "owner", "group", "size"):
                    if not (isinstance(v, ast.Call) and isinstance(v.func, ast.Name) and v.func.id == "int"
                            and len(v.args) == 1 and not v.keywords):
                        raise extract.ExtractError("f.__%s = int(buf[a:b]) expected" % fld)
                    slices[fld] = _slice_of(v.args[0])
                elif fld == "fmode":
                    slices[fld] = _slice_of(v)
    want = ["name", "mtime", "owner", "group", "fmode", "size", "magic"]
    if sorted(slices) != sorted(want):
        raise extract.ExtractError("header slices found: %s" % sorted(slices))
    if sep is None or len(sep) != 1:
        raise extract.ExtractError("name separator is not a single byte: %r" % (sep,))
    out = ["(* GENERATED by harness/props/c06.py from lib/debian/arfile.py. Do not edit. *)\n",
           "From Coq Require Import List NArith ZArith.\nImport ListNotations.\n\n",
           "Definition GLOBAL_HEADER : list N := %s.\n" % _bytes_list(gh),
           "Definition GLOBAL_HEADER_LENGTH : Z := Z.of_nat (length GLOBAL_HEADER).\n",
           "Definition FILE_HEADER_LENGTH : Z := %d%%Z.\n" % fhl,
           "Definition FILE_MAGIC : list N := %s.\n" % _bytes_list(magic),
           "Definition NAME_SEP : N := %d%%N.\n" % sep[0]]
    for k in want:
        out.append("Definition sl_%s : Z * Z := (%d, %d)%%Z.\n" % (k, slices[k][0], slices[k][1]))
    return "".join(out)


# ---------------------------------------------------------------------------
ID = "C06"
CHECK_MODULE = "Ar.Check"
PROPS_FILE = "Props/C06.v"
ANCHORS = [("lib/debian/arfile.py", ["ArFile", "ArMember", "GLOBAL_HEADER", "FILE_HEADER_LENGTH", "FILE_MAGIC"])]
BUDGET = {"quick": 1300, "thorough": 14000}
SHARD = 150
SHARD_IMPORTS = "From Verif Require Import Ar.Ops."
RULE = ("archives written by the harness's own ar writer (harness/props/_ar.py; the same bytes as Coq ArSpec.build, "
        "checked per case): 0-5 members, names from a small pool (duplicates, blanks inside, non-ASCII and "
        "non-UTF-8 bytes, 15/16-byte names, GNU '/' terminator or BSD blank padding), data of odd/even/zero size, "
        "with/without final LF, bytes drawn from {LF, CR, NUL, 0xFF, '`', '!<arch>', header magic, letters}; "
        "three open modes (fileobj=BytesIO, filename=, fileobj=real file); 1-30 calls interleaved across members "
        "(read()/read(n)/read(-n)/readline()/readline(n)/readlines()/seek(o,0|1|2)/tell(); seek targets chosen "
        "non-negative from a shadow position).  15% of cases add calls outside the alphabet (read(0), negative "
        "targets, whence 3): compared with the model, not judged.  Separate malformed stream (15%): truncated, bad "
        "magic/global header, non-decimal or signed/underscored/oversized/negative size, trailing garbage, odd "
        "name fields: compared with the model only.  non-trivial = a well-formed archive with >=1 member and >=1 "
        "call returning data, or a malformed archive")
TRUSTED = ["model coq/Ar/Model.v is a hand transcription of ArFile.__collect_members, ArMember.from_file and "
           "ArMember.read/readline/readlines/seek/tell on top of a model of the underlying binary file "
           "(read/readline/seek/tell of io.BytesIO and of a file opened 'rb'); tied to the code only by this correspondence",
           "bytes.split/strip and int(bytes) as modelled in coq/Lib/PyStr.v and Ar/Model.v py_int",
           "spec coq/Ar/BytesIO.v compared with the real io.BytesIO on every run (spec_validation)"]
ASSUMPTIONS = ["member names are compared as bytes: name.decode(filesystem encoding, 'surrogateescape') is not "
               "modelled; the driver re-encodes the observed str the same way (a bijection on bytes)",
               "read(0) / read(size=0) means 'read everything' in this API (documented difference from file "
               "objects): excluded from the judged alphabet, still compared with the model",
               "readlines(sizehint) ignores its argument; only readlines() is in the alphabet; "
               "seek() returns None (a file object returns the new position): the position is judged through "
               "tell() after every call",
               "close(), next(), __iter__ are outside the property's alphabet and not modelled",
               "archives with a negative size field that make the header walk loop forever "
               "(size <= -60) are outside the model's faithful domain and are not generated"]

NAMES = ["a", "b", "a", "debian-binary", "x y", "control.tar.gz", "\xc3\xa9", "\xff\xfe", "",
         "0123456789abcde", "0123456789abcdef", "A.b-c_d", "`", "data.tar", "a b  c"]
CHUNKS = ["\n", "\n", "\r", "\x00", "\xff", "`", "`\n", "!<arch>\n", "a", "b", "abc", " ", "line\n", "\r\n",
          "x" * 7, "\n\n", "\x60\x0a", "0123456789"]


def _data(rng):
    r = rng.random()
    if r < 0.12:
        return ""
    s = "".join(rng.choice(CHUNKS) for _ in range(rng.randint(1, 7)))
    s = s[:rng.randint(1, 48)]
    r = rng.random()
    if r < 0.3 and not s.endswith("\n"):
        s += "\n"
    elif r < 0.6:
        s = s.rstrip("\n") or "q"
    if rng.random() < 0.25:      # force a parity
        if len(s) % 2 == 0:
            s = s + "z"
    return s


def _member(rng):
    name = rng.choice(NAMES)
    slash = rng.random() < 0.6
    if len(name) >= 16:
        slash = False
    big = rng.random() < 0.15
    return {"name": name, "slash": slash,
            "mtime": rng.choice([0, 1, 1700000000, 10 ** 12 - 1]) if not big else rng.randrange(10 ** 12),
            "owner": rng.choice([0, 1000, 999999]) if not big else rng.randrange(10 ** 6),
            "group": rng.choice([0, 1000, 999999]) if not big else rng.randrange(10 ** 6),
            "mode": rng.choice(["100644  ", "100755  ", "        ", "0\x00\xff     ", "12345678"]),
            "data": _data(rng)}


def _in_dom_op(rng, shadow):
    """One call inside the property's alphabet; shadow = io.BytesIO over the member's data (advanced here)."""
    ln = len(shadow.getvalue())
    pos = shadow.tell()
    k = rng.randrange(12)
    if k == 0:
        op = ["read", None]
    elif k <= 2:
        op = ["read", rng.choice([1, 2, 3, 5, 8, ln, ln + 1, max(1, ln - pos), 60, 100])]
    elif k == 3:
        op = ["read", -rng.randint(1, 3)]
    elif k <= 5:
        op = ["readline", None]
    elif k == 6:
        op = ["readline", rng.choice([0, 1, 2, 3, 5, ln, ln + 5, -1, -7])]
    elif k == 7:
        op = ["readlines"]
    elif k <= 10:
        w = rng.choice([0, 0, 1, 2, None])
        if w in (0, None):
            o = rng.choice([0, 0, 1, 2, ln, max(0, ln - 1), ln + 3, rng.randint(0, ln + 2)])
        elif w == 1:
            o = rng.randint(-pos, max(0, ln - pos) + 3)
        else:
            o = rng.randint(-ln, 3)
        op = ["seek", o, w]
    else:
        op = ["tell"]
    _shadow_apply(shadow, op)
    return op


def _shadow_apply(shadow, op):
    try:
        if op[0] == "read":
            shadow.read(-1 if op[1] in (None, 0) else op[1])
        elif op[0] == "readline":
            shadow.readline(-1 if op[1] is None else op[1])
        elif op[0] == "readlines":
            shadow.readlines()
        elif op[0] == "seek":
            shadow.seek(op[1], op[2] or 0)
    except Exception:
        pass


def _out_dom_op(rng, shadow):
    ln = len(shadow.getvalue())
    pos = shadow.tell()
    k = rng.randrange(6)
    if k == 0:
        op = ["read", 0]
    elif k == 1:
        op = ["seek", -rng.randint(1, 80), 0]
    elif k == 2:
        op = ["seek", -pos - rng.randint(1, 80), 1]
    elif k == 3:
        op = ["seek", -ln - rng.randint(1, 200), 2]
    elif k == 4:
        op = ["seek", rng.randint(-3, 3), rng.choice([3, -1, 7])]
    else:
        op = ["seek", -rng.randint(60, 200), 0]
    _shadow_apply(shadow, op)
    return op


def _ops(rng, members, outside):
    if not members:
        return [], 0
    shadows = [io.BytesIO(m["data"].encode("latin-1")) for m in members]
    ops = []
    n_out = 0
    # a few members get most of the traffic so that sequences on one member are long
    weights = [rng.choice([1, 1, 3, 6]) for _ in members]
    for _ in range(rng.randint(1, 30)):
        i = rng.choices(range(len(members)), weights)[0]
        if outside and rng.random() < 0.2:
            ops.append([i, _out_dom_op(rng, shadows[i])])
            n_out += 1
        else:
            ops.append([i, _in_dom_op(rng, shadows[i])])
    return ops, n_out


def _free_ops(rng, nmax):
    ops = []
    for _ in range(rng.randint(1, 12)):
        i = rng.randrange(nmax)
        k = rng.randrange(6)
        if k == 0:
            op = ["read", rng.choice([None, 1, 5, 70, -1, 0])]
        elif k == 1:
            op = ["readline", rng.choice([None, 0, 3, 80])]
        elif k == 2:
            op = ["readlines"]
        elif k <= 4:
            op = ["seek", rng.randint(-5, 70), rng.choice([0, 1, 2])]
        else:
            op = ["tell"]
        ops.append([i, op])
    return ops


def _malformed(rng):
    """(archive bytes as latin-1 str, kind)"""
    kind = rng.choice(["truncate", "magic", "global", "size_text", "size_int_forms", "size_big", "size_neg",
                       "trailing", "empty", "name_forms", "field_ws", "mtime_text", "short_global", "pad_missing",
                       "size_text", "size_int_forms", "size_big", "size_neg", "name_forms", "field_ws", "truncate"])
    members = [_member(rng) for _ in range(rng.randint(0 if kind in ("truncate", "global", "trailing") else 1, 3))]
    if kind == "pad_missing":
        members[0]["data"] += "z" if len(members[0]["data"]) % 2 == 0 else ""
        members.append(_member(rng))
    good = _ar.build(members)
    b = bytearray(good)
    if kind == "truncate":
        b = b[:rng.randint(0, len(b))]
    elif kind == "magic" and members:
        k = rng.randrange(len(members))
        off = 8 + sum(len(_ar.member_bytes(m)) for m in members[:k])
        b[off + 58 + rng.randrange(2)] ^= rng.choice([1, 0x20, 0xff])
    elif kind == "global":
        b[rng.randrange(8)] ^= rng.choice([1, 0x20])
    elif kind == "short_global":
        b = b[:rng.randint(0, 7)]
    elif kind == "empty":
        b = bytearray()
    elif kind == "trailing":
        b += bytes(rng.choice([b"\n", b"x", b" " * 59, b"\n" * 60, b"!<arch>\n", b" " * 58 + b"`\n",
                               b"n/" + b" " * 46 + b"3" + b" " * 9 + b"`\nabc"]))
    elif kind == "pad_missing" and members:
        # drop the padding byte of the first odd member: following headers are misaligned
        off = 8
        for m in members:
            mb = _ar.member_bytes(m)
            if len(m["data"]) % 2:
                del b[off + len(mb) - 1]
                break
            off += len(mb)
    elif members:
        k = rng.randrange(len(members))
        off = 8 + sum(len(_ar.member_bytes(m)) for m in members[:k])

        def put(lo, hi, text):
            text = text[:hi - lo]
            b[off + lo:off + hi] = text + b" " * (hi - lo - len(text))
        n = len(members[k]["data"])
        if kind == "size_text":
            put(48, 58, rng.choice([b"", b"x", b"12a", b"0x10", b"1 2", b"_1", b"1_", b"1__0", b"-", b"+", b"- 1",
                                    b"\xb2", b"1\x002", b"1.0", b"1e2"]))
        elif kind == "size_int_forms":
            put(48, 58, rng.choice([b"+%d" % n, b" %d" % n, b"\t%d\n" % n, b"0%d" % n, b"000%d" % n,
                                    b"\x0c%d\x0b" % n, b"%d" % n if n < 10 else b"%d_%d" % (n // 10, n % 10),
                                    b"\x1c%d" % n, b"-0", b"+0_0"]))
        elif kind == "size_big":
            put(48, 58, b"%d" % rng.choice([n + 1, n + 2, n + 61, 1000, 9999999999]))
        elif kind == "size_neg":
            put(48, 58, b"-%d" % rng.randint(1, 58))
        elif kind == "name_forms":
            put(0, 16, rng.choice([b"/", b"//", b"/0", b"a/b/c", b" a/", b"\ta\n/", b"a /", b"a/ b", b"/a",
                                   b"\x0b\x0ca\r", b"\x1ca\x1c/", b"a\x00/", b"#1/20", b"a//"]))
        elif kind == "field_ws":
            lo, hi = rng.choice([(16, 28), (28, 34), (34, 40)])
            put(lo, hi, rng.choice([b" 7", b"\t7", b"+7", b"-7", b"0_7", b"", b"7 7", b"07", b"\n7\r"]))
        elif kind == "mtime_text":
            put(16, 28, rng.choice([b"x", b"", b"1.5", b"0x1"]))
    return bytes(b).decode("latin-1"), kind


def generate(rng, n, tier):
    for _ in range(n):
        mode = rng.choice([0, 0, 1, 1, 2])
        r = rng.random()
        if r < 0.15:
            arch, kind = _malformed(rng)
            yield {"mode": mode, "wf": False, "kind": "malformed:" + kind, "written": [], "archive": arch,
                   "lookups": ["a", "b", ""], "ops": _free_ops(rng, 3)}
            continue
        members = [_member(rng) for _ in range(rng.choice([0, 1, 1, 2, 2, 3, 3, 4, 5]))]
        outside = r < 0.30
        names = []
        for m in members:
            if m["name"] not in names:
                names.append(m["name"])
        names.append(rng.choice(["zz", "a", "A", " a", "a/"]))
        ops, n_out = _ops(rng, members, outside) if members else ([], 0)
        yield {"mode": mode, "wf": True, "kind": "outside" if outside else "inside", "written": members,
               "archive": _ar.build(members).decode("latin-1"), "lookups": names,
               "ops": ops, "n_outside": n_out}


def from_json(j):
    return j


# ---------------------------------------------------------------------------
# implementation driver

_TMP = {"dir": None}


def _tmpdir():
    if _TMP["dir"] is None or not os.path.isdir(_TMP["dir"]):
        import atexit
        import shutil
        _TMP["dir"] = tempfile.mkdtemp(prefix="verif-c06-")
        atexit.register(shutil.rmtree, _TMP["dir"], True)
    return _TMP["dir"]


def _fsdecode(s):
    import sys
    return s.encode("latin-1").decode(sys.getfilesystemencoding(), "surrogateescape")


def _fsencode(s):
    import sys
    return s.encode(sys.getfilesystemencoding(), "surrogateescape").decode("latin-1")


def _l1(b):
    return b.decode("latin-1")


def call_op(f, op):
    """Applies one call to a file-like object; returns the canonical result."""
    try:
        if op[0] == "read":
            r = f.read() if op[1] is None else f.read(op[1])
            return ["bytes", _l1(r)]
        if op[0] == "readline":
            r = f.readline() if op[1] is None else f.readline(op[1])
            return ["bytes", _l1(r)]
        if op[0] == "readlines":
            return ["lines", [_l1(x) for x in f.readlines()]]
        if op[0] == "seek":
            r = f.seek(op[1]) if op[2] is None else f.seek(op[1], op[2])
            return ["none"] if r is None else ["int", r]
        if op[0] == "tell":
            return ["int", f.tell()]
    except Exception as e:
        return ["err", err_kind(e)]
    raise ValueError(op)


def run_impl(case):
    from debian import arfile
    data = case["archive"].encode("latin-1")
    mode = case["mode"]
    fo = None
    path = None
    members = []
    try:
        if mode != 0:
            fd, path = tempfile.mkstemp(dir=_tmpdir())
            with os.fdopen(fd, "wb") as f:
                f.write(data)
        try:
            if mode == 0:
                fo = io.BytesIO(data)
                ar = arfile.ArFile(fileobj=fo)
            elif mode == 1:
                ar = arfile.ArFile(filename=path)
            else:
                fo = open(path, "rb")
                ar = arfile.ArFile(fileobj=fo)
        except Exception as e:
            return {"err": err_kind(e)}
        # the name list an earlier caller got is its own (getnames() builds a new list; getmembers() is documented
        # like tarfile's: it hands out the archive's own list, so that one is left alone): editing it must not
        # change what the archive says next
        for scribble in (ar.getnames(), ar.getnames()):
            try:
                scribble.clear()
                scribble.append("scribbled-by-an-earlier-caller")
            except Exception:
                pass
        names = ar.getnames()
        members = ar.getmembers()
        if len(names) != len(members) or list(ar) != list(members):
            return {"err": "OtherError"}
        listing = [{"name": _fsencode(n), "size": m.size, "owner": m.owner, "group": m.group,
                    "mtime": m.mtime, "fmode": _l1(m.fmode)} for n, m in zip(names, members)]
        looked = []
        for n in case["lookups"]:
            try:
                m = ar.getmember(_fsdecode(n))
                idx = [i for i, x in enumerate(members) if x is m]
                looked.append(["ok", idx[0]] if len(idx) == 1 else ["err", "OtherError"])
            except Exception as e:
                looked.append(["err", err_kind(e)])
        steps = []
        for i, op in case["ops"]:
            if i >= len(members):
                steps.append([["err", "IndexError"], 0, None])
                continue
            r = call_op(members[i], op)
            steps.append([r, members[i].tell(), fo.tell() if fo is not None else None])
        return {"listing": listing, "looked": looked, "steps": steps}
    finally:
        for m in members:
            try:
                m.close()
            except Exception:
                pass
        if fo is not None:
            fo.close()
        if path:
            os.unlink(path)


# ---------------------------------------------------------------------------
# Coq emitter

def _cq_op(op):
    if op[0] == "read":
        return "Read %s" % cq_opt(op[1], cq_Z)
    if op[0] == "readline":
        return "Readline %s" % cq_opt(op[1], cq_Z)
    if op[0] == "readlines":
        return "Readlines"
    if op[0] == "seek":
        return "Seek %s %s" % (cq_Z(op[1]), cq_Z(op[2] or 0))
    return "Tell"


def _cq_out(r):
    if r[0] == "bytes":
        return "LBytes %s" % cq_str(r[1])
    if r[0] == "lines":
        return "LLines %s" % cq_strs(r[1])
    if r[0] == "none":
        return "LNone"
    if r[0] == "int":
        return "LInt %s" % cq_Z(r[1])
    return "LErr %s" % r[1]


def _cq_res_nat(r):
    return "Ok %s" % cq_nat(r[1]) if r[0] == "ok" else "Err %s" % r[1]


def emit(case, obs):
    if case.get("spec"):
        return "SpecCase %s %s %s" % (
            cq_str(case["data"]), cq_list([_cq_op(o) for o in case["ops"]]),
            cq_list(["(%s, %s)" % (_cq_out(r), cq_Z(t)) for r, t in obs]))
    written = cq_list(["mkWL %s %s %s %s %s %s %s" % (
        cq_str(m["name"]), cq_bool(m["slash"]), cq_N(m["mtime"]), cq_N(m["owner"]), cq_N(m["group"]),
        cq_str(m["mode"]), cq_str(m["data"])) for m in case["written"]])
    ops = cq_list(["(%s, %s)" % (cq_nat(i), _cq_op(o)) for i, o in case["ops"]])
    if "err" in obs:
        o = "(Err %s)" % obs["err"]
    else:
        listing = cq_list(["mkLL %s %s %s %s %s %s" % (
            cq_str(l["name"]), cq_Z(l["size"]), cq_Z(l["owner"]), cq_Z(l["group"]), cq_Z(l["mtime"]),
            cq_str(l["fmode"])) for l in obs["listing"]])
        looked = cq_list([_cq_res_nat(r) for r in obs["looked"]])
        steps = cq_list(["(%s, %s, %s)" % (_cq_out(r), cq_Z(t), cq_opt(sh, cq_Z)) for r, t, sh in obs["steps"]])
        o = "(Ok (%s, %s, %s))" % (listing, looked, steps)
    return "ArCase %s %s %s %s %s %s %s" % (
        cq_N(case["mode"]), cq_bool(case["wf"]), written, cq_str(case["archive"]),
        cq_strs(case["lookups"]), ops, o)


# ---------------------------------------------------------------------------

def classify(case, obs):
    if case.get("spec"):
        return "spec"
    res = obs["err"] if "err" in obs else "ok"
    kind = case["kind"] if not case["wf"] else "%s/n=%d" % (case["kind"], len(case["written"]))
    return "mode%d/%s/%s" % (case["mode"], kind, res)


def nontrivial(case, obs):
    if not case["wf"]:
        return True
    if "err" in obs or not case["written"]:
        return False
    return any(r[0] in ("bytes", "lines") and r[1] for r, _, _ in obs["steps"])


def extra_evidence(items):
    feats = {"members_odd": 0, "members_even_nonempty": 0, "members_empty": 0, "members_final_lf": 0,
             "members_no_final_lf": 0, "archives_with_duplicate_names": 0, "calls": {}, "calls_outside_alphabet": 0,
             "calls_total": 0, "archives_interleaving_2plus_members": 0}
    for c, o in items:
        if not c.get("wf"):
            continue
        for m in c["written"]:
            n = len(m["data"])
            feats["members_empty" if n == 0 else "members_odd" if n % 2 else "members_even_nonempty"] += 1
            if n:
                feats["members_final_lf" if m["data"].endswith("\n") else "members_no_final_lf"] += 1
        nm = [m["name"] for m in c["written"]]
        if len(set(nm)) < len(nm):
            feats["archives_with_duplicate_names"] += 1
        if len(set(i for i, _ in c["ops"])) >= 2:
            feats["archives_interleaving_2plus_members"] += 1
        feats["calls_outside_alphabet"] += c.get("n_outside", 0)
        for _, op in c["ops"]:
            feats["calls"][op[0]] = feats["calls"].get(op[0], 0) + 1
            feats["calls_total"] += 1
    return {"input_features": feats}


def shrink(case):
    if case.get("spec"):
        return
    ops = case["ops"]
    if len(ops) > 3:
        yield dict(case, ops=ops[:len(ops) // 2])
        yield dict(case, ops=ops[len(ops) // 2:])
        for k in sorted(set(i for i, _ in ops)):
            yield dict(case, ops=[x for x in ops if x[0] == k])
    for i in range(len(ops)):
        yield dict(case, ops=ops[:i] + ops[i + 1:])
    if case["wf"]:
        ms = case["written"]
        for k in range(len(ms)):
            if any(i == k for i, _ in ops):
                continue
            nms = ms[:k] + ms[k + 1:]
            nops = [[i - 1 if i > k else i, o] for i, o in ops]
            yield dict(case, written=nms, archive=_ar.build(nms).decode("latin-1"), ops=nops)
        for k, m in enumerate(ms):
            d = m["data"]
            cands = []
            if len(d) > 1:
                cands += [d[:len(d) // 2], d[len(d) // 2:], d[1:], d[:-1]]
            cands += [d[:j] + d[j + 1:] for j in range(min(len(d), 12))]
            for nd in cands:
                nms = ms[:k] + [dict(m, data=nd)] + ms[k + 1:]
                yield dict(case, written=nms, archive=_ar.build(nms).decode("latin-1"))
            if (m["mtime"], m["owner"], m["group"], m["mode"]) != (0, 0, 0, "100644  "):
                nms = ms[:k] + [dict(m, mtime=0, owner=0, group=0, mode="100644  ")] + ms[k + 1:]
                yield dict(case, written=nms, archive=_ar.build(nms).decode("latin-1"))
        if len(case["lookups"]) > 0:
            yield dict(case, lookups=[])
        for j, (i, o) in enumerate(ops):
            if o[0] in ("read", "readline") and o[1] is not None:
                yield dict(case, ops=ops[:j] + [[i, [o[0], None]]] + ops[j + 1:])
    if case["mode"] != 0:
        yield dict(case, mode=0)


def neighbours(case, rng):
    for mode in (0, 1, 2):
        if mode != case["mode"]:
            yield dict(case, mode=mode)
    ops = case["ops"]
    for k in range(1, len(ops)):
        yield dict(case, ops=ops[:k])


def describe(case, obs):
    if case.get("spec"):
        return {"call": "io.BytesIO(data) driven by ops", "observed": obs}
    how = {0: "ArFile(fileobj=io.BytesIO(archive))", 1: "ArFile(filename=<file holding archive>)",
           2: "ArFile(fileobj=open(<file holding archive>, 'rb'))"}[case["mode"]]
    return {"call": how + "; then ops = [member index, call] applied to getmembers()[index] in order",
            "members_written": [{"name": m["name"], "data": m["data"]} for m in case["written"]],
            "ops": case["ops"], "observed": obs,
            "specified": "listing == members written (name, size, owner, group, mtime); getmember(name) is the last "
                         "member of that name; every call result and the tell() after it equal those of "
                         "io.BytesIO(member data) under the same calls"}


# ---------------------------------------------------------------------------
# spec-side validation: coq/Ar/BytesIO.v against the real io.BytesIO

def _spec_cases(items, tier):
    import random
    rng = random.Random(6006)
    out = []
    limit = 400 if tier == "quick" else 4000
    for c, o in items:
        if len(out) >= limit:
            break
        if not c.get("wf") or not c["written"]:
            continue
        for k, m in enumerate(c["written"]):
            ops = [op for i, op in c["ops"] if i == k]
            if ops:
                out.append({"spec": True, "data": m["data"], "ops": ops})
    # free sequences, including calls outside the alphabet
    for _ in range(limit // 2):
        data = _data(rng)
        sh = io.BytesIO(data.encode("latin-1"))
        ops = []
        for _ in range(rng.randint(1, 15)):
            ops.append(_out_dom_op(rng, sh) if rng.random() < 0.25 else _in_dom_op(rng, sh))
        out.append({"spec": True, "data": data, "ops": ops})
    return out


def run_spec(case):
    f = io.BytesIO(case["data"].encode("latin-1"))
    obs = []
    for op in case["ops"]:
        # the reference is called the way a file object is: read() == read(-1)
        r = call_op(f, op)
        obs.append([r, f.tell()])
    return obs


def spec_selftest(items, scratch, tier):
    import sys
    from harness import core
    cases = _spec_cases(items, tier)
    sitems = [(c, run_spec(c)) for c in cases]
    mod = sys.modules[__name__]
    ab, hb, errs = core.evaluate(mod, scratch, sitems, tag="spec")
    dis = [{"case": sitems[i][0], "io.BytesIO": sitems[i][1]} for i in hb[:5]]
    if errs:
        dis.append({"shard_errors": errs[:1]})
    return {"oracle": "io.BytesIO of the running interpreter", "compared": len(sitems),
            "calls": sum(len(c["ops"]) for c in cases), "disagreements": dis}


# ---------------------------------------------------------------------------
# TIE BY REGENERATION: the file interface of ArMember (read, readline, readlines, seek, tell) is regenerated from
# lib/debian/arfile.py into coq/Gen/TrArMember.v on every run (harness/py2coq.py, METHOD MODE: the private
# attributes are threaded as state); coq/Ar/Tie.v proves each regenerated method equal to the model's
# `member_op` on ALL states, file contents and handle positions; statements in coq/Props/C06Tie.v.
from harness import py2coq as _P   # noqa: E402

_FH = ("coq", "fileh")
_ST = [("self.__fp", "s_fp", ("option", _FH)), ("self.__fname", "s_fname", ("option", "str")),
       ("self.__offset", "s_off", "Z"), ("self.__end", "s_end", "Z"), ("self.__cur", "s_cur", "Z")]
_GH = [("k", ("coq", "fkind")), ("d", "str")]      # ghost: kind of the underlying file object, bytes of the archive


def _m(coq, name, params, ret, **kw):
    return _P.Fun(coq, "ArMember." + name, params, ret, skip_first=True, state=_ST, ghost=_GH, **kw)


_readline_self = _P.Call("tr_readline", [("option", "Z")], "str")
_readline_self.selfmethod = "ArMember.readline"

TR_MODULE = _P.Module(
    "TrArMember", "lib/debian/arfile.py",
    funs=[
        _m("tr_read", "read", [("size", "Z")], "str", locals={"buf": "str"}),
        # read() without argument: the default of `size` is taken from the source
        _m("tr_read_noarg", "read", [], "str", locals={"size": "Z", "buf": "str"}),
        _m("tr_readline", "readline", [("size", ("option", "Z"))], "str", locals={"remaining": "Z", "buf": "str"}),
        _m("tr_readlines", "readlines", [("sizehint", "Z")], ("list", "str"),
           locals={"buf": ("option", "str"), "lines": ("list", "str")}, fuel={1: "S (length d)"}),
        _m("tr_seek", "seek", [("offset", "Z"), ("whence", "Z")], "unit"),
        _m("tr_tell", "tell", [], "Z"),
    ],
    calls={
        "open": _P.Call("trp_open", [("option", "str"), ("literal", "'rb'", "tt")], _FH, True),
        "<fileh>.seek": _P.Call("trp_fseek k", [_FH, "Z"], "Z", True, mutates=True),
        "<fileh>.read": _P.Call("trp_fread d", [_FH, "Z"], "str", mutates=True),
        "<fileh>.readline": _P.Call("trp_freadline d", [_FH, ("option", "Z")], "str", mutates=True),
        "<fileh>.tell": _P.Call("trp_ftell", [_FH], "Z"),
        "self.readline": _readline_self,
    },
    imports=["Ar.Ops", "Ar.Model", "Ar.TrPrims"])
# flow typing: in readlines `buf = None` then `buf = self.readline()`: `not buf` is the emptiness test of bytes
TR_MODULE.funs[3].narrow = True


@extract.register("TrArMember")
def _gen_tr(repo):
    return _P.translate_module(repo, TR_MODULE)


TIE_FILE = "Props/C06Tie.v"
