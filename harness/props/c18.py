"""C18 — ed-style patch scripts are applied exactly (debian_support.patches_from_ed_script / patch_lines)."""
import difflib
import os
import subprocess

from harness.core import cq_bool, cq_opt, cq_strs, err_kind

ID = "C18"
CHECK_MODULE = "Pdiff.EdCheck"
PROPS_FILE = "Props/C18.v"
ANCHORS = [("lib/debian/debian_support.py",
            ["patches_from_ed_script", "patch_lines", "_patch_re_raw", "_patch_re", "_patch_re_b"])]
BUDGET = {"quick": 2500, "thorough": 40000}
RULE = ("(old,new) line-list pairs built by random edits over a small vocabulary (so that lines repeat); "
        "script rendered from the alignment by the harness's own generator, from difflib opcodes, or by "
        "/usr/bin/diff -e; str and bytes; separate malformed stream: one corrupted command per script "
        "(bad letter, range on 'a', missing terminator, truncated block, garbage, empty line, stray space, "
        "non-ASCII digit).  non-trivial = script has >=1 command and old != new, or the script is malformed")
TRUSTED = ["model coq/Pdiff/Ed.v is a hand transcription of patches_from_ed_script/patch_lines "
           "(regex leaf match_cmd for ^(\\d+)(?:,(\\d+))?([acd])$ included); tied to the code only by this correspondence",
           "Python list slice assignment as modelled in coq/Lib/PySlice.v"]
ASSUMPTIONS = ["int() digit limit (4300 digits) not modelled: generated addresses are < 10^6",
               "str pattern's \\d = Unicode Nd, table generated from the running interpreter (coq/Gen/PyChars.v)",
               "lines equal to '.' or '.\\n' or '' cannot be carried by this script form and are excluded from (old,new)"]

VOCAB = ["a\n", "b\n", "c\n", "\n", " x\n", "#\n", "1a\n", "2,3d\n", "..\n", "é z\n", "a", ". \n"]


def _lines(rng, n, vocab=VOCAB):
    return [rng.choice(vocab) for _ in range(n)]


def _rand_alignment(rng):
    """list of ('k', lines) | ('h', dels, ins)"""
    al = []
    for _ in range(rng.randint(0, 5)):
        r = rng.random()
        if r < 0.4:
            al.append(("k", _lines(rng, rng.randint(0, 3))))
        else:
            d = _lines(rng, rng.choice([0, 0, 1, 1, 2, 3]))
            i = _lines(rng, rng.choice([0, 0, 1, 1, 2, 3]))
            if not d and not i:
                i = _lines(rng, 1)
            al.append(("h", d, i))
    return al


def _old_new(al):
    old, new = [], []
    for s in al:
        if s[0] == "k":
            old += s[1]
            new += s[1]
        else:
            old += s[1]
            new += s[2]
    return old, new


def _cmd(pos, d, i, wide=False):
    """ed command for a hunk at old position pos (0-based count of preceding old lines)."""
    if not d:
        return ["%da\n" % pos] + i + [".\n"]
    if len(d) == 1 and not wide:
        addr = "%d" % (pos + 1)
    else:
        addr = "%d,%d" % (pos + 1, pos + len(d))
    if not i:
        return [addr + "d\n"]
    return [addr + "c\n"] + i + [".\n"]


def script_from_alignment(al, wide=False):
    cmds, pos = [], 0
    for s in al:
        if s[0] == "k":
            pos += len(s[1])
        else:
            cmds.append(_cmd(pos, s[1], s[2], wide))
            pos += len(s[1])
    out = []
    for c in reversed(cmds):
        out += c
    return out


def script_from_difflib(old, new):
    sm = difflib.SequenceMatcher(None, old, new, autojunk=False)
    cmds = []
    for tag, i1, i2, j1, j2 in sm.get_opcodes():
        if tag == "equal":
            continue
        cmds.append(_cmd(i1, old[i1:i2], new[j1:j2]))
    out = []
    for c in reversed(cmds):
        out += c
    return out


def script_from_diff_e(old, new, scratch_dir):
    a = os.path.join(scratch_dir, "a")
    b = os.path.join(scratch_dir, "b")
    with open(a, "w", encoding="utf-8", newline="") as f:
        f.write("".join(old))
    with open(b, "w", encoding="utf-8", newline="") as f:
        f.write("".join(new))
    p = subprocess.run(["diff", "-e", a, b], stdout=subprocess.PIPE, stderr=subprocess.PIPE)
    if p.returncode not in (0, 1):
        return None
    return p.stdout.decode("utf-8").splitlines(keepends=True)


def _corrupt(rng, script):
    """One corruption; returns (script, kind)."""
    s = list(script)
    cmd_idx = []
    in_blk = False
    for k, l in enumerate(s):
        if in_blk:
            if l in (".\n", "."):
                in_blk = False
            continue
        cmd_idx.append(k)
        if l.rstrip("\n")[-1:] in ("a", "c"):
            in_blk = True
    kind = rng.choice(["letter", "range_a", "noterm", "truncate", "garbage", "empty", "space",
                       "upper", "nodigits", "unidigit", "trailing", "term_nolf", "cmd_nolf",
                       "dot_space", "comma_only", "neg"])
    if not cmd_idx:
        s = ["%da\n" % 0, "x\n"]
        return s, "noterm"
    k = rng.choice(cmd_idx)
    l = s[k]
    body = l.rstrip("\n")
    if kind == "letter":
        s[k] = body[:-1] + rng.choice("bxi ") + "\n"
    elif kind == "range_a":
        # a range on an append is malformed whatever its endpoints: different, equal, zero, descending
        s[k] = rng.choice(["1,2a\n", "3,3a\n", "0,0a\n", "2,1a\n", "7,7a\n", "%s,%sa\n" % ((body[:-1].split(",")[0] or "1",) * 2)])
        s[k + 1:k + 1] = [] if body.endswith(("a", "c")) else ["t\n", ".\n"]
    elif kind == "noterm":
        terms = [j for j, x in enumerate(s) if x in (".\n", ".")]
        if terms:
            j = terms[-1]
            del s[j:]
        else:
            s += ["5a\n", "zz\n"]
    elif kind == "truncate":
        s = s[:rng.randint(1, len(s))]
    elif kind == "garbage":
        s.insert(k, rng.choice(["garbage\n", "a\n", ",1d\n", "1,d\n", "1;2d\n", "d\n", "1 d\n", "0x1d\n", "1dd\n", "\n"]))
    elif kind == "empty":
        s.insert(min(len(s), k + 1), "")
    elif kind == "space":
        s[k] = " " + l
    elif kind == "upper":
        s[k] = body.upper() + "\n"
    elif kind == "nodigits":
        s[k] = body.lstrip("0123456789") + "\n"
    elif kind == "unidigit":
        s[k] = "٣" + l
    elif kind == "trailing":
        s[k] = body + " \n"
    elif kind == "term_nolf":
        s = [("." if x == ".\n" else x) for x in s]
    elif kind == "cmd_nolf":
        s[k] = body
    elif kind == "dot_space":
        s = [(". \n" if x == ".\n" else x) for x in s]
    elif kind == "comma_only":
        s[k] = body[:-1] + "," + body[-1] + "\n"
    elif kind == "neg":
        s[k] = "-" + l
    return s, kind


def generate(rng, n, tier):
    have_diff = os.path.exists("/usr/bin/diff")
    tmp = None
    for k in range(n):
        al = _rand_alignment(rng)
        # text lines that the script form cannot carry are replaced
        al = [s if s[0] == "k" else ("h", s[1], [x for x in s[2] if x not in (".", ".\n", "")] or (["q\n"] if not s[1] else []))
              for s in al]
        old, new = _old_new(al)
        bts = rng.random() < 0.4
        r = rng.random()
        if r < 0.45:
            script = script_from_alignment(al, wide=rng.random() < 0.3)
            src = "alignment"
        elif r < 0.6:
            script = script_from_difflib(old, new)
            src = "difflib"
        elif r < 0.7 and have_diff and tier == "thorough" and all(x.endswith("\n") for x in old + new) \
                and not any(x in (".\n",) or " " in x for x in old + new):
            import tempfile
            if tmp is None:
                tmp = tempfile.mkdtemp(prefix="verif-c18-")
            script = script_from_diff_e(old, new, tmp)
            src = "diff-e"
            if script is None:
                continue
        else:
            base = script_from_alignment(al)
            script, kind = _corrupt(rng, base)
            src = "corrupt:" + kind
        expect = new if not src.startswith("corrupt") else None
        case = {"bytes": bts, "old": old, "script": script, "expect": expect, "src": src}
        yield case
    if tmp:
        import shutil
        shutil.rmtree(tmp, ignore_errors=True)


def from_json(j):
    return j


def _conv(x, bts):
    return x.encode("utf-8") if bts else x


def run_impl(case):
    from debian import debian_support
    bts = case["bytes"]
    lines = [_conv(x, bts) for x in case["old"]]
    script = [_conv(x, bts) for x in case["script"]]
    out = {}
    try:
        debian_support.patch_lines(lines, debian_support.patches_from_ed_script(script))
        out["ok"] = [x.decode("utf-8") if bts else x for x in lines]
    except Exception as e:
        out["err"] = err_kind(e)
    # the same patches, collected first and applied afterwards
    lines2 = [_conv(x, bts) for x in case["old"]]
    try:
        patches = list(debian_support.patches_from_ed_script(list(script)))
        debian_support.patch_lines(lines2, patches)
        out["ok2"] = [x.decode("utf-8") if bts else x for x in lines2]
    except Exception as e:
        out["err2"] = err_kind(e)
    return out


def _enc(s, bts):
    # in the bytes flavour characters are bytes: emit the UTF-8 bytes as code points
    return s.encode("utf-8").decode("latin-1") if bts else s


def emit(case, obs):
    bts = case["bytes"]
    e = lambda ls: cq_strs([_enc(x, bts) for x in ls])
    o = "(Ok %s)" % e(obs["ok"]) if "ok" in obs else "(Err %s)" % obs["err"]
    o2 = "(Ok %s)" % e(obs["ok2"]) if "ok2" in obs else "(Err %s)" % obs["err2"]
    return "mk %s %s %s %s %s %s" % (cq_bool(bts), e(case["old"]), e(case["script"]),
                                     cq_opt(case["expect"], e), o, o2)


def classify(case, obs):
    return "%s/%s/%s" % ("bytes" if case["bytes"] else "str", case["src"], "ok" if "ok" in obs else obs["err"])


def nontrivial(case, obs):
    if case["src"].startswith("corrupt"):
        return True
    return bool(case["script"]) and case["old"] != case["expect"]


def shrink(case):
    old, script = case["old"], case["script"]
    derived = case["expect"] is not None
    if not derived:
        for i in range(len(script)):
            yield dict(case, script=script[:i] + script[i + 1:])
        for i in range(len(old)):
            yield dict(case, old=old[:i] + old[i + 1:])
        for i, l in enumerate(script):
            if len(l) > 1:
                for j in range(len(l)):
                    yield dict(case, script=script[:i] + [l[:j] + l[j + 1:]] + script[i + 1:])
    if case["bytes"]:
        yield dict(case, bytes=False)


def describe(case, obs):
    return {"call": "patch_lines(old, patches_from_ed_script(script)) with %s lines; 'ok2'/'err2' = the same with "
                    "patches = list(patches_from_ed_script(script)) collected first" % ("bytes" if case["bytes"] else "str"),
            "old": case["old"], "script": case["script"], "expected_new": case["expect"],
            "observed": obs,
            "specified": "result == expected_new when the script was derived from (old,new); "
                         "ValueError when the script is outside the ed command grammar"}


# ---------------------------------------------------------------------------------------------------
# Tie by regeneration: the control flow of patches_from_ed_script and patch_lines is regenerated from
# the source on every run (coq/Gen/TrEd.v) and proved equal to the model (Pdiff/EdTie.v, Props/C18Tie.v).
#
# str/bytes: lines are code-point lists either way; ONE translation with a leading Coq parameter
# `is_bytes : bool` (ghost) meaning "the elements of `source` are bytes objects".  isinstance(line, bytes),
# int() and the pattern match read it (Pdiff/TrPrims.v).  `re_cmd` is None in every call inside /repo: it is
# left out of the spec, so the translator binds it to its default None.
from harness import extract, py2coq as _P   # noqa: E402

TIE_FILE = "Props/C18Tie.v"

_PAT = ("coq", "trp_pattern")
_GROUPS = ("tuple", "str", ("option", "str"), "str")
_PATCH = ("tuple", "Z", "Z", ("list", "str"))

_F_PARSE = _P.Fun(
    "tr_patches_from_ed_script", "patches_from_ed_script", [("source", ("list", "str"))], _PATCH,
    locals={"re_cmd": ("option", _PAT), "i": ("iter", "str"), "patch_re": ("option", _PAT), "line": "str",
            "match": ("option", _GROUPS), "first_": "str", "last_": ("option", "str"), "cmd": "str",
            "first": "Z", "last": ("option", "Z"), "lines": ("list", "str"), "c": "str"},
    fuel={1: "S (length source)", 2: "S (length i)"}, generator=True, ghost=[("is_bytes", "bool")])
_F_PARSE.narrow = True          # `last` is Optional[int] until `if last is None: last = …`, an int afterwards (yielded)

_F_APPLY = _P.Fun(
    "tr_patch_lines", "patch_lines", [("lines", ("list", "str")), ("patches", ("list", _PATCH))], ("list", "str"),
    locals={"first": "Z", "last": "Z", "args": ("list", "str")})
_F_APPLY.result_var = "lines"   # patch_lines changes `lines` in place and returns None: the final `lines` is returned

TR_MODULE = _P.Module(
    "TrEd", "lib/debian/debian_support.py",
    funs=[_F_PARSE, _F_APPLY],
    calls={
        "isinstance": _P.Call("trp_isinstance is_bytes", ["str", ("coq", "trp_pytype")], "bool"),
        "<option>.match": _P.Call("trp_match is_bytes", [("option", _PAT), "str"], ("option", _GROUPS), True),
        "<tuple>.groups": _P.Call("trp_groups", [_GROUPS], _GROUPS),
        "int": _P.Call("trp_int is_bytes", ["str"], "Z", True),
    },
    consts={"bytes": ("TyBytes", ("coq", "trp_pytype")), "str": ("TyStr", ("coq", "trp_pytype")),
            "_patch_re_b": ("PatBytes", _PAT), "_patch_re": ("PatStr", _PAT)},
    imports=["Pdiff.TrPrims"],
    regexes=[("_patch_re", r'^(\d+)(?:,(\d+))?([acd])$'), ("_patch_re_b", rb'^(\d+)(?:,(\d+))?([acd])$')])


@extract.register("TrEd")
def _gen_tr(repo):
    return _P.translate_module(repo, TR_MODULE)
