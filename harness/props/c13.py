"""C13 — Package relationship fields: format and parse are inverse
(debian.deb822.PkgRelation.str / PkgRelation.parse_relations)."""
import concurrent.futures
import itertools
import os
import re
import warnings

from harness import core
from harness.core import cq_bool, cq_list, cq_opt, cq_str, cq_strs, cq_N, err_kind

ID = "C13"
CHECK_MODULE = "Deb822.RelationCheck"
PROPS_FILE = "Props/C13.v"
ANCHORS = [("lib/debian/deb822.py", ["PkgRelation"])]
BUDGET = {"quick": 1600, "thorough": 16000}
SHARD = 250
RULE = ("45% relation structures: 1-3 conjuncts x 1-3 alternatives, every atom with a uniformly drawn subset of the "
        "four optional parts (arch qualifier, version constraint, architecture list, restriction formula), names / "
        "versions / operators / architectures / profiles drawn half from pools of ordinary and odd-but-valid values "
        "(one-character names, '+', '.', '-', ':' and '~' in versions, negated architectures, several groups) and half "
        "at random over the boundary characters of their class (a z A Z 0 9 and the punctuation the class allows), absent "
        "parts given as None or as a missing key, and the keys of two relation dicts in three INSERTED in a random order "
        "(the permutation is stored with the atom, so it replays and shrinks); one in five structures is then broken in exactly one way (empty "
        "lists, upper-case or '<' ',' in a profile, blank in a name, '!' at the start of a plain name, ...) - outside "
        "the property's domain, compared with the model only.  20% free-form strings through parse_relations: wf "
        "renderings with the blanks around every token varied, single-edit mutants of them, random strings over the "
        "pattern's alphabet.  25% the __dep_RE leaf on its own against the live compiled pattern (every string up to "
        "length 2 (quick) / 3 (thorough) over 14 symbols, grammar samples, mutants).  10% the four separator patterns "
        "and __restriction_RE on their own.  non-trivial = a structure with at least one optional part or two atoms, "
        "or any non-empty string")
TRUSTED = ["model coq/Deb822/Relation.v is a hand transcription of PkgRelation.str / parse_relations (parse_archs, "
           "parse_restrictions, parse_rel) with hand-written leaves for __dep_RE (deterministic scanner), the "
           "separator patterns and __restriction_RE; the control flow of str / parse_relations and their nested helpers "
           "is regenerated from the source and proved equal to the model on all inputs (coq/Props/C13Tie.v); the leaves "
           "and the primitives of coq/Deb822/RelationTrPrims.v are tied to the code only by this correspondence",
           "\\s / str.strip() = Py_UNICODE_ISSPACE and \\w tables generated from the running interpreter (coq/Gen/PyChars.v)"]
ASSUMPTIONS = ["str.lower() is modelled by ASCII lower-casing: generated text contains no non-ASCII character that "
               "str.lower() changes (the theorems require ASCII profile names)",
               "\\w is tabulated below U+0BB8 (3000) only: generated text contains no word character above that",
               "warnings are compared by number (and category UserWarning), not by message text",
               "structures passed to PkgRelation.str are well typed (dict with str / tuple / list-of-namedtuple values)"]

# ---------------------------------------------------------------------------
# pools

NAMES = ["a", "0", "Z", "libc6", "g++", "0ad", "python3.11", "lib-x.y+z", "a-", "x.", "A1+", "emacs", "debianutils",
         "7zip", "c--", "q+.-"]
ARCHQUALS = ["any", "native", "amd64", "i386", "a", "9", "a-b", "Z-", "armhf"]
OPS = ["<<", "<=", "=", ">=", ">>"]
ODD_OPS = ["<", ">", "=<", "<>", "===", ">=<"]
VERSIONS = ["1", "0", "1.0-1", "2:1.2~rc1+b1", "1.0.", "a", "~", ":", "-", "1:0", "2.36-9+deb12u4", "Z", "+", "1~~"]
ARCHS = ["i386", "amd64", "hurd-i386", "linux-any", "any", "kfreebsd-amd64", "x32", "a_b", "a!b", "-", "é", "A", "٣", "0"]
PROFILES = ["stage1", "nocheck", "cross", "nodoc", "pkg.foo.bar", "a", "x!y", "0", "a=b", "(", "[x]", "a:b", "~", "\\"]

ALPH = ["a", " ", ":", "(", ")", "[", "]", "<", ">", "=", "1", "\n", "!", "-"]
EXTRA = [".", "+", "~", "Z", "_", "\t", "\x1c", "\x85", "é", ",", "|", "\r", "\xa0", " ", "ß", "٣", "\x0b", "0"]
BLANKS = ["", "", " ", " ", "  ", "\t", "\n", " \n ", "\xa0", "\x1c", "\r\n", " "]

_W = re.compile(r"\w")


def _sanitize(s):
    """Keep generated text inside the model's claimed domain (see ASSUMPTIONS)."""
    out = []
    for c in s:
        o = ord(c)
        if o >= 128 and c.lower() != c:
            c = "é"
        elif o >= 3000 and _W.match(c):
            c = "é"
        out.append(c)
    return "".join(out)


# ---------------------------------------------------------------------------
# structures (JSON form): atom = {"name","aq","ver":[op,v]|None,"arch":[[en,a]..]|None,"restr":[[[en,p]..]..]|None}

KEYS = ["name", "archqual", "version", "arch", "restrictions"]     # the parser's key order
_ALNUM = "azAZ09bQ5"
_NAME_CH = _ALNUM + ".+-"
_AQ_CH = _ALNUM + "-"
_VER_CH = _ALNUM + ":-+~."
_ARCH_CH = "azAZ09_-!é٣ª"
_PROFILE_CH = "az09!#$%&'()*+-./:;=?@[\\]^_`{}~\""


def _word(rng, first, rest, lo=0, hi=5):
    return rng.choice(first) + "".join(rng.choice(rest) for _ in range(rng.randint(lo, hi)))


def _signed(rng, pool, chars):
    """(enabled, text): from the pool, or random over the class; a plain name never starts with '!'."""
    en = rng.random() < 0.5
    if rng.random() < 0.5:
        t = rng.choice(pool)
    else:
        t = _word(rng, chars, chars, 0, 4)
    if en and t.startswith("!"):
        t = "x" + t
    return [en, t]


def _atom(rng, mask=None):
    if mask is None:
        mask = rng.randrange(16)
    h = lambda: rng.random() < 0.5
    a = {"name": rng.choice(NAMES) if h() else _word(rng, _ALNUM, _NAME_CH), "aq": None, "ver": None,
         "arch": None, "restr": None}
    if mask & 1:
        a["aq"] = rng.choice(ARCHQUALS) if h() else _word(rng, _ALNUM, _AQ_CH)
    if mask & 2:
        a["ver"] = [rng.choice(OPS) if rng.random() < 0.85 else rng.choice(ODD_OPS),
                    rng.choice(VERSIONS) if h() else _word(rng, _VER_CH, _VER_CH)]
    if mask & 4:
        a["arch"] = [_signed(rng, ARCHS, _ARCH_CH) for _ in range(rng.choice([1, 1, 2, 2, 3, 3] * 4 + [9, 17]))]
    if mask & 8:
        # mostly 1-3 groups of 1-3 terms; sometimes many (a count passed where a flag was meant, a fixed-size
        # buffer, ... only show beyond some size)
        a["restr"] = [[_signed(rng, PROFILES, _PROFILE_CH) for _ in range(rng.choice([1, 1, 2, 2, 3, 3] * 3 + [9]))]
                      for _ in range(rng.choice([1, 1, 1, 2, 2, 3, 3] * 5 + [10, 12, 33]))]
    # insertion order of the keys of the relation dict handed to PkgRelation.str (indices into KEYS);
    # one atom in three is built in the parser's own order
    if rng.random() < 0.67:
        order = list(range(len(KEYS)))
        rng.shuffle(order)
        a["ord"] = order
    return a


def _rels(rng):
    return [[_atom(rng) for _ in range(rng.choice([1, 1, 2, 3]))] for _ in range(rng.choice([1, 1, 2, 2, 3]))]


BREAKS = ["no_conj", "no_alt", "arch_empty", "restr_empty", "group_empty", "profile_upper", "profile_lt", "profile_gt",
          "profile_comma", "profile_pipe", "profile_blank", "profile_empty", "profile_bang", "profile_nonascii",
          "arch_empty_name", "arch_bang", "arch_blank", "arch_bracket", "name_blank", "name_empty", "name_lead",
          "name_colon", "aq_empty", "aq_bad", "op_empty", "op_bad", "ver_empty", "ver_blank", "ver_paren",
          "name_newline", "profile_newline", "arch_only_bang", "profile_only_bang", "name_comma", "name_pipe"]


def _break(rng, rels, how):
    """Leave the domain in exactly one way; returns the structure (a fresh one where needed)."""
    if how == "no_conj":
        return []
    i = rng.randrange(len(rels))
    if how == "no_alt":
        rels[i] = []
        return rels
    j = rng.randrange(len(rels[i]))
    a = rels[i][j]
    need = {"arch": 4, "restr": 8, "group": 8, "profile": 8, "aq": 1, "op": 2, "ver": 2}
    for k, m in need.items():
        if how.startswith(k + "_"):
            fresh = _atom(rng, m | rng.randrange(16))
            fresh["name"] = a["name"]
            fresh.pop("ord", None)
            if "ord" in a:
                fresh["ord"] = a["ord"]
            a = rels[i][j] = fresh
    if how == "arch_empty":
        a["arch"] = []
    elif how == "restr_empty":
        a["restr"] = []
    elif how == "group_empty":
        a["restr"][rng.randrange(len(a["restr"]))] = []
    elif how.startswith("profile_"):
        g = rng.choice(a["restr"])
        t = rng.choice(g)
        t[1] = {"upper": "Stage1", "lt": "a<b", "gt": "a>b", "comma": "a,b", "pipe": "a|b", "blank": "a b",
                "empty": "", "nonascii": "é", "newline": "a\nb"}.get(how[8:], t[1])
        if how == "profile_bang":
            t[0], t[1] = True, "!x"
        if how == "profile_only_bang":
            t[0], t[1] = rng.random() < 0.5, "!"
    elif how.startswith("arch_"):
        t = rng.choice(a["arch"])
        t[1] = {"empty_name": "", "blank": "a b", "bracket": "a]b"}.get(how[5:], t[1])
        if how == "arch_bang":
            t[0], t[1] = True, "!x"
        if how == "arch_only_bang":
            t[0], t[1] = rng.random() < 0.5, "!"
    elif how.startswith("name_"):
        a["name"] = {"blank": "a b", "empty": "", "lead": rng.choice(["-a", ".a", "+a", " a", "_a", "éa"]),
                     "colon": "a:", "newline": "a\nb", "comma": "a,b", "pipe": "a|b"}[how[5:]]
    elif how == "aq_empty":
        a["aq"] = ""
    elif how == "aq_bad":
        a["aq"] = rng.choice(["-a", "a.b", "a b", "a:b", "é"])
    elif how == "op_empty":
        a["ver"][0] = ""
    elif how == "op_bad":
        a["ver"][0] = rng.choice(["~", "!=", "eq", "< <"])
    elif how == "ver_empty":
        a["ver"][1] = ""
    elif how == "ver_blank":
        a["ver"][1] = "1 2"
    elif how == "ver_paren":
        a["ver"][1] = rng.choice(["1)", "1(", "1_0", "é"])
    return rels


# the documented domain, written again with regular expressions (oracle for the spec self-test)
_O_NAME = re.compile(r"[a-zA-Z0-9][a-zA-Z0-9.+-]*")
_O_AQ = re.compile(r"[a-zA-Z0-9][a-zA-Z0-9-]*")
_O_OP = re.compile(r"[<=>]+")
_O_VER = re.compile(r"[0-9a-zA-Z:+~.-]+")


def _o_arch(t):
    en, a = t
    return bool(a) and all((_W.match(c) or c in "!-") and not c.isspace() for c in a) and not (en and a[0] == "!")


def _o_profile(t):
    en, p = t
    return (bool(p) and all(ord(c) < 128 and not c.isspace() and c not in "<>,|" and not ("A" <= c <= "Z") for c in p)
            and not (en and p[0] == "!"))


def oracle_wf_atom(a):
    if not _O_NAME.fullmatch(a["name"]):
        return False
    if a["aq"] is not None and not _O_AQ.fullmatch(a["aq"]):
        return False
    if a["ver"] is not None and not (_O_OP.fullmatch(a["ver"][0]) and _O_VER.fullmatch(a["ver"][1])):
        return False
    if a["arch"] is not None and not (a["arch"] and all(_o_arch(t) for t in a["arch"])):
        return False
    if a["restr"] is not None and not (a["restr"] and all(g and all(_o_profile(t) for t in g) for g in a["restr"])):
        return False
    return True


def oracle_wf(rels):
    return bool(rels) and all(alts and all(oracle_wf_atom(a) for a in alts) for alts in rels)


def _render_loose(rng, rels):
    """A wf structure written with the blanks around every token varied (still the documented syntax)."""
    b = lambda: rng.choice(BLANKS)
    b1 = lambda: rng.choice([" ", " ", "  ", "\t", "\n ", "\xa0"])
    conj = []
    for alts in rels:
        outs = []
        for a in alts:
            s = a["name"]
            if a["aq"] is not None:
                s += ":" + a["aq"]
            if a["ver"] is not None:
                s += b() + "(" + b() + a["ver"][0] + b() + a["ver"][1] + b() + ")"
            if a["arch"] is not None:
                s += b() + "[" + b() + b1().join(("" if en else "!") + x for en, x in a["arch"]) + b() + "]"
            if a["restr"] is not None:
                s += b() + b().join("<" + b() + b1().join(("" if en else "!") + x for en, x in g) + b() + ">"
                                    for g in a["restr"])
            outs.append(s)
        conj.append((b() + "|" + b()).join(outs))
    return b() + (b() + "," + b()).join(conj) + b()


def _plain(rels):
    out = []
    for alts in rels:
        o = []
        for a in alts:
            s = a["name"]
            if a["aq"] is not None:
                s += ":" + a["aq"]
            if a["ver"] is not None:
                s += " (%s %s)" % tuple(a["ver"])
            if a["arch"] is not None:
                s += " [%s]" % " ".join(("" if en else "!") + x for en, x in a["arch"])
            if a["restr"] is not None:
                s += " " + " ".join("<%s>" % " ".join(("" if en else "!") + x for en, x in g) for g in a["restr"])
            o.append(s)
        out.append(" | ".join(o))
    return ", ".join(out)


def _mutant(rng, s):
    i = rng.randint(0, len(s))
    k = rng.randrange(4)
    c = rng.choice(ALPH + EXTRA)
    if k == 0 or not s:
        return s[:i] + c + s[i:]
    if k == 1:
        return s[:i] + s[i + 1:]
    if k == 2:
        return s[:i] + c + s[i + 1:]
    j = rng.randint(0, len(s))
    i, j = min(i, j), max(i, j)
    return s[:i] + s[j:]


def _random_string(rng, maxlen=14):
    pool = ALPH * 2 + EXTRA
    return "".join(rng.choice(pool) for _ in range(rng.randint(0, maxlen)))


def _one_atom_string(rng):
    r = rng.random()
    a = _atom(rng)
    if r < 0.35:
        return _plain([[a]])
    if r < 0.7:
        return _render_loose(rng, [[a]])
    return _mutant(rng, _render_loose(rng, [[a]]) if rng.random() < 0.5 else _plain([[a]]))


def generate(rng, n, tier):
    # exhaustive short strings for the leaf
    L = 3 if tier == "thorough" else 2
    count = 0
    for k in range(L + 1):
        for t in itertools.product(ALPH, repeat=k):
            yield {"kind": "leaf", "src": "exhaustive", "s": "".join(t)}
            count += 1
    for _ in range(max(0, n - count)):
        r = rng.random()
        if r < 0.45:
            rels = _rels(rng)
            how = None
            if rng.random() < 0.2:
                how = rng.choice(BREAKS)
                rels = _break(rng, rels, how)
            yield {"kind": "rel", "rels": rels, "how": how, "omit": rng.random() < 0.5}
        elif r < 0.65:
            q = rng.random()
            rels = _rels(rng)
            if q < 0.4:
                s, src = _render_loose(rng, rels), "loose"
            elif q < 0.75:
                s, src = _mutant(rng, _render_loose(rng, rels) if rng.random() < 0.5 else _plain(rels)), "mutant"
            else:
                s, src = _random_string(rng, 20), "random"
            yield {"kind": "parse", "src": src, "s": _sanitize(s)}
        elif r < 0.9:
            q = rng.random()
            if q < 0.6:
                s, src = _one_atom_string(rng), "grammar"
            else:
                s, src = _random_string(rng), "random"
            yield {"kind": "leaf", "src": src, "s": _sanitize(s)}
        elif r < 0.97:
            which = rng.randrange(4)
            q = rng.random()
            if q < 0.5:
                s = _render_loose(rng, _rels(rng))
                if which >= 2:
                    # the inside of a bracket / of a restriction formula
                    m = re.search(r"<.*>" if which == 3 else r"\[[^\]]*\]", s, re.S)
                    s = m.group(0)[1:-1] if m else s
            elif q < 0.75:
                s = _mutant(rng, _plain(_rels(rng)))
            else:
                s = "".join(rng.choice([",", "|", " ", "a", ">", "<", "\t", "\n", "!", "\xa0", "b"])
                            for _ in range(rng.randint(0, 9)))
            yield {"kind": "split", "which": which, "s": _sanitize(s)}
        else:
            s = "".join(rng.choice(["!", "a", " ", "\t", "<", "b", "\xa0", "\n", "é"]) for _ in range(rng.randint(0, 5)))
            yield {"kind": "term", "s": s}


def from_json(j):
    return j


# ---------------------------------------------------------------------------
# implementation driver

def _to_py(rels, omit):
    """The relation dicts handed to PkgRelation.str.  Keys are INSERTED in the order the atom's "ord" gives
    (default: the parser's order); absent parts are None-valued keys, or missing keys when [omit]."""
    from debian.deb822 import PkgRelation
    out = []
    for alts in rels:
        o = []
        for a in alts:
            vals = {"name": a["name"], "archqual": a["aq"],
                    "version": None if a["ver"] is None else tuple(a["ver"]),
                    "arch": None if a["arch"] is None else
                    [PkgRelation.ArchRestriction(en, x) for en, x in a["arch"]],
                    "restrictions": None if a["restr"] is None else
                    [[PkgRelation.BuildRestriction(en, x) for en, x in g] for g in a["restr"]]}
            d = {}
            for i in a.get("ord") or range(len(KEYS)):
                key = KEYS[i]
                if vals[key] is None and omit:
                    continue
                d[key] = vals[key]
            o.append(d)
        out.append(o)
    return out


def _from_py(parsed):
    out = []
    for alts in parsed:
        o = []
        for d in alts:
            o.append({"name": d["name"], "aq": d["archqual"],
                      "ver": None if d["version"] is None else [d["version"][0], d["version"][1]],
                      "arch": None if d["arch"] is None else [[bool(t.enabled), t.arch] for t in d["arch"]],
                      "restr": None if d["restrictions"] is None else
                      [[[bool(t.enabled), t.profile] for t in g] for g in d["restrictions"]]})
        out.append(o)
    return out


def _scribble(parsed):
    """Edit, in place, everything a parse handed out (what a caller may do with its own result)."""
    try:
        for alts in parsed:
            for d in alts:
                if isinstance(d.get("arch"), list):
                    d["arch"].append(d["arch"][0] if d["arch"] else None)
                    d["arch"].reverse()
                if isinstance(d.get("restrictions"), list):
                    for g in d["restrictions"]:
                        if isinstance(g, list):
                            g.append(g[0] if g else None)
                    d["restrictions"].append([])
                d["name"] = "scribbled"
                d["version"] = ("=", "0scribbled")
                d["archqual"] = "scribbled"
            alts.append({"name": "scribbled"})
        parsed.append([])
    except Exception:
        pass


def _parse(s, earlier=True):
    """-> (observation dict, python structure | None).  With [earlier]: the same text was parsed before, in the same
    process, and that earlier result was edited in place by its owner; the parse observed must not show any of it."""
    from debian.deb822 import PkgRelation
    if earlier:
        with warnings.catch_warnings():
            warnings.simplefilter("ignore")
            try:
                _scribble(PkgRelation.parse_relations(s))
            except Exception:
                pass
        # ... and an unrelated, unparsable field was parsed by a caller that turns warnings into errors (the parse is
        # interrupted by the exception): nothing of it may surface in the parse under test
        with warnings.catch_warnings():
            warnings.simplefilter("error")
            for junk in ("pkg (>= 1.0", "a b c (!!)", "x [", ", ,"):
                try:
                    PkgRelation.parse_relations(junk)
                except Exception:
                    pass
    with warnings.catch_warnings(record=True) as w:
        warnings.simplefilter("always")
        try:
            parsed = PkgRelation.parse_relations(s)
        except Exception as e:
            return {"err": err_kind(e)}, None
    if any(not issubclass(x.category, UserWarning) for x in w):
        return {"err": "OtherError"}, None
    obs = {"parsed": _from_py(parsed), "warnings": len(w)}
    try:
        obs["s2"] = PkgRelation.str(parsed)
    except Exception as e:
        obs["s2_err"] = err_kind(e)
    return obs, parsed


def _via(cls, field, s, parsed, nwarn):
    try:
        with warnings.catch_warnings(record=True) as w:
            warnings.simplefilter("always")
            p = cls({"Package": "x", field: s})
            got = p.relations[field.lower()]
            again = p.relations[field]          # case-insensitive key, cached
        return got == parsed and again == parsed and len(w) == nwarn
    except Exception:
        return False


def run_impl(case):
    from debian import deb822
    from debian.deb822 import PkgRelation
    k = case["kind"]
    if k == "rel":
        s1 = PkgRelation.str(_to_py(case["rels"], case.get("omit", False)))
        obs, parsed = _parse(s1)
        obs["s1"] = s1
        if parsed is not None:
            obs["via"] = (_via(deb822.Packages, "Depends", s1, parsed, obs["warnings"])
                          and _via(deb822.Sources, "Build-Depends", s1, parsed, obs["warnings"]))
        else:
            obs["via"] = False
        return obs
    if k == "parse":
        return _parse(case["s"])[0]
    if k == "leaf":
        m = PkgRelation._PkgRelation__dep_RE.match(case["s"])
        if not m:
            return {"m": None}
        g = m.groupdict()
        return {"m": [g["name"], g["archqual"], g["relop"], g["version"], g["archs"], g["restrictions"]]}
    if k == "split":
        pat = [PkgRelation._PkgRelation__comma_sep_RE, PkgRelation._PkgRelation__pipe_sep_RE,
               PkgRelation._PkgRelation__blank_sep_RE, PkgRelation._PkgRelation__restriction_sep_RE][case["which"]]
        return {"pieces": pat.split(case["s"])}
    if k == "term":
        m = PkgRelation._PkgRelation__restriction_RE.match(case["s"])
        if not m:
            return {"m": None}
        g = m.groupdict()
        return {"m": [g["enabled"], g["profile"]]}
    raise ValueError(k)


# ---------------------------------------------------------------------------
# Coq emitter

def _cq_term(t):
    return "(%s, %s)" % (cq_bool(t[0]), cq_str(t[1]))


def _cq_atom(a):
    return "mkC %s %s %s %s %s" % (
        cq_str(a["name"]), cq_opt(a["aq"], cq_str),
        cq_opt(a["ver"], lambda v: "(%s, %s)" % (cq_str(v[0]), cq_str(v[1]))),
        cq_opt(a["arch"], lambda l: cq_list([_cq_term(t) for t in l])),
        cq_opt(a["restr"], lambda r: cq_list([cq_list([_cq_term(t) for t in g]) for g in r])))


def _cq_rels(rels):
    return cq_list([cq_list([_cq_atom(a) for a in alts]) for alts in rels])


def _cq_pobs(obs):
    if "err" in obs:
        return "(Err %s)" % obs["err"]
    return "(Ok (%s, %s))" % (_cq_rels(obs["parsed"]), cq_N(obs["warnings"]))


def emit(case, obs):
    k = case["kind"]
    if k == "rel":
        return "CRel %s %s %s %s %s" % (_cq_rels(case["rels"]), cq_str(obs["s1"]), _cq_pobs(obs),
                                         cq_opt(obs.get("s2"), cq_str), cq_bool(obs["via"]))
    if k == "parse":
        return "CParse %s %s %s" % (cq_str(case["s"]), _cq_pobs(obs), cq_opt(obs.get("s2"), cq_str))
    if k == "leaf":
        m = obs["m"]
        g = "None" if m is None else "(Some (%s, %s))" % (cq_str(m[0]), ", ".join(cq_opt(x, cq_str) for x in m[1:]))
        return "CLeaf %s %s" % (cq_str(case["s"]), g)
    if k == "split":
        return "CSplit %s %s %s" % (cq_N(case["which"]), cq_str(case["s"]), cq_strs(obs["pieces"]))
    m = obs["m"]
    g = "None" if m is None else "(Some (%s, %s))" % (cq_opt(m[0], cq_str), cq_str(m[1]))
    return "CTerm %s %s" % (cq_str(case["s"]), g)


def _mask(a):
    return "".join(ch if a[key] is not None else "-" for ch, key in (("q", "aq"), ("v", "ver"), ("a", "arch"), ("r", "restr")))


def classify(case, obs):
    k = case["kind"]
    if k == "rel":
        if case.get("how"):
            return "rel/odd:%s/%s" % (case["how"], "err:" + obs["err"] if "err" in obs else "warn%d" % min(obs["warnings"], 2))
        rels = case["rels"]
        masks = sorted({_mask(a) for alts in rels for a in alts})
        perm = any(a.get("ord") and a["ord"] != sorted(a["ord"]) for alts in rels for a in alts)
        return "rel/%s/%dx%d/%s/%s" % ("wf" if oracle_wf(rels) else "non-wf", len(rels), max(len(x) for x in rels),
                                       masks[0] if len(masks) == 1 else "mixed",
                                       "keys-permuted" if perm else "keys-parser-order")
    if k == "parse":
        return "parse/%s/%s" % (case["src"], "err:" + obs["err"] if "err" in obs else "warn%d" % min(obs["warnings"], 3))
    if k == "leaf":
        m = obs["m"]
        return "leaf/%s/%s" % (case["src"], "nomatch" if m is None else
                               "".join(ch if x is not None else "-" for ch, x in zip("qovar", m[1:])))
    if k == "split":
        return "split/%d/%d" % (case["which"], min(len(obs["pieces"]), 4))
    return "term/%s" % ("nomatch" if obs["m"] is None else ("neg" if obs["m"][0] else "plain"))


def nontrivial(case, obs):
    if case["kind"] == "rel":
        rels = case["rels"]
        return sum(len(x) for x in rels) >= 2 or any(_mask(a) != "----" for alts in rels for a in alts)
    return bool(case["s"])


def _shrink_str(s):
    for i in range(len(s)):
        yield s[:i] + s[i + 1:]
    if len(s) > 4:
        yield s[:len(s) // 2]
        yield s[len(s) // 2:]


def shrink(case):
    k = case["kind"]
    if k != "rel":
        for t in _shrink_str(case["s"]):
            yield dict(case, s=t)
        return
    import copy
    rels = case["rels"]
    for i in range(len(rels)):
        if len(rels) > 1:
            yield dict(case, rels=rels[:i] + rels[i + 1:])
        for j in range(len(rels[i])):
            if len(rels[i]) > 1:
                r = copy.deepcopy(rels)
                del r[i][j]
                yield dict(case, rels=r)
            a = rels[i][j]
            for key in ("aq", "ver", "arch", "restr"):
                if a[key] is not None:
                    r = copy.deepcopy(rels)
                    r[i][j][key] = None
                    yield dict(case, rels=r)
            for key in ("arch", "restr"):
                if a[key] is not None and len(a[key]) > 1:
                    for q in range(len(a[key])):
                        r = copy.deepcopy(rels)
                        del r[i][j][key][q]
                        yield dict(case, rels=r)
            if a["restr"] is not None:
                for q, g in enumerate(a["restr"]):
                    if len(g) > 1:
                        for z in range(len(g)):
                            r = copy.deepcopy(rels)
                            del r[i][j]["restr"][q][z]
                            yield dict(case, rels=r)
            if len(a["name"]) > 1:
                r = copy.deepcopy(rels)
                r[i][j]["name"] = a["name"][:1]
                yield dict(case, rels=r)
            if a.get("ord"):
                r = copy.deepcopy(rels)
                del r[i][j]["ord"]
                yield dict(case, rels=r)
    if case.get("omit"):
        yield dict(case, omit=False)


def neighbours(case, rng):
    if case["kind"] == "rel":
        return
    s = case["s"]
    for _ in range(60):
        yield dict(case, s=_sanitize(_mutant(rng, s)))


def describe(case, obs):
    k = case["kind"]
    if k == "rel":
        return {"call": "s1 = PkgRelation.str(rels); parsed = PkgRelation.parse_relations(s1) with warnings recorded; "
                        "s2 = PkgRelation.str(parsed); via = Packages({'Depends': s1}).relations['depends'] and "
                        "Sources({'Build-Depends': s1}).relations['build-depends'] give the same",
                "rels": case["rels"], "absent_parts_as_missing_keys": case.get("omit", False),
                "dict_key_insertion_order": [[[KEYS[i] for i in a.get("ord") or range(len(KEYS))] for a in alts]
                                             for alts in case["rels"]],
                "observed": obs,
                "in_domain": oracle_wf(case["rels"]),
                "specified": "for a structure of the domain: parsed == rels, warnings == 0, s2 == s1, via == True"}
    return {"call": {"parse": "PkgRelation.parse_relations(s), then PkgRelation.str of the result",
                     "leaf": "PkgRelation._PkgRelation__dep_RE.match(s).groupdict()",
                     "split": "the separator pattern's split(s)",
                     "term": "PkgRelation._PkgRelation__restriction_RE.match(s).groupdict()"}[k],
            "input": case, "observed": obs,
            "specified": "correspondence only (the property speaks about formatted structures)"}


# ---------------------------------------------------------------------------
# spec self-test: wf_rels of RelationSpec.v against the regular-expression reading of the documented domain above
# (nothing here depends on /repo)

def spec_selftest(items, scratch, tier):
    terms = []
    for case, _ in items:
        if case["kind"] == "rel":
            terms.append("SW %s %s" % (_cq_rels(case["rels"]), cq_bool(oracle_wf(case["rels"]))))
        if len(terms) >= (4000 if tier == "thorough" else 400):
            break
    for op in OPS:
        terms.append("SW %s true" % _cq_rels([[{"name": "a", "aq": None, "ver": [op, "1"], "arch": None, "restr": None}]]))
    shard = 250
    jobs = []
    for k in range(0, len(terms), shard):
        p = os.path.join(scratch, "C13_spec_%d.v" % (k // shard))
        with open(p, "w", encoding="utf-8") as f:
            f.write("From Coq Require Import String List NArith. Import ListNotations.\n"
                    "From Verif Require Import Lib.Base Deb822.RelationCheck.\nLocal Open Scope string_scope.\n"
                    "Definition cases : list speccase := [\n" + ";\n".join(terms[k:k + shard]) + "\n].\n"
                    "Eval vm_compute in (spec_bad cases).\n")
        jobs.append((p, k))
    dis = []

    def one(job):
        p, k = job
        rc, out, err = core.coqc(p, out_vo=p[:-2] + ".vo")
        if rc != 0:
            return [{"shard": p, "error": (err or out)[-400:]}]
        m = re.search(r"=\s*(.*?)\s*:\s*list N", out, re.S)
        if not m:
            return [{"shard": p, "error": "unparseable"}]
        return [{"case": terms[k + int(x)]} for x in re.findall(r"\d+", m.group(1).replace("%N", ""))]
    with concurrent.futures.ThreadPoolExecutor(max_workers=core.NPROC) as ex:
        for r in ex.map(one, jobs):
            dis += r
    return {"oracle": "regular-expression reading of the documented domain in harness/props/c13.py (oracle_wf)",
            "compared": len(terms), "disagreements": dis}


# ---------------------------------------------------------------------------
# TIE BY REGENERATION (DESIGN §3.1b): PkgRelation.str and PkgRelation.parse_relations with their nested helpers,
# regenerated from the source on every run (coq/Gen/TrRelation.v); Deb822/RelationTie.v proves them equal to the model
# functions of Deb822/Relation.v on all inputs; Props/C13Tie.v states it.  Primitives: Deb822/RelationTrPrims.v.
#
# A relation dict is the model's Record `rel` (type trp_reldict): dep['name'] / dep['archqual'] / dep.get(key) /
# d[key] = v / the dict literal with the five documented keys are renderings chosen by the LITERAL key.  The
# namedtuples ArchRestriction / BuildRestriction are the model's `term`.
from harness import extract, py2coq as _P   # noqa: E402

TIE_FILE = "Props/C13Tie.v"

_LS = ("list", "str")
_OSTR = ("option", "str")
_REL = ("coq", "trp_reldict")
_ARCHR = ("coq", "trp_archr")
_BUILDR = ("coq", "trp_buildr")
_VER = ("tuple", "str", "str")
_ARCHS = ("list", _ARCHR)
_RESTRS = ("list", ("list", _BUILDR))


def _lit(s):
    return ("literal", repr(s), "tt")


def _exhausts(call):
    call.exhausts = True
    return call


_FMT_FUNS = [
    _P.Fun("tr_pp_arch", "PkgRelation.str.pp_arch", [("arch_spec", _ARCHR)], "str"),
    _P.Fun("tr_pp_restrictions", "PkgRelation.str.pp_restrictions", [("restrictions", ("list", _BUILDR))], "str",
           locals={"s": _LS, "term": _BUILDR}),
    _P.Fun("tr_pp_atomic_dep", "PkgRelation.str.pp_atomic_dep", [("dep", _REL)], "str",
           locals={"s": "str", "v": ("option", _VER), "a": ("option", _ARCHS), "r": ("option", _RESTRS)}),
    _P.Fun("tr_rel_str", "PkgRelation.str", [("rels", ("list", ("list", _REL)))], "str"),
]

_FMT_CALLS = {
    "<trp_archr>.@enabled": _P.Call("trp_archr_enabled", [_ARCHR], "bool"),
    "<trp_archr>.@arch": _P.Call("trp_archr_arch", [_ARCHR], "str"),
    "<trp_buildr>.@enabled": _P.Call("trp_buildr_enabled", [_BUILDR], "bool"),
    "<trp_buildr>.@profile": _P.Call("trp_buildr_profile", [_BUILDR], "str"),
    # sep.join(iterable): takes every element of the iterable first (PySequence_Fast), then concatenates
    "<str>.join": _exhausts(_P.Call("trp_join", ["str", _LS], "str")),
    "<trp_reldict>.__getitem__": [_P.Call("trp_rel_item_name", [_REL, _lit("name")], "str"),
                                  _P.Call("trp_rel_item_archqual", [_REL, _lit("archqual")], "str", True)],
    "<trp_reldict>.get": [_P.Call("trp_rel_get_archqual", [_REL, _lit("archqual")], _OSTR),
                          _P.Call("trp_rel_get_version", [_REL, _lit("version")], ("option", _VER)),
                          _P.Call("trp_rel_get_arch", [_REL, _lit("arch")], ("option", _ARCHS)),
                          _P.Call("trp_rel_get_restrictions", [_REL, _lit("restrictions")], ("option", _RESTRS))],
    "pp_arch": _P.Call("tr_pp_arch", [_ARCHR], "str", True),
    "pp_restrictions": _P.Call("tr_pp_restrictions", [("list", _BUILDR)], "str", True),
    "pp_atomic_dep": _P.Call("tr_pp_atomic_dep", [_REL], "str", True),
}

# The parser.  `match`/`parts` are the match object and its groupdict() (opaque; the named groups are read by literal
# key).  parse_archs / parse_restrictions are called with parts[...] : Optional[str], so their parameter is Optional
# (raw.strip() / raw.lower() on None would be the AttributeError that tr_unwrap renders).  warnings.warn(...) is a
# primitive on a HIDDEN state, the number of warnings emitted so far (`nwarn`): parse_rel and parse_relations are
# translated in METHOD MODE on that state; parse_rel is called inside the final nested comprehension (tr_mapS).
_DEPM = ("coq", "trp_dep_match_t")
_DEPG = ("coq", "trp_dep_groups")
_RM = ("coq", "trp_restr_match_t")
_RG = ("coq", "trp_restr_groups")
_ST = [("<warnings emitted>", "nwarn", ("coq", "N"))]

_F_PARCHS = _P.Fun("tr_parse_archs", "PkgRelation.parse_relations.parse_archs", [("raw", _OSTR)], _ARCHS,
                   locals={"archs": _ARCHS, "arch": "str", "disabled": "bool"})
_F_PRESTR = _P.Fun("tr_parse_restrictions", "PkgRelation.parse_relations.parse_restrictions", [("raw", _OSTR)], _RESTRS,
                   locals={"restrictions": _RESTRS, "groups": _LS, "rgrp": "str", "group": ("list", _BUILDR),
                           "restriction": "str", "match": ("option", _RM), "parts": _RG})
_F_PREL = _P.Fun("tr_parse_rel", "PkgRelation.parse_relations.parse_rel", [("raw", "str")], _REL,
                 locals={"match": ("option", _DEPM), "parts": _DEPG, "d": _REL}, state=_ST)
_F_PRELS = _P.Fun("tr_parse_relations", "PkgRelation.parse_relations", [("raw", "str")], ("list", ("list", _REL)),
                  locals={"tl_deps": _LS, "cnf": ("list", _LS)}, state=_ST, skip_first=True)
for _f in (_F_PRESTR, _F_PREL):
    _f.narrow = True        # `if match:` on an Optional match object: the object inside


def _kw(call, names):
    call.kw = list(names)
    return call


def _stateprim(call):
    call.stateprim = True
    return call


_OPAIR = ("tuple", _OSTR, _OSTR)
_PARSE_CALLS = {
    "<str>.strip": [_P.Call("trp_strip", ["str"], "str"), _P.Call("trp_strip_chars", ["str", "str"], "str")],
    "<str>.lower": _P.Call("trp_lower", ["str"], "str"),
    "cls.__comma_sep_RE.split": _P.Call("trp_comma_split", ["str"], _LS),
    "cls.__pipe_sep_RE.split": _P.Call("trp_pipe_split", ["str"], _LS),
    "cls.__blank_sep_RE.split": _P.Call("trp_blank_split", ["str"], _LS),
    "cls.__restriction_sep_RE.split": _P.Call("trp_restriction_sep_split", ["str"], _LS),
    "cls.__dep_RE.match": _P.Call("trp_dep_match", ["str"], ("option", _DEPM)),
    "cls.__restriction_RE.match": _P.Call("trp_restriction_match", ["str"], ("option", _RM)),
    "<trp_dep_match_t>.groupdict": _P.Call("trp_dep_groupdict", [_DEPM], _DEPG),
    "<trp_restr_match_t>.groupdict": _P.Call("trp_restr_groupdict", [_RM], _RG),
    "<trp_dep_groups>.__getitem__": [_P.Call("trp_dep_name", [_DEPG, _lit("name")], "str"),
                                     _P.Call("trp_dep_archqual", [_DEPG, _lit("archqual")], _OSTR),
                                     _P.Call("trp_dep_relop", [_DEPG, _lit("relop")], _OSTR),
                                     _P.Call("trp_dep_version", [_DEPG, _lit("version")], _OSTR),
                                     _P.Call("trp_dep_archs", [_DEPG, _lit("archs")], _OSTR),
                                     _P.Call("trp_dep_restrictions", [_DEPG, _lit("restrictions")], _OSTR)],
    "<trp_restr_groups>.__getitem__": [_P.Call("trp_restr_enabled", [_RG, _lit("enabled")], _OSTR),
                                       _P.Call("trp_restr_profile", [_RG, _lit("profile")], "str")],
    "cls.ArchRestriction": _P.Call("trp_arch_restriction", ["bool", "str"], _ARCHR),
    "cls.BuildRestriction": _P.Call("trp_build_restriction", ["bool", "str"], _BUILDR),
    "<trp_reldict>.{}": _kw(_P.Call("trp_rel_new", ["str", _OSTR, ("option", _VER), ("option", _ARCHS),
                                                    ("option", _RESTRS)], _REL),
                            ["name", "archqual", "version", "arch", "restrictions"]),
    "<trp_reldict>.__setitem__": [
        _P.Call("trp_rel_set_version", [_REL, _lit("version"), _OPAIR], "unit", True, mutates=True),
        _P.Call("trp_rel_set_arch", [_REL, _lit("arch"), _ARCHS], "unit", mutates=True),
        _P.Call("trp_rel_set_restrictions", [_REL, _lit("restrictions"), _RESTRS], "unit", mutates=True)],
    "parse_archs": _P.Call("tr_parse_archs", [_OSTR], _ARCHS, True),
    "parse_restrictions": _P.Call("tr_parse_restrictions", [_OSTR], _RESTRS, True),
    # translated in method mode: the calling convention of a primitive on the state
    "parse_rel": _stateprim(_P.Call("tr_parse_rel", ["str"], _REL)),
    "warnings.warn": _stateprim(_P.Call("trp_warn", ["str"], "unit")),
}

TR_MODULE = _P.Module(
    "TrRelation", "lib/debian/deb822.py",
    funs=_FMT_FUNS + [_F_PARCHS, _F_PRESTR, _F_PREL, _F_PRELS],
    calls=dict(_FMT_CALLS, **_PARSE_CALLS),
    imports=["Deb822.Relation", "Deb822.RelationTrPrims"],
    regexes=[("PkgRelation.__dep_RE",
              r'^\s*(?P<name>[a-zA-Z0-9][a-zA-Z0-9.+\-]*)'
              r'(:(?P<archqual>([a-zA-Z0-9][a-zA-Z0-9-]*)))?'
              r'(\s*\(\s*(?P<relop>[>=<]+)\s*'
              r'(?P<version>[0-9a-zA-Z:\-+~.]+)\s*\))?'
              r'(\s*\[(?P<archs>[\s!\w\-]+)\])?\s*'
              r'((?P<restrictions><.+>))?\s*'
              r'$'),
             ("PkgRelation.__comma_sep_RE", r'\s*,\s*'),
             ("PkgRelation.__pipe_sep_RE", r'\s*\|\s*'),
             ("PkgRelation.__blank_sep_RE", r'\s+'),
             ("PkgRelation.__restriction_sep_RE", r'>\s*<'),
             ("PkgRelation.__restriction_RE", r'(?P<enabled>\!)?(?P<profile>[^\s]+)')])


@extract.register("TrRelation")
def _gen_tr(repo):
    return _P.translate_module(repo, TR_MODULE)
