"""C02 — Deb822 paragraphs survive dump and re-parse, whatever the input form.

Public API driven: Deb822()/p[k]=v/p.dump(), cls(sequence, strict=...),
cls.iter_paragraphs(sequence, strict=...) for cls in Deb822, Dsc, Changes; the
static Deb822.split_gpg_and_payload; Deb822().validate_input; and the compiled
pattern objects Deb822._single/_multi/_multidata/_gpgre/_blank_line_* taken from
the imported module (regex-leaf correspondence).
"""
import atexit
import io
import itertools
import os
import shutil
import tempfile

from harness.core import cq_bool, cq_list, cq_N, cq_opt, cq_str, cq_strs, err_kind

ID = "C02"
CHECK_MODULE = "Deb822.Check"
PROPS_FILE = "Props/C02.v"
ANCHORS = [("lib/debian/deb822.py",
            ["iter_paragraphs", "_skip_useless_lines", "_key_part", "_single", "_multi", "_multidata",
             "_internal_parser", "get_as_string", "_dump_format", "_dump_str", "dump",
             "_gpgre", "_initial_blank_line", "_blank_line_whitespace", "_blank_line_no_whitespace",
             "split_gpg_and_payload", "gpg_stripped_paragraph", "validate_input", "__setitem__",
             "_gpg_multivalued", "_AutoDecoder"]),
           ("lib/debian/_util.py", ["_CaseInsensitiveString", "OrderedSet"])]
BUDGET = {"quick": 2400, "thorough": 16000}
RULE = ("documents of 1-4 paragraphs of 1-5 fields; policy-valid names (mixed case, punctuation), pairwise distinct "
        "ignoring case; first lines from a pool (empty, leading ':' '#' '-', inner colon, leading/trailing blanks and "
        "tabs, NBSP, UTF-8, text that looks like a PGP armour line) or random over a 12-symbol alphabet; 0-3 "
        "continuation lines (' .', colon inside, trailing tab, '#' after the blank, NBSP, UTF-8); the paragraphs are "
        "assigned to Deb822() objects, dumped by the implementation, joined with >=1 blank lines (optional leading / "
        "trailing blank lines, LF or CRLF, with or without final line end), optionally wrapped paragraph by "
        "paragraph in clearsign armour (0-2 header lines, trailing blanks on armour lines) and interleaved with "
        "comment lines (inside paragraphs, inside the armour, as comment-only blocks, or anywhere among the blank lines "
        "between paragraphs and before the first one), then read back through "
        "each of 8 input forms (str, bytes, list of str with/without line ends, list of bytes with/without line "
        "ends, text file object [StringIO or a real file], binary file object [BytesIO or a real file]) x "
        "{default, whitespace-separates-paragraphs=False} x {Deb822, Dsc, Changes} x {iter_paragraphs, constructor}. "
        "Separate malformed stream (30%): random line soups over a 48-line vocabulary (stray armour lines in every "
        "state, whitespace-only lines, FF/FS/NEL inside lines, CR inside lines, duplicate keys in other case, lines "
        "matching no pattern) - agree only.  Leaf streams: every modelled regex against the live compiled pattern "
        "(exhaustive to length 4 over 9-11 symbols in thorough, sampled in quick, plus grammar strings and their "
        "single-edit mutants), split_gpg_and_payload on its own (result triple and number of lines left in the "
        "iterator), validate_input on its own.  non-trivial = a Doc case with >= 1 generated paragraph, or a "
        "malformed/leaf case on which some pattern matched / some paragraph was returned / an error was raised")
TRUSTED = ["model coq/Deb822/Model.v is a hand transcription of Deb822.__init__/iter_paragraphs/_skip_useless_lines/"
           "split_gpg_and_payload/_internal_parser/validate_input/__setitem__/_dump_format and of "
           "_gpg_multivalued.__init__ (regex leaves match_single/match_multi/match_multidata/match_gpgre/blank_* "
           "included); tied to the code by this correspondence and, for _skip_useless_lines, split_gpg_and_payload, "
           "gpg_stripped_paragraph, _internal_parser (+ wanted_field), validate_input, __setitem__, get_as_string, "
           "_dump_format, _dump_str, by regeneration (coq/Gen/TrDeb822.v, coq/Props/C02Tie.v: the regenerated control flow "
           "equals the model on all inputs; the regex leaves, Deb822Dict.__setitem__/__getitem__/__iter__, the str methods "
           "and the codec stay hand-modelled primitives, coq/Deb822/TrPrims.v); Deb822.__init__, iter_paragraphs, dump() "
           "and _gpg_multivalued.__init__ are tied by the correspondence only",
           "Python str.splitlines/bytes.splitlines/strip as modelled in coq/Lib/PyStr.v (validated by ./check LIB)",
           "file objects yield LF-terminated lines (io.StringIO, io.BytesIO, open(..., newline='\\n'), open(..., 'rb')): "
           "modelled by Model.file_lines; the text a file object presents is taken from the same object type"]
ASSUMPTIONS = ["UTF-8 encode/decode is not modelled: bytes inputs are represented by their code points (exact for valid "
               "UTF-8 because every byte-level test made before decoding looks at ASCII bytes only); invalid UTF-8 "
               "(chardet fallback) and lone surrogates are outside the model",
               "field names are compared by ASCII lower-casing; generated names are ASCII or caseless non-ASCII",
               "fields=None; apt_pkg absent (internal parser); names of the _multivalued_fields tables (Files, "
               "Checksums-*) are not used with Dsc/Changes (they belong to C12)",
               "Dsc/Changes given lines or a file split the RAW lines first (_gpg_multivalued.__init__) and, since fix D25 "
               "(33b1652), repeat the split while the block consists of comment lines only: modelled (gpgmv_split), compared "
               "(agree) and judged (holds) like Deb822; comment-only blocks are generated before paragraphs ('block')"]

# ---------------------------------------------------------------------------
# generation

NAMES = ["Package", "Version", "Description", "X-Foo", "a", "Z9", "!odd~name", "Depends", "x/y", "Homepage",
         "UPPER", "lower", "Mixed-Case", "n0", "Built-Using", "é", "K.k", "b+c", "_u", "Q?",
         # every printable ASCII character except ':' and space is legal in a field name (Policy 5.1)
         "Disk%Used", "Load-100%", "Rate%s", "a%%b", "%d", "x{0}", "{}", "\\n", "a\\", "$1", "`q`", "[i]", "(p)",
         "a*b", "s'q", 'd"q', "a,b", "a;b", "<t>", "e=f", "a@b", "^c", "p|q", "t~", "&amp"]
FIRST_POOL = ["", "x", "value", ":x", "#x", "-x", "- x", " lead", "trail \t", "a: b", "a:b:c", "é ü 日本",
              "\u00a0nbsp", "tab\there", "  ", "\t", "-----BEGIN PGP SIGNED MESSAGE-----",
              "-----BEGIN PGP SIGNATURE-----", "1.0-1", "foo (>= 1), bar", "x \u2003", ".", "#", ":", "-",
              "a\u00a0", "\u3000wide"]
CONT_POOL = [" x", "\tx", " .", " a: b", " #not a comment", " trailing\t", " -----BEGIN PGP SIGNATURE-----",
             " é", " \u00a0", "  two", " \t.", " K: v", " -", " :", "\t#", " x \u2003", " a  b", " \u65e5\u672c"]
ALPHA = ["a", ":", "#", "-", " ", "\t", "é", "\u00a0", ".", "\u65e5", "B", "\u2003"]
COMMENTS = ["#", "# c", "#K: v", "#-----BEGIN PGP SIGNED MESSAGE-----", "# é", "#\t", "##", "#-----END PGP SIGNATURE-----"]
MV_NAMES = {"files", "checksums-sha1", "checksums-sha256", "checksums-sha512"}

RAW_VOCAB = ["", "", " ", "\t", "  ", "A: b", "a: c", "A:", "A :  b  ", "B:b", "C: d", " cont", "\tcont", " .",
             " x: y", "#c", "# A: b", "garbage", ": nokey", "-----BEGIN PGP SIGNED MESSAGE-----",
             "-----BEGIN PGP SIGNATURE-----", "-----END PGP SIGNATURE-----", "-----BEGIN PGP FOO-----",
             "-----BEGIN PGP SAFE-----", "-----END PGP SIGNED MESSAGE-----", "Hash: SHA1", "a: b\r", "C: x\x0cy",
             " a\x0cb", " a\x0c b", "\u00a0: v", "D\u00a0: v", "E: \u00a0", " \u00a0", "\x0c", "\x1c",
             "A: b\u0085c", "é: ü", "-----BEGIN PGP SIGNED MESSAGE----- \t", "- dash", "F: a\rG: b", "\r",
             "G: x\u2028 y", " z\x1c w", "H:\t", "-----BEGIN PGP SIGNED MESSAGE-----x", "iQEzBAEBCAAdFiEE", "=AbCd"]

FORMS = 8


def _rand_text(rng, n):
    return "".join(rng.choice(ALPHA) for _ in range(n))


def _gen_first(rng):
    if rng.random() < 0.7:
        return rng.choice(FIRST_POOL)
    return _rand_text(rng, rng.randint(0, 8))


def _gen_cont(rng):
    if rng.random() < 0.75:
        return rng.choice(CONT_POOL)
    body = _rand_text(rng, rng.randint(0, 6))
    pos = rng.randint(0, len(body))
    body = body[:pos] + rng.choice(["a", ":", "#", ".", "é", "-"]) + body[pos:]
    return rng.choice([" ", "\t"]) + body


def _gen_para(rng, gpgmv):
    names = []
    for _ in range(rng.randint(1, 5)):
        nm = rng.choice(NAMES)
        if rng.random() < 0.2:
            nm = nm.swapcase() if nm.isascii() else nm
        if nm.lower() in [x.lower() for x in names]:
            continue
        if gpgmv and nm.lower() in MV_NAMES:
            continue
        names.append(nm)
    out = []
    for nm in names:
        first = _gen_first(rng)
        conts = [_gen_cont(rng) for _ in range(rng.choice([0, 0, 0, 1, 1, 2, 3]))]
        out.append([nm, "\n".join([first] + conts)])
    return out


def _gen_decor(rng):
    """Decoration instructions; positions are reduced modulo the sizes at run time."""
    return {
        "armor": rng.random() < 0.45,
        "hdr": rng.choice([[], ["Hash: SHA256"], ["Hash: SHA512", "Comment: x"], ["Hash: SHA1 "]]),
        "armor_ws": rng.choice(["", "", "", " ", "\t ", "  "]),
        "sig_blank": rng.random() < 0.8,
        "sig": rng.choice([["iQEzBAEBCAAdFiEE", "=AbCd"], ["x"], [], ["a: b", "", "c"]]),
        "comments": [[rng.randint(0, 10 ** 6), rng.choice(COMMENTS)]
                     for _ in range(rng.choice([0, 0, 1, 2, 3]))],
        "block": rng.choice([[], [], [], ["#block"], ["# one", "#two"]]),
        "sep": rng.choice([1, 1, 1, 2, 3]),
        "sep_ws": rng.choice(["", "", "", " ", "\t", " \t "]),
        # comment lines among the blank lines in front of the paragraph, and an empty line closing them
        "sep_comments": [[rng.randint(0, 10 ** 6), rng.choice(COMMENTS)]
                         for _ in range(rng.choice([0, 0, 0, 1, 2]))],
        "sep_tail_empty": rng.random() < 0.5,
    }


def _gen_doc(rng):
    cls = rng.choice([0, 0, 0, 1, 2])
    paras = [_gen_para(rng, cls != 0) for _ in range(rng.choice([1, 1, 2, 2, 3, 4]))]
    comments_on = rng.random() < 0.5
    decor = []
    for _ in paras:
        d = _gen_decor(rng)
        if not comments_on:
            d["comments"] = []
            d["block"] = []
            d["sep_comments"] = []
        decor.append(d)
    single = rng.random() < 0.15
    if single:
        paras, decor = paras[:1], decor[:1]
    return {"t": "doc", "cls": cls, "ws_sep": rng.random() < 0.6, "single": single,
            "form": rng.randrange(FORMS), "real_file": rng.random() < 0.3,
            "paras": paras, "decor": decor,
            "lead": rng.choice([0, 0, 1, 2]), "lead_ws": rng.choice(["", "", " ", "\t"]),
            "trail": rng.choice([0, 0, 1, 2]),
            "eol": rng.choice(["\n", "\n", "\n", "\n", "\r\n"]), "final_eol": rng.random() < 0.9}


def _gen_raw(rng):
    n = rng.randint(0, 9)
    lines = [rng.choice(RAW_VOCAB) for _ in range(n)]
    return {"t": "raw", "cls": rng.choice([0, 0, 1, 2]), "ws_sep": rng.random() < 0.5,
            "single": rng.random() < 0.25, "form": rng.randrange(FORMS), "real_file": rng.random() < 0.2,
            "lines": lines, "eol": rng.choice(["\n", "\n", "\n", "\r\n", "\r"]), "final_eol": rng.random() < 0.8}


LEAF_ALPHA = {0: ["a", ":", " ", "\t", "\n", "\r", "\u00a0", "#", "\x1c", "-", "\x0c"],
              1: ["a", ":", " ", "\t", "\n", "\r", "\u00a0", "#", "\x1c", "-", "\x0c"],
              2: ["a", ":", " ", "\t", "\n", "\r", "\u00a0", "#", "\x1c", "-", "\x0c"]}
GPG_TOKENS = ["-----", "BEGIN", "END", " ", "PGP", "X", "-", "\r", "\n", "\t", "\u00a0", "SIGNED MESSAGE", "SIGNATURE"]
LEAF_GRAMMAR = ["Package: foo", "K:", "K :", "K : v ", " cont", "\tcont ", " .", "K:v", "K: v\n", "K: v\r\n", "K:\n",
                " x\n", "a b: c", ":x", "K\u00a0: v", "K: \u00a0v\u00a0", "K: a\nb", " a\nb", "K: \n", " \n", "  ",
                " ", "", "#c: d", "K:: v", "K: :", "é: ü"]
GPG_GRAMMAR = ["-----BEGIN PGP SIGNED MESSAGE-----", "-----BEGIN PGP SIGNATURE-----", "-----END PGP SIGNATURE-----",
               "-----BEGIN PGP SIGNED MESSAGE----- \t\r", "-----BEGIN PGP SIGNED MESSAGE-----\n",
               "-----BEGIN PGP -----", "-----BEGIN PGP a-b-----", "-----BEGIN PGP x------", "----BEGIN PGP x-----",
               "-----BEGINPGP x-----", "-----ENDBEGIN PGP x-----", "-----END PGP é-----", "-----BEGIN PGP x-----y",
               " -----BEGIN PGP x-----", "-----BEGIN PGP x\ny-----", "-----BEGIN PGP SAFE-----\n\n"]


def _mutate(rng, s, alpha):
    if not s:
        return rng.choice(alpha)
    i = rng.randrange(len(s) + 1)
    r = rng.random()
    if r < 0.34:
        return s[:i] + rng.choice(alpha) + s[i:]
    if r < 0.67:
        return s[:i] + s[i + 1:]
    return s[:i] + rng.choice(alpha) + s[i + 1:]


def _leaf_cases(rng, n, tier):
    out = []
    if tier == "thorough":
        for which in (0, 1, 2):
            for L in range(0, 5):
                for t in itertools.product(LEAF_ALPHA[which][:9 if L == 4 else 11], repeat=L):
                    out.append({"t": "leaf", "which": which, "line": "".join(t)})
        for L in range(0, 5):
            for t in itertools.product(GPG_TOKENS[:9 if L == 4 else 11], repeat=L):
                out.append({"t": "leaf", "which": 3, "line": "".join(t)})
        for L in range(0, 5):
            for t in itertools.product([" ", "\t", "\n", "\r", "\x0b", "\x0c", "a", "\u00a0", "\x1c"], repeat=L):
                out.append({"t": "blank", "line": "".join(t)})
    for g in LEAF_GRAMMAR:
        for which in (0, 1, 2):
            out.append({"t": "leaf", "which": which, "line": g})
    for g in GPG_GRAMMAR:
        out.append({"t": "leaf", "which": 3, "line": g})
        out.append({"t": "blank", "line": g})
    for _ in range(n):
        r = rng.random()
        if r < 0.45:
            which = rng.randrange(3)
            if rng.random() < 0.5:
                s = "".join(rng.choice(LEAF_ALPHA[which]) for _ in range(rng.randint(0, 7)))
            else:
                s = _mutate(rng, rng.choice(LEAF_GRAMMAR), LEAF_ALPHA[which])
                if rng.random() < 0.3:
                    s = _mutate(rng, s, LEAF_ALPHA[which])
            out.append({"t": "leaf", "which": which, "line": s})
        elif r < 0.7:
            if rng.random() < 0.5:
                s = "".join(rng.choice(GPG_TOKENS) for _ in range(rng.randint(0, 8)))
            else:
                s = _mutate(rng, rng.choice(GPG_GRAMMAR), GPG_TOKENS)
            out.append({"t": "leaf", "which": 3, "line": s})
        elif r < 0.8:
            out.append({"t": "blank", "line": "".join(rng.choice([" ", "\t", "\n", "\r", "\x0b", "\x0c", "a", "\u00a0"])
                                                     for _ in range(rng.randint(0, 5)))})
        elif r < 0.92:
            lines = [rng.choice(RAW_VOCAB) + rng.choice(["", "", "\n", "\r\n"]) for _ in range(rng.randint(0, 9))]
            out.append({"t": "split", "ws_sep": rng.random() < 0.5, "bytes": rng.random() < 0.5, "lines": lines})
        else:
            v = "".join(rng.choice(["a", " ", "\t", "\n", "\r", "\x0c", "\u00a0", "\x1c", ":", "\u2028"])
                        for _ in range(rng.randint(0, 7)))
            out.append({"t": "valid", "v": v})
    return out


POISON = [("cp1251", "Description: \u041f\u0440\u0438\u0432\u0435\u0442, \u043c\u0438\u0440! \u042d\u0442\u043e \u0442\u0435\u043a\u0441\u0442 \u043d\u0430 \u0440\u0443\u0441\u0441\u043a\u043e\u043c \u044f\u0437\u044b\u043a\u0435 \u0434\u043b\u044f \u043f\u0440\u043e\u0432\u0435\u0440\u043a\u0438.\n"),
          ("koi8-r", "Maintainer: \u0418\u0432\u0430\u043d \u041f\u0435\u0442\u0440\u043e\u0432 \u0440\u0430\u0431\u043e\u0442\u0430\u0435\u0442 \u043d\u0430\u0434 \u043f\u0430\u043a\u0435\u0442\u043e\u043c \u043a\u0430\u0436\u0434\u044b\u0439 \u0434\u0435\u043d\u044c\n"),
          ("iso-8859-7", "Description: \u039a\u03b1\u03bb\u03b7\u03bc\u03ad\u03c1\u03b1 \u03ba\u03cc\u03c3\u03bc\u03b5, \u03b1\u03c5\u03c4\u03cc \u03b5\u03af\u03bd\u03b1\u03b9 \u03ad\u03bd\u03b1 \u03ba\u03b5\u03af\u03bc\u03b5\u03bd\u03bf\n"),
          ("latin-1", "Maintainer: Jos\u00e9 Mu\u00f1oz\nDescription: caf\u00e9 cr\u00e8me br\u00fbl\u00e9e d\u00e9j\u00e0 vu na\u00efve fa\u00e7ade\n")]


def _poison(k):
    """A PREVIOUS, unrelated use of the library in the same process: parse a paragraph in a legacy 8-bit encoding
    (bytes that are not valid UTF-8; the library auto-detects), in every entry point, and edit what it returned.
    Whatever it does must not influence the next parse."""
    from debian import deb822
    enc, text = POISON[k % len(POISON)]
    data = text.encode(enc)
    for f in (lambda: deb822.Deb822(data), lambda: list(deb822.Deb822.iter_paragraphs(data)),
              lambda: deb822.Deb822(data.splitlines()), lambda: deb822.Dsc(data), lambda: deb822.Changes(data)):
        try:
            r = f()
            for q in (r if isinstance(r, list) else [r]):
                q["X-Edited"] = "y"
                q.dump()
        except Exception:
            pass


def generate(rng, n, tier):
    n_leaf = n // 4
    n_doc = n - n_leaf
    for c in _leaf_cases(rng, n_leaf, tier):
        yield c
    late = []
    for _ in range(n_doc):
        c = _gen_raw(rng) if rng.random() < 0.3 else _gen_doc(rng)
        if rng.random() < 0.06:
            # run LAST, each after an unrelated earlier parse in the same process (state must not leak between uses)
            c["poison"] = rng.randrange(len(POISON))
            late.append(c)
        else:
            yield c
    for c in late:
        yield c


def from_json(j):
    return j


# ---------------------------------------------------------------------------
# implementation driver

_TMP = [None]


def _tmpdir():
    if _TMP[0] is None:
        _TMP[0] = tempfile.mkdtemp(prefix="verif-c02-")
        atexit.register(shutil.rmtree, _TMP[0], True)
    return _TMP[0]


def _armor_lines(d, body):
    w = d["armor_ws"]
    out = ["-----BEGIN PGP SIGNED MESSAGE-----" + w] + list(d["hdr"]) + [""] + body
    out += ["-----BEGIN PGP SIGNATURE-----" + w]
    if d["sig_blank"]:
        out += [""]
    out += list(d["sig"]) + ["-----END PGP SIGNATURE-----" + w]
    return out


def build_lines(case, dumps):
    """Logical lines of the document (no line ends)."""
    lines = [case["lead_ws"]] * case["lead"]
    for i, (dump, d) in enumerate(zip(dumps, case["decor"])):
        body = dump.split("\n")
        assert body[-1] == ""
        body = body[:-1]
        if d["armor"]:
            body = _armor_lines(d, body)
        for pos, text in d["comments"]:
            p = pos % (len(body) + 1)
            body = body[:p] + [text] + body[p:]
        if i > 0:
            # the first separator line is really empty unless whitespace separates paragraphs
            seps = [d["sep_ws"]] * d["sep"]
            if not case["ws_sep"]:
                seps[0] = ""
        else:
            seps, lines = lines, []          # the leading blank lines
        if d.get("sep_comments"):
            # comment lines anywhere among the blank lines (also before the first one: then they
            # follow the previous paragraph's last line), e.g. '', '#c', ' ', '' under strictness False
            for pos, text in d["sep_comments"]:
                p = pos % (len(seps) + 1)
                seps = seps[:p] + [text] + seps[p:]
            if d.get("sep_tail_empty"):
                seps = seps + [""]
        lines += seps
        if d["block"]:
            lines += list(d["block"]) + [""]
        lines += body
    lines += [""] * case["trail"]
    return lines


def _cls(n):
    from debian import deb822
    return [deb822.Deb822, deb822.Dsc, deb822.Changes][n]


def make_input(case, lines):
    """-> (object for the reader, list of str describing it for the model)."""
    eol = case["eol"]
    text = eol.join(lines)
    if lines and case["final_eol"]:
        text += eol
    form = case["form"]
    if form == 0:
        return text, [text]
    if form == 1:
        return text.encode("utf-8"), [text]
    if form in (2, 6):
        ls = [l + eol for l in lines]
        if ls and not case["final_eol"]:
            ls[-1] = lines[-1]
        return ([l.encode("utf-8") for l in ls] if form == 6 else ls), ls
    if form in (3, 7):
        return ([l.encode("utf-8") for l in lines] if form == 7 else list(lines)), list(lines)
    if form == 4:
        if case.get("real_file"):
            path = os.path.join(_tmpdir(), "t")
            with open(path, "w", encoding="utf-8", newline="") as f:
                f.write(text)
            return open(path, "r", encoding="utf-8", newline="\n"), [text]
        return io.StringIO(text), [text]
    if case.get("real_file"):
        path = os.path.join(_tmpdir(), "b")
        with open(path, "wb") as f:
            f.write(text.encode("utf-8"))
        return open(path, "rb"), [text]
    return io.BytesIO(text.encode("utf-8")), [text]


def _strict(ws_sep, rnd=0):
    if ws_sep:
        return None if rnd % 2 == 0 else {"whitespace-separates-paragraphs": True}
    return {"whitespace-separates-paragraphs": False}


def _read(case, lines):
    obj, shown = make_input(case, lines)
    cls = _cls(case["cls"])
    strict = _strict(case["ws_sep"], len(lines))
    try:
        try:
            if case["single"]:
                ps = [cls(obj, strict=strict)]
            else:
                ps = list(cls.iter_paragraphs(obj, strict=strict))
            res = {"ok": [[[k, p[k]] for k in p] for p in ps]}
            for p in res["ok"]:
                for k, v in p:
                    if not isinstance(k, str) or not isinstance(v, str):
                        raise TypeError("non-str field in observation")
        except Exception as e:
            res = {"err": err_kind(e)}
    finally:
        if hasattr(obj, "close"):
            obj.close()
    return shown, res


def run_impl(case):
    from debian import deb822
    t = case["t"]
    if case.get("poison") is not None:
        _poison(case["poison"])
    if t == "doc":
        dumps = []
        for para in case["paras"]:
            p = deb822.Deb822()
            for k, v in para:
                p[k] = v
            dumps.append(p.dump())
        shown, res = _read(case, build_lines(case, dumps))
        return {"dumps": dumps, "input": shown, "res": res}
    if t == "raw":
        shown, res = _read(case, case["lines"])
        return {"input": shown, "res": res}
    if t == "leaf":
        w = case["which"]
        line = case["line"]
        if w == 3:
            m = deb822.Deb822._gpgre.match(line.encode("utf-8"))
            return {"g": None if m is None else [m.group("action").decode("utf-8"), m.group("what").decode("utf-8")]}
        rx = [deb822.Deb822._single, deb822.Deb822._multi, deb822.Deb822._multidata][w]
        m = rx.match(line)
        if m is None:
            return {"g": None}
        return {"g": [m.group("key"), m.group("data")] if w == 0 else [m.group("key")] if w == 1 else [m.group("data")]}
    if t == "blank":
        b = case["line"].encode("utf-8")
        return {"b": [bool(deb822.Deb822._initial_blank_line.match(b)),
                      bool(deb822.Deb822._blank_line_whitespace.match(b)),
                      bool(deb822.Deb822._blank_line_no_whitespace.match(b))]}
    if t == "split":
        ls = [l.encode("utf-8") for l in case["lines"]] if case["bytes"] else list(case["lines"])
        it = iter(ls)
        try:
            a, b, c = deb822.Deb822.split_gpg_and_payload(it, _strict(case["ws_sep"], len(ls)))
            r = {"ok": [[x.decode("utf-8") for x in part] for part in (a, b, c)]}
        except Exception as e:
            r = {"err": err_kind(e)}
        r["left"] = len(list(it))
        return r
    if t == "valid":
        try:
            deb822.Deb822().validate_input("k", case["v"])
            return {"ok": True}
        except ValueError:
            return {"ok": False}
    raise ValueError("unknown case type %r" % t)


# ---------------------------------------------------------------------------
# emitter

def _cq_dict(d):
    return cq_list(["(%s, %s)" % (cq_str(k), cq_str(v)) for k, v in d])


def _cq_dicts(ds):
    return cq_list([_cq_dict(d) for d in ds])


def _cq_res(res):
    if "ok" in res:
        return "(Ok %s)" % _cq_dicts(res["ok"])
    return "(Err %s)" % res["err"]


def emit(case, obs):
    t = case["t"]
    if t in ("doc", "raw"):
        paras = "(Some %s)" % _cq_dicts(case["paras"]) if t == "doc" else "None"
        return "Doc %s %s %s %s %s %s %s %s" % (
            cq_N(case["cls"]), cq_bool(case["ws_sep"]), cq_bool(case["single"]), cq_N(case["form"]),
            paras, cq_strs(obs.get("dumps", [])), cq_strs(obs["input"]), _cq_res(obs["res"]))
    if t == "leaf":
        return "Leaf %s %s %s" % (cq_N(case["which"]), cq_str(case["line"]), cq_opt(obs["g"], cq_strs))
    if t == "blank":
        return "Blank %s %s %s %s" % ((cq_str(case["line"]),) + tuple(cq_bool(b) for b in obs["b"]))
    if t == "split":
        if "ok" in obs:
            r = "(Ok (%s, %s, %s))" % tuple(cq_strs(p) for p in obs["ok"])
        else:
            r = "(Err %s)" % obs["err"]
        return "Split %s %s %s %s" % (cq_bool(case["ws_sep"]), cq_strs(case["lines"]), r, cq_N(obs["left"]))
    if t == "valid":
        return "Valid %s %s" % (cq_str(case["v"]), cq_bool(obs["ok"]))
    raise ValueError(t)


FORM_NAMES = ["str", "bytes", "list+eol", "list", "textfile", "binfile", "blist+eol", "blist"]


def classify(case, obs):
    t = case["t"]
    if t in ("doc", "raw"):
        res = obs["res"]
        out = "ok%d" % min(len(res["ok"]), 4) if "ok" in res else res["err"]
        cls = ["Deb822", "Dsc", "Changes"][case["cls"]]
        if t == "doc":
            arm = "armor" if any(d["armor"] for d in case["decor"]) else "plain"
            com = ("gapcomments" if any(d.get("sep_comments") for d in case["decor"]) else
                   "comments" if any(d["comments"] or d["block"] for d in case["decor"]) else "nocomment")
            return "doc/%s/%s/%s/%s/%s%s/%s" % (cls, FORM_NAMES[case["form"]], arm, com,
                                               "ws" if case["ws_sep"] else "nows",
                                               "/single" if case["single"] else "", out)
        return "raw/%s/%s/%s%s/%s" % (cls, FORM_NAMES[case["form"]], "ws" if case["ws_sep"] else "nows",
                                      "/single" if case["single"] else "", out)
    if t == "leaf":
        return "leaf/%s/%s" % (["_single", "_multi", "_multidata", "_gpgre"][case["which"]],
                               "match" if obs["g"] is not None else "nomatch")
    if t == "blank":
        return "leaf/blank/%s" % "".join("1" if b else "0" for b in obs["b"])
    if t == "split":
        return "split/%s" % ("ok" if "ok" in obs else obs["err"])
    return "valid/%s" % obs["ok"]


def nontrivial(case, obs):
    t = case["t"]
    if t == "doc":
        return bool(case["paras"])
    if t == "raw":
        return "err" in obs["res"] or bool(obs["res"]["ok"])
    if t == "leaf":
        return obs["g"] is not None
    if t == "blank":
        return any(obs["b"])
    if t == "split":
        return True
    return True


def shrink(case):
    t = case["t"]
    if t == "doc":
        ps, ds = case["paras"], case["decor"]
        for i in range(len(ps)):
            if len(ps) > 1:
                yield dict(case, paras=ps[:i] + ps[i + 1:], decor=ds[:i] + ds[i + 1:])
        for i, p in enumerate(ps):
            for j in range(len(p)):
                if len(p) > 1:
                    yield dict(case, paras=ps[:i] + [p[:j] + p[j + 1:]] + ps[i + 1:])
            for j, (k, v) in enumerate(p):
                vl = v.split("\n")
                for m in range(1, len(vl)):
                    nv = "\n".join(vl[:m] + vl[m + 1:])
                    yield dict(case, paras=ps[:i] + [p[:j] + [[k, nv]] + p[j + 1:]] + ps[i + 1:])
                if len(vl[0]) > 1:
                    for cut in (vl[0][:len(vl[0]) // 2], vl[0][1:], vl[0][:-1]):
                        nv = "\n".join([cut] + vl[1:])
                        yield dict(case, paras=ps[:i] + [p[:j] + [[k, nv]] + p[j + 1:]] + ps[i + 1:])
        for i, d in enumerate(ds):
            if d["armor"]:
                yield dict(case, decor=ds[:i] + [dict(d, armor=False)] + ds[i + 1:])
            if d["comments"]:
                yield dict(case, decor=ds[:i] + [dict(d, comments=d["comments"][1:])] + ds[i + 1:])
            if d["block"]:
                yield dict(case, decor=ds[:i] + [dict(d, block=[])] + ds[i + 1:])
            if d.get("sep_comments"):
                yield dict(case, decor=ds[:i] + [dict(d, sep_comments=d["sep_comments"][1:])] + ds[i + 1:])
            if d["sep"] > 1 or d["sep_ws"]:
                yield dict(case, decor=ds[:i] + [dict(d, sep=1, sep_ws="")] + ds[i + 1:])
        if case["lead"] or case["trail"]:
            yield dict(case, lead=0, trail=0)
        if case["eol"] != "\n":
            yield dict(case, eol="\n")
        if case["form"] != 0:
            yield dict(case, form=0)
        if case["cls"] != 0:
            yield dict(case, cls=0)
    elif t == "raw":
        ls = case["lines"]
        for i in range(len(ls)):
            yield dict(case, lines=ls[:i] + ls[i + 1:])
        if case["eol"] != "\n":
            yield dict(case, eol="\n")
        if case["form"] != 3:
            yield dict(case, form=3)
        if case["cls"] != 0:
            yield dict(case, cls=0)
    elif t == "split":
        ls = case["lines"]
        for i in range(len(ls)):
            yield dict(case, lines=ls[:i] + ls[i + 1:])
    elif t in ("leaf", "blank", "valid"):
        key = "v" if t == "valid" else "line"
        s = case[key]
        for i in range(len(s)):
            yield dict(case, **{key: s[:i] + s[i + 1:]})


def neighbours(case, rng):
    if case["t"] in ("doc", "raw"):
        for f in range(FORMS):
            for ws in (True, False):
                for c in (0, 1):
                    yield dict(case, form=f, ws_sep=ws, cls=c)


def describe(case, obs):
    t = case["t"]
    if t in ("doc", "raw"):
        d = {"call": "%s(%s, strict=%r) for the %s input form" % (
            ["Deb822", "Dsc", "Changes"][case["cls"]] + ("" if case["single"] else ".iter_paragraphs"),
            "sequence", _strict(case["ws_sep"]), FORM_NAMES[case["form"]]),
            "input": obs.get("input"), "observed": obs.get("res")}
        if t == "doc":
            d["generated_paragraphs"] = case["paras"]
            d["specified"] = ("the paragraphs read back equal the generated ones: same names, same order, same values "
                              "with the first line trimmed")
        return d
    return {"case": case, "observed": obs}


# ---------------------------------------------------------------------------------------------------
# TIE BY REGENERATION (DESIGN §3.1b): the control flow of the reader and of the writer is regenerated from
# lib/debian/deb822.py into coq/Gen/TrDeb822.v on every run (harness/py2coq.py); coq/Deb822/Tie.v proves the
# regenerated functions equal to the model functions of coq/Deb822/Model.v on ALL inputs; statements in
# coq/Props/C02Tie.v.  Primitives (regex leaves, str methods, the mapping): coq/Deb822/TrPrims.v.
#
# str/bytes: lines are code-point lists in both flavours (the model's abstraction of the codec); ONE translation
# with a leading Coq parameter `is_bytes` (ghost) = "the elements of `sequence` are bytes objects", read by
# isinstance(line, bytes) / isinstance(line_, str).  `.encode()` / `self.decoder.decode()` are the identity on code
# points (Deb822/Model.v header).  The b'' / '' flavour of a LITERAL is not visible to the translator.
from harness import extract, py2coq as _P   # noqa: E402

TIE_FILE = "Props/C02Tie.v"

_LS = ("list", "str")
_IT = ("iter", "str")
_PYT = ("coq", "trp_pytype")
_BPAT = ("coq", "trp_blank_pat")
_GPGM = ("tuple", "str", "str")            # a match of _gpgre: (group 'action', group 'what')
_STRICT = ("coq", "trp_strict")            # Optional[Dict[str, bool]]
_GH = [("is_bytes", "bool")]
_TRIPLE = ("tuple", _LS, _LS, _LS)

_F_SKIP = _P.Fun("tr_skip_useless_lines", "Deb822._skip_useless_lines", [("sequence", _LS)], "str",
                 locals={"at_beginning": "bool", "line": "str"}, generator=True, ghost=_GH)

_SPLIT_LOCALS = {"gpg_pre_lines": _LS, "lines": _LS, "gpg_post_lines": _LS, "state": "str", "blank_line": _BPAT,
                 "first_line": "bool", "line_": "str", "line": "str", "m": ("option", _GPGM)}
# (a) `sequence` a list of lines: the result triple or EOFError
_F_SPLIT = _P.Fun("tr_split_gpg_and_payload", "Deb822.split_gpg_and_payload",
                  [("sequence", _LS), ("strict", _STRICT)], _TRIPLE, locals=_SPLIT_LOCALS, ghost=_GH)
# (b) `sequence` an ITERATOR that the caller goes on using: the first parameter of the static method is threaded
# as state (METHOD MODE with the iterator in the place of the object), so the translation also returns what is
# left of the iterator — on normal return and on EOFError alike.  The loop is a Fixpoint on fuel.
_F_SPLIT_IT = _P.Fun("tr_split_gpg_and_payload_it", "Deb822.split_gpg_and_payload", [("strict", _STRICT)], _TRIPLE,
                     locals=_SPLIT_LOCALS, ghost=_GH, skip_first=True,
                     state=[("<the iterator argument>", "sequence", _IT)], fuel={1: "S (length sequence)"})
_F_STRIPPED = _P.Fun("tr_gpg_stripped_paragraph", "Deb822.gpg_stripped_paragraph",
                     [("sequence", _LS), ("strict", _STRICT)], _LS, ghost=_GH, skip_first=True)
for _f in (_F_SPLIT, _F_SPLIT_IT):
    _f.join_defines = True      # `line` is first assigned in both branches of `if isinstance(line_, str)`

# _internal_parser: METHOD MODE with the object itself (the ordered mapping it holds) as the one state variable
# `self` of the opaque type trp_map; `self[curkey] = content` is the call self.__setitem__(curkey, content) of the
# translated Deb822.__setitem__ on the current state ("<trp_map>.__setitem__" with Call.selfmethod, see below).
# `sequence` is a line sequence (list / file / iterator); the str/bytes case (`sequence.splitlines()` first) is the
# same path on `lines_of i` and is what Model.deb822_new expresses: isinstance(sequence, (str, bytes)) is the
# primitive trp_seq_is_text (false on a line sequence).
# The nested helper wanted_field closes over `fields`: translated on its own with `fields` as a leading (ghost)
# parameter; the call passes the caller's current `fields`.
_MAP = ("coq", "trp_map")
_MOBJ = ("coq", "trp_mobj")                # a match of _single/_multi/_multidata: the groups 'key' and 'data'
_FIELDS = ("option", _LS)
_F_WANTED = _P.Fun("tr_wanted_field", "Deb822._internal_parser.wanted_field", [("f", "str")], "bool",
                   ghost=[("fields", _FIELDS)])
_ST_SELF = [("self", "self", _MAP)]
_F_PARSER = _P.Fun("tr_internal_parser", "Deb822._internal_parser",
                   [("sequence", _LS), ("fields", _FIELDS), ("strict", _STRICT)], "unit",
                   locals={"curkey": ("option", "str"), "content": "str", "linebytes": "str", "line": "str",
                           "m": ("option", _MOBJ)},
                   ghost=_GH, skip_first=True, state=_ST_SELF)
# self[curkey] = content is Deb822.__setitem__, translated too (same state, same ghost): validate_input (translated),
# then Deb822Dict.__setitem__(self, key, value) = the hand-written primitive trp_dict_setitem on the object's state
# (the model's dict_set: OrderedSet.add + dict store under the case-insensitive key).
_F_VALID = _P.Fun("tr_validate_input", "Deb822.validate_input", [("key", "str"), ("value", "str")], "unit",
                  locals={"line": "str"}, ghost=_GH, skip_first=True, state=_ST_SELF)
_F_SETITEM = _P.Fun("tr_setitem", "Deb822.__setitem__", [("key", "str"), ("value", "str")], "unit",
                    ghost=_GH, skip_first=True, state=_ST_SELF)
_C_VALID = _P.Call("tr_validate_input", ["str", "str"], "unit")
_C_VALID.selfmethod = "Deb822.validate_input"
_C_SETITEM = _P.Call("tr_setitem", ["str", "str"], "unit")
_C_SETITEM.selfmethod = "Deb822.__setitem__"
_C_DICTSET = _P.Call("trp_dict_setitem", [_MAP, "str", "str"], "unit")
_C_DICTSET.stateprim = True

# The writer: the object is read only, so `self` is a leading (ghost) parameter of type trp_map.  `for key in self`
# iterates over the ordered key list ("<trp_map>.__iter__" = the model's `keys`); self[key] is the model's lookup
# (case-insensitive, KeyError); '%s: %s\n' % (key, value) is rendered as a concatenation.  dump() itself is not
# translated (its fd branches write to a file object): with fd=None it is `return self._dump_str()`.
_GSELF = [("self", _MAP)]
_F_GETSTR = _P.Fun("tr_get_as_string", "Deb822.get_as_string", [("key", "str")], "str", ghost=_GSELF, skip_first=True)
_F_DUMPF = _P.Fun("tr_dump_format", "Deb822._dump_format", [], "str",
                  locals={"key": "str", "value": "str", "entry": "str"}, generator=True, ghost=_GSELF, skip_first=True)
_F_DUMPF.join_defines = True     # `entry` is first assigned in both branches of the if
_F_DUMPS = _P.Fun("tr_dump_str", "Deb822._dump_str", [], "str", ghost=_GSELF, skip_first=True)

TR_MODULE = _P.Module(
    "TrDeb822", "lib/debian/deb822.py",
    funs=[_F_SKIP, _F_SPLIT, _F_SPLIT_IT, _F_STRIPPED, _F_WANTED, _F_VALID, _F_SETITEM, _F_PARSER, _F_GETSTR, _F_DUMPF, _F_DUMPS],
    calls={
        "isinstance": [_P.Call("trp_isinstance is_bytes", ["str", _PYT], "bool"),
                       _P.Call("trp_seq_is_text", [_LS, ("literal", "(str, bytes)", "tt")], "bool")],
        "<list>.splitlines": _P.Call("trp_seq_splitlines", [_LS], _LS),
        "<str>.startswith": _P.Call("trp_startswith", ["str", "str"], "bool"),
        "<str>.rstrip": _P.Call("trp_rstrip", ["str", "str"], "str"),
        "<str>.strip": _P.Call("trp_strip", ["str", "str"], "str"),
        "<str>.encode": _P.Call("trp_encode", ["str"], "str"),
        "<trp_strict>.__bool__": _P.Call("trp_strict_bool", [_STRICT], "bool"),
        "<trp_strict>.get": _P.Call("trp_strict_get", [_STRICT, "str", "bool"], "bool", True),
        "<trp_blank_pat>.match": _P.Call("trp_blank_match", [_BPAT, "str"], "bool"),
        "Deb822._initial_blank_line.match": _P.Call("trp_initial_blank_match", ["str"], "bool"),
        "Deb822._gpgre.match": _P.Call("trp_gpgre_match", ["str"], ("option", _GPGM)),
        "<tuple>.group": [_P.Call("trp_group_action", [_GPGM, ("literal", "'action'", "tt")], "str"),
                          _P.Call("trp_group_what", [_GPGM, ("literal", "'what'", "tt")], "str")],
        "cls.split_gpg_and_payload": _P.Call("tr_split_gpg_and_payload is_bytes", [_LS, _STRICT], _TRIPLE, True),
        "self._skip_useless_lines": _P.Call("tr_skip_useless_lines is_bytes", [_LS], _LS, True),
        "self.gpg_stripped_paragraph": _P.Call("tr_gpg_stripped_paragraph is_bytes", [_LS, _STRICT], _LS, True),
        "wanted_field": _P.Call("tr_wanted_field fields", ["str"], "bool", True),
        "self.decoder.decode": _P.Call("trp_decode", ["str"], "str"),
        "self._single.match": _P.Call("trp_single_match", ["str"], ("option", _MOBJ)),
        "self._multi.match": _P.Call("trp_multi_match", ["str"], ("option", _MOBJ)),
        "self._multidata.match": _P.Call("trp_multidata_match", ["str"], ("option", _MOBJ)),
        "<trp_mobj>.group": [_P.Call("trp_group_key", [_MOBJ, ("literal", "'key'", "tt")], "str", True),
                             _P.Call("trp_group_data", [_MOBJ, ("literal", "'data'", "tt")], "str", True)],
        "<trp_map>.__setitem__": _C_SETITEM,
        "self.validate_input": _C_VALID,
        "Deb822Dict.__setitem__": _C_DICTSET,
        "<str>.endswith": _P.Call("trp_endswith", ["str", "str"], "bool"),
        "<str>.splitlines": _P.Call("trp_splitlines", ["str"], _LS),
        "<char>.isspace": _P.Call("trp_char_isspace", ["char"], "bool"),
        "<trp_map>.__getitem__": _P.Call("trp_getitem", [_MAP, "str"], "str", True),
        "<trp_map>.__iter__": _P.Call("trp_keys", [_MAP], _LS),
        "str": _P.Call("trp_str_of_str", ["str"], "str"),
        "self.get_as_string": _P.Call("tr_get_as_string self", ["str"], "str", True),
        "self._dump_format": _P.Call("tr_dump_format self", [], _LS, True),
        "<str>.join": _P.Call("trp_join", ["str", _LS], "str"),
    },
    consts={"bytes": ("TyBytes", _PYT), "str": ("TyStr", _PYT), "{}": ("trp_strict_empty", _STRICT),
            "Deb822._blank_line_whitespace": ("BlankWs", _BPAT),
            "Deb822._blank_line_no_whitespace": ("BlankNoWs", _BPAT)},
    imports=["Deb822.Model", "Deb822.TrPrims"],
    regexes=[("Deb822._gpgre", rb'^-----(?P<action>BEGIN|END) PGP (?P<what>[^-]+)-----[\r\t ]*$'),
             ("Deb822._initial_blank_line", rb'^\s*$'), ("Deb822._blank_line_whitespace", rb'^\s*$'),
             ("Deb822._blank_line_no_whitespace", rb'^$'),
             ("Deb822._single", r"^(?P<key>[^: \t\n\r\f\v]+)\s*:\s*(?P<data>\S.*?)\s*$"),
             ("Deb822._multi", r"^(?P<key>[^: \t\n\r\f\v]+)\s*:\s*$"),
             ("Deb822._multidata", r"^\s(?P<data>.+?)\s*$")])


@extract.register("TrDeb822")
def _gen_tr(repo):
    return _P.translate_module(repo, TR_MODULE)
