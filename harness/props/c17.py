"""C17 — Copyright documents and license texts survive dump and re-parse
(copyright.format_multiline(_lines) / parse_multiline(_as_lines), License.from_str/to_str, _SpaceSeparated,
_LineBased, Copyright.__init__/dump, Header, FilesParagraph, LicenseParagraph, deb822.RestrictedWrapper)."""
import ast
import io

from harness import extract
from harness.core import cq_bool, cq_list, cq_N, cq_opt, cq_str, cq_strs, err_kind

ID = "C17"
CHECK_MODULE = "Copyright.DocCheck"
PROPS_FILE = "Props/C17.v"
ANCHORS = [("lib/debian/copyright.py",
            ["format_multiline", "format_multiline_lines", "parse_multiline", "parse_multiline_as_lines",
             "License", "_SpaceSeparated", "_LineBased", "_single_line", "_complain", "Copyright",
             "Header", "FilesParagraph", "LicenseParagraph", "_CURRENT_FORMAT", "_KNOWN_FORMATS"]),
           ("lib/debian/deb822.py", ["RestrictedWrapper", "RestrictedField"])]
BUDGET = {"quick": 1200, "thorough": 12000}
SHARD = 125
RULE = ("codec cases: line lists / texts over a vocabulary of plain, indented, tab-indented, non-ASCII, empty, "
        "whitespace-only, lone-'.', '..', trailing-blank lines and lines containing LF, CR, FF, NEL, LS pushed through "
        "format_multiline_lines/parse_multiline_as_lines, format_multiline/parse_multiline, "
        "License(synopsis,text).to_str()/License.from_str, _SpaceSeparated.to_str/from_str and "
        "_LineBased.to_str/from_str (both directions: value->text->value and text->value->text->value); "
        "arbitrary encoded texts through the decoders (malformed stream: missing leading space, tab continuation, "
        "empty continuation line).  document cases: Copyright() objects built through the public API "
        "(header properties and header[key]=value, FilesParagraph.create, LicenseParagraph.create, comment, "
        "add_files_paragraph/add_license_paragraph) with 0-3 Files and 0-3 License paragraphs - 'clean' (all values in "
        "the exact round-trip domain wf_copyright: empty lines, indentation, tabs, non-ASCII, '..', single/multi-"
        "element lists), 'lossy' (license lines that are whitespace-only or a lone '.': domain wf_copyright_weak, the "
        "document must survive) and 'dirty' (anything, incl. values the setters reject) -, dumped, re-read with "
        "Copyright(<str | list of lines with/without line ends | StringIO>, strict=True|False), all properties read "
        "back, dumped again; a separate stream of hand-written/mutated copyright texts (Format-Specification, http "
        "format URL, paragraphs lacking Files/License/Copyright, empty Files, no paragraphs) through Copyright(). "
        "non-trivial = a codec case whose value is non-empty, or a document with at least one paragraph besides "
        "the header, or any error")
TRUSTED = ["model coq/Copyright/Fields.v + Doc.v: hand transcription of the copyright.py codecs, RestrictedWrapper "
           "property machinery, Header/FilesParagraph/LicenseParagraph constructors, Copyright.__init__/dump; tied "
           "to the code only by this correspondence",
           "deb822 reader/writer model coq/Deb822/Model.v (C02's model) used underneath for iter_paragraphs/dump",
           "str.splitlines/strip/split as modelled by coq/Lib/PyStr.v with the tables of Gen/PyChars.v",
           "_CURRENT_FORMAT/_KNOWN_FORMATS regenerated from the source AST (coq/Gen/CopyrightConsts.v)"]
ASSUMPTIONS = ["field names are ASCII; text is str (the bytes/encoding path of Deb822 is C02's)",
               "holds has two tiers for documents: on wf_copyright the re-read document must show the same values, "
               "the second dump must be identical and the Files/License paragraphs must read as the values put in; "
               "on wf_copyright_weak (license lines may be whitespace-only or a lone '.') the same except that the "
               "values are compared before/after only",
               "values are outside both domains (holds not judged, agree still compared) when: a line "
               "contains a Python line-boundary character other than the LF separators; a license text ends in LF; "
               "a free-text field (Copyright, Comment, Source, Disclaimer, header[key]) is not a valid deb822 value "
               "with a trimmed first line (C02's valid_value; in particular a whitespace-only continuation line, "
               "which Deb822.__setitem__ accepts, ends the paragraph when re-read - C08's stated limit); "
               "a list item has surrounding whitespace; Format is one of the URLs Header() rewrites",
               "logging output (warnings) is not observed"]


# ---------------------------------------------------------------------------
# constants regenerated from the source

@extract.register("CopyrightConsts")
def _gen_consts(repo):
    tree = extract._parse(repo, "lib/debian/copyright.py")
    cur = extract.find_assign(tree.body, "_CURRENT_FORMAT")
    known = extract.find_assign(tree.body, "_KNOWN_FORMATS")
    if cur is None or known is None:
        raise extract.ExtractError("_CURRENT_FORMAT/_KNOWN_FORMATS not found")
    try:
        cur_v = ast.literal_eval(cur)
    except Exception:
        raise extract.ExtractError("_CURRENT_FORMAT is not a literal")
    if not isinstance(cur_v, str):
        raise extract.ExtractError("_CURRENT_FORMAT is not a str")
    if not (isinstance(known, ast.Call) and isinstance(known.func, ast.Name) and known.func.id == "frozenset"
            and len(known.args) == 1 and isinstance(known.args[0], (ast.List, ast.Tuple, ast.Set))):
        raise extract.ExtractError("_KNOWN_FORMATS is not frozenset([...])")
    vals = []
    for e in known.args[0].elts:
        if isinstance(e, ast.Name) and e.id == "_CURRENT_FORMAT":
            vals.append(cur_v)
        elif isinstance(e, ast.Constant) and isinstance(e.value, str):
            vals.append(e.value)
        else:
            raise extract.ExtractError("unexpected element in _KNOWN_FORMATS")
    lit = lambda s: "[" + "; ".join(str(ord(c)) for c in s) + "]%N"
    return ("(* GENERATED by harness/props/c17.py from lib/debian/copyright.py. Do not edit. *)\n"
            "From Coq Require Import List NArith.\nImport ListNotations.\n\n"
            "(* %s *)\n"
            "Definition CURRENT_FORMAT : list N := %s.\n"
            "Definition KNOWN_FORMATS : list (list N) := [%s].\n"
            % (cur_v.replace("*)", "* )"), lit(cur_v), "; ".join(lit(v) for v in sorted(vals))))


# ---------------------------------------------------------------------------
# vocabulary

PLAIN = ["Conditions: ", "Note:", "ends with colon-space: ", "a: b: ", ": ", "key:\tvalue",
         "GPL-2+", "This program is free software;", "you can redistribute it", "  indented text",
         "\tTabbed", "Ünïcödé © 2014 Müller", "日本語 text", "trailing ", "a b  c", "x\xa0y", "..", ". .", ".x",
         " . ", "#hash", "Key: value", ":", "-----BEGIN PGP SIGNATURE-----", "2014 Foo <foo@example.org>"]
EDGE = ["", "", "", " ", "  ", "\t", ".", " .", ". ", "\xa0", "　 ", "with\x0cformfeed", "cr\rin", "cr\r",
        "nel\x85x", "ls x", "lf\nin", "\x1c", "a\x1db", "vt\x0b"]


def _line(rng, edge=0.35):
    return rng.choice(EDGE) if rng.random() < edge else rng.choice(PLAIN)


def _lines(rng, lo=0, hi=6, edge=0.35):
    return [_line(rng, edge) for _ in range(rng.randint(lo, hi))]


def _text(rng, edge=0.35):
    r = rng.random()
    if r < 0.08:
        return ""
    t = "\n".join(_lines(rng, 1, 6, edge))
    if rng.random() < 0.1:
        t += "\n"
    return t


def _clean_text(rng):
    """a text inside the round-trip domain: plain and empty lines, no LF at the end"""
    ls = [rng.choice(PLAIN + ["", "", "", ""]) for _ in range(rng.randint(1, 6))]
    if not ls[-1]:
        ls.append(rng.choice(PLAIN))
    return "\n".join(ls)


def _lossy_text(rng):
    """a text the ' .' encoding does not carry exactly (whitespace-only lines, lone '.'), but with which
    a document must still survive dump and re-parse"""
    ls = [rng.choice(PLAIN + ["", " ", "  ", "\t", ".", ".", "\xa0", "　 "]) for _ in range(rng.randint(1, 6))]
    if not ls[-1]:
        ls.append(rng.choice([" ", ".", "x"]))
    return "\n".join(ls)


def _encoded(rng):
    """something that looks like a stored multi-line value, possibly malformed"""
    ls = _lines(rng, 0, 5, 0.3)
    out = []
    for i, l in enumerate(ls):
        if i:
            r = rng.random()
            l = (" " + l) if r < 0.75 else ("\t" + l) if r < 0.85 else l
        out.append(l)
    return "\n".join(out)


SYNOPSES = ["GPL-2+", "MIT", "GPL-2+ or Artistic-1.0", "Apache-2.0 with exception", "", "é-1.0",
            " lead", "trail ", "with\nLF", "x\x0cy", "a\x85", "."]
SS_ITEMS = ["*", "src/*", "src/*.c", "debian/rules", "debian/*", "a?b", "é/ü*", "doc/\\*", "x", ".", "#",
            "", " ", "a b", "a\tb", " a", "a ", "a\nb", "a\xa0b", "　", "x\x1cy", "a\x85b"]
LONG_ITEMS = ["vendor/some-other-project/include/*.h", "third-party/lib-foo-bar/src/*", "debian/patches/0001-fix-build.patch",
              "a-b-c-d-e-f-g-h", "docs/user-guide/chapter-*.rst", "x" * 30 + "-" + "y" * 30, "tools/gen-all.sh", "*-config.cmake.in",
              "share/locale/*/LC_MESSAGES/pkg-name.mo", "-", "--", "a-", "-b"]
SS_SEPS = [" ", " ", "  ", "\t", "\n", "\n ", "\xa0", "\x1f", "\x0c", " "]
LB_ITEMS = ["Name <a@b.c>", "John Doe", "Jörg Ü <j@x.org>", "https://example.org/", "x", ".",
            " lead", "trail ", "\ttab", "", "  ", "a\nb", "a\x0cb", "x\x85y", "a  b", "\xa0n", "a\r"]
HNAMES = ["format", "upstream_name", "upstream_contact", "source", "disclaimer", "comment", "license",
          "copyright", "files_excluded", "files_included"]
HKINDS = ["format", "line", "lines", "text", "text", "text", "license", "text", "lines", "lines"]
CURRENT = "https://www.debian.org/doc/packaging-manuals/copyright-format/1.0/"
FORMATS = [CURRENT, CURRENT, "https://example.org/fmt", "", "x",
           "http://www.debian.org/doc/packaging-manuals/copyright-format/1.0",
           "http://www.debian.org/doc/packaging-manuals/copyright-format/1.0/",
           "https://www.debian.org/doc/packaging-manuals/copyright-format/1.0",
           "http:", " " + CURRENT, CURRENT + "\n x", "a\nb"]
HKEYS = ["X-Custom", "x-custom", "Origin", "X-Note", "Comment", "format", "Format-Specification",
         "FORMAT-SPECIFICATION", "Files", "License"]


def _freetext(rng, bad=0.2):
    """a deb822 value in continuation form, as a caller has to write it for Copyright/Comment/..."""
    first = rng.choice(["2014 Foo <foo@example.org>", "", "Ünï © Müller", "x", "a  b", "#c", "Key: v"])
    conts = []
    for _ in range(rng.choice([0, 0, 1, 2, 3])):
        conts.append(rng.choice([" 2015 Bar", "\t2016 Tab", " .", "  deeper  indent", " é", " trailing ", " #h",
                                 " x\xa0", " -----BEGIN PGP SIGNED MESSAGE-----", " a: b"]))
    v = "\n".join([first] + conts)
    if rng.random() < bad:
        v = rng.choice([" " + v, v + " ", v + "\n", v + "\n\n b", v + "\nnoindent", v + "\n \n b", v + "\n\xa0x",
                        v + "\n x\x0cy", v + "\n \x0c", "\t" + v, v + "\n \t ", v + "\n\x0cff", v + "\x85"])
    return v


def _lic(rng, bad=0.25, lossy=False):
    syn = rng.choice(SYNOPSES[:6]) if rng.random() >= bad else rng.choice(SYNOPSES)
    r = rng.random()
    if lossy and r > 0.3:
        return {"lic": [syn, _lossy_text(rng)]}
    text = None if r < 0.1 else "" if r < 0.2 else _text(rng, bad) if bad else _clean_text(rng)
    return {"lic": [syn, text]}


def _hval(rng, kind, clean):
    bad = (not clean) and rng.random() < 0.3
    if kind == "format":
        if clean:
            return {"s": rng.choice([CURRENT, "https://example.org/fmt", "", "x"])}
        return None if rng.random() < 0.05 else {"s": rng.choice(FORMATS)}
    if rng.random() < 0.1:
        return None
    if kind == "line":
        return {"s": rng.choice(["python-debian", "", "Ünï", "a b", " lead", "trail ", "two\nlines", "ff\x0cx"]
                                if bad else ["python-debian", "Ünï name", "a b", ""])}
    if kind == "lines":
        items = LB_ITEMS if bad else LB_ITEMS[:6]
        return {"l": [rng.choice(items) for _ in range(rng.choice([0, 1, 1, 2, 3]))]}
    if kind == "text":
        return {"s": _freetext(rng, 0.6 if bad else 0.0)}
    return _lic(rng, 0.5 if bad else 0.0, lossy=(clean == "lossy"))


def _hops(rng, clean):
    ops = []
    for _ in range(rng.choice([0, 0, 1, 2, 3, 5])):
        if rng.random() < 0.25:
            k = rng.choice(HKEYS[:4]) if (clean or rng.random() < 0.7) else rng.choice(HKEYS)
            ops.append(["item", k, _freetext(rng, 0.0 if clean else 0.15)])
        else:
            i = rng.randrange(len(HNAMES))
            ops.append(["set", i, _hval(rng, HKINDS[i], clean)])
    return ops


def _files_spec(rng, clean):
    bad = (not clean) and rng.random() < 0.3
    r = rng.random()
    if bad and r < 0.1:
        files = None
    elif bad and r < 0.2:
        files = {"l": []}
    else:
        items = SS_ITEMS if bad else SS_ITEMS[:11]
        files = {"l": [rng.choice(items) for _ in range(rng.choice([1, 1, 2, 3]))]}
        if rng.random() < 0.12:
            # a long list (well over 80 columns when joined) of long patterns with hyphens, dots and slashes
            files = {"l": [rng.choice(LONG_ITEMS) for _ in range(rng.randint(3, 9))]}
    cop = None if (bad and rng.random() < 0.1) else {"s": _freetext(rng, 0.4 if bad else 0.0)}
    lic = None if (bad and rng.random() < 0.1) else _lic(rng, 0.4 if bad else 0.0, lossy=(clean == "lossy"))
    cm = {"s": _freetext(rng, 0.3 if bad else 0.0)} if rng.random() < 0.2 else None
    return ["files", files, cop, lic, cm]


def _license_spec(rng, clean):
    bad = (not clean) and rng.random() < 0.3
    lic = None if (bad and rng.random() < 0.1) else _lic(rng, 0.4 if bad else 0.0, lossy=(clean == "lossy"))
    cm = {"s": _freetext(rng, 0.3 if bad else 0.0)} if rng.random() < 0.2 else None
    return ["license", lic, cm]


def _doc_case(rng):
    r = rng.random()
    clean = True if r < 0.5 else "lossy" if r < 0.65 else False     # exact domain / survival domain / anything
    specs = []
    nf, nl = rng.choice([0, 1, 1, 2, 3]), rng.choice([0, 0, 1, 2, 3])
    kinds = ["f"] * nf + ["l"] * nl
    rng.shuffle(kinds)
    for k in kinds:
        specs.append(_files_spec(rng, clean) if k == "f" else _license_spec(rng, clean))
    return {"kind": "doc", "clean": clean, "hops": _hops(rng, clean), "specs": specs,
            "form": rng.choice([0, 0, 2, 3, 4]), "strict": rng.random() < 0.8, "earlier": rng.random() < 0.15}


BASE_DOCS = [
    "Format: " + CURRENT + "\nUpstream-Name: x\n\nFiles: *\nCopyright: 2014 Foo\nLicense: GPL-2+\n text\n .\n more\n\n"
    "License: MIT\n Permission is hereby granted\n",
    "Format-Specification: http://www.debian.org/doc/packaging-manuals/copyright-format/1.0\n\nFiles: a b\n"
    "Copyright: x\nLicense: y\n",
    "Format: http://www.debian.org/doc/packaging-manuals/copyright-format/1.0\nSource: s\n",
    "Format: https://example.org/other\n\nFiles: *\nCopyright: c\n\nLicense: L\n",
    "Format: " + CURRENT + "\n\nFiles: *\nLicense: L\n",
    "Format: " + CURRENT + "\n\nComment: neither\n\nLicense: L\n",
    "Format: " + CURRENT + "\n\nFiles:\nCopyright: c\nLicense: L\n",
    "Format: " + CURRENT + "\n\nFiles: *\nCopyright: c\nLicense: L\n\ttabbed continuation\n",
    "Upstream-Name: nofmt\n\nFiles: *\nCopyright: c\nLicense: L\n",
    "",
    "\n\n",
    "# only a comment\n",
    "Format: " + CURRENT + "\n \nFiles: *\nCopyright: c\nLicense: L\n",
    "Format: " + CURRENT + "\nUpstream-Contact:\n A <a@b>\n B <b@c>\nFiles-Excluded: x\n y\n\nfiles: *\ncopyright: c\n"
    "license: L\n .\n .\n",
    "FORMAT: " + CURRENT + "\nFormat-Specification: zzz\n",
    "Format: " + CURRENT + "\n\nLicense: L\nFiles: *\n",
    "Format: " + CURRENT + "\r\n\r\nFiles: *\r\nCopyright: c\r\nLicense: L\r\n x\r\n",
]


def _parsedoc_case(rng):
    t = rng.choice(BASE_DOCS)
    for _ in range(rng.choice([0, 0, 1, 2])):
        ls = t.split("\n")
        i = rng.randrange(len(ls))
        r = rng.random()
        if r < 0.3:
            del ls[i]
        elif r < 0.5:
            ls.insert(i, rng.choice(["", " ", "# c", " cont", "License: Z", "Files: q", "Copyright: r", "X: \x0c",
                                     "Format-Specification: " + CURRENT]))
        elif r < 0.7:
            ls[i] = ls[i] + rng.choice([" ", "\t", "\x0c", "\x85x"])
        elif r < 0.85:
            ls[i] = ls[i][1:]
        else:
            ls[i] = rng.choice([" ", "\t"]) + ls[i]
        t = "\n".join(ls)
    return {"kind": "parsedoc", "text": t, "form": rng.choice([0, 0, 2, 3, 4]), "strict": rng.random() < 0.7,
            "earlier": rng.random() < 0.15}


def _codec_case(rng):
    k = rng.choice(["lines", "lines", "text", "parse", "lic", "lic", "licfrom", "ss", "ssfrom", "lb", "lbfrom"])
    if k == "lines":
        r = rng.random()
        ls = rng.choice([[], [""], ["", ""], ["a", ""], ["", "a"], [" "], ["."], ["a", "."], ["a", " "]]) \
            if r < 0.1 else _lines(rng, 0, 6, 0.15 if r < 0.6 else 0.5)
        return {"kind": k, "ls": ls}
    if k == "text":
        r = rng.random()
        return {"kind": k, "s": None if r < 0.05 else _text(rng, 0.15 if r < 0.6 else 0.5)}
    if k == "parse":
        return {"kind": k, "s": _encoded(rng)}
    if k == "lic":
        return dict(kind=k, **_lic(rng, 0.3))
    if k == "licfrom":
        return {"kind": k, "s": None if rng.random() < 0.05 else _encoded(rng)}
    if k == "ss":
        items = SS_ITEMS[:11] if rng.random() < 0.6 else SS_ITEMS
        if rng.random() < 0.15:
            return {"kind": k, "l": [rng.choice(LONG_ITEMS) for _ in range(rng.randint(3, 12))]}
        return {"kind": k, "l": [rng.choice(items) for _ in range(rng.choice([0, 1, 1, 2, 3, 4]))]}
    if k == "ssfrom":
        if rng.random() < 0.05:
            return {"kind": k, "s": None}
        s = rng.choice(["", " ", ""]) + "".join(rng.choice(SS_ITEMS) + rng.choice(SS_SEPS)
                                                for _ in range(rng.randint(0, 4)))
        return {"kind": k, "s": s}
    if k == "lb":
        items = LB_ITEMS[:6] if rng.random() < 0.6 else LB_ITEMS
        return {"kind": k, "l": [rng.choice(items) for _ in range(rng.choice([0, 1, 1, 2, 3, 4]))]}
    if rng.random() < 0.05:
        return {"kind": k, "s": None}
    s = rng.choice(["", "\n", " ", ""]) + "".join(rng.choice(LB_ITEMS) + rng.choice(["\n", "\n ", "\n\n", " ", "\r\n", "\x0c"])
                                                  for _ in range(rng.randint(0, 4)))
    return {"kind": k, "s": s}


def generate(rng, n, tier):
    for i in range(n):
        r = rng.random()
        if r < 0.52:
            yield _codec_case(rng)
        elif r < 0.86:
            yield _doc_case(rng)
        else:
            yield _parsedoc_case(rng)


def from_json(j):
    return j


# ---------------------------------------------------------------------------
# implementation driver

def _mod():
    import logging
    from debian import copyright as C
    logging.getLogger(C.__name__).setLevel(logging.CRITICAL)
    return C


def _try(f):
    try:
        return ["ok", f()]
    except Exception as e:
        return ["err", err_kind(e)]


def _lic_out(l):
    return None if l is None else [l.synopsis, l.text]


def _oval(f):
    try:
        v = f()
    except Exception as e:
        return ["err", err_kind(e)]
    if v is None:
        return ["none"]
    if isinstance(v, str):
        return ["str", v]
    if isinstance(v, (tuple, list)) and not hasattr(v, "synopsis"):
        return ["list", list(v)]
    return ["lic", v.synopsis, v.text]


def _view(C, c):
    out = []
    for p in c.all_paragraphs():
        if isinstance(p, C.Header):
            names, isf = HNAMES, False
        elif isinstance(p, C.FilesParagraph):
            names, isf = ["files", "copyright", "license", "comment"], True
        else:
            names, isf = ["license", "comment"], False
        out.append({"files": isf, "vals": [_oval(lambda n=n: getattr(p, n)) for n in names]})
    return out


def _val(C, v):
    if v is None:
        return None
    if "s" in v:
        return v["s"]
    if "l" in v:
        return list(v["l"])
    return C.License(v["lic"][0], v["lic"][1])


def _reread(C, text, form, strict, earlier=False):
    if earlier and form in (2, 3):
        # EARLIER USE in this process: the same bytes were parsed before under other encodings (results discarded);
        # the parse under test then gets the same lines as UTF-8 bytes.  Nothing may be remembered across parses.
        import warnings
        bl = [l.encode("utf-8") for l in (list(io.StringIO(text)) if form == 2 else text.split("\n"))]
        with warnings.catch_warnings():
            warnings.simplefilter("ignore")
            for enc in ("iso-8859-1", "cp1251", "utf-16-le"):
                try:
                    C.Copyright(list(bl), encoding=enc, strict=False).dump()
                except Exception:
                    pass
        return C.Copyright(bl, strict=strict)
    if form == 0:
        seq = text
    elif form == 2:
        seq = list(io.StringIO(text))
    elif form == 3:
        seq = text.split("\n")
    else:
        seq = io.StringIO(text)
    return C.Copyright(seq, strict=strict)


def _build(C, case):
    c = C.Copyright()
    for op in case["hops"]:
        if op[0] == "set":
            setattr(c.header, HNAMES[op[1]], _val(C, op[2]))
        else:
            c.header[op[1]] = op[2]
    for sp in case["specs"]:
        if sp[0] == "files":
            lic = _val(C, sp[3])
            p = C.FilesParagraph.create(_val(C, sp[1]), _val(C, sp[2]), lic)
            p.comment = _val(C, sp[4])
            c.add_files_paragraph(p)
        else:
            lic = _val(C, sp[1])
            p = C.LicenseParagraph.create(lic)
            p.comment = _val(C, sp[2])
            c.add_license_paragraph(p)
    return c


def run_impl(case):
    C = _mod()
    k = case["kind"]
    if k == "lines":
        enc = C.format_multiline_lines(list(case["ls"]))
        return {"enc": enc, "back": _try(lambda: C.parse_multiline_as_lines(enc))}
    if k == "text":
        enc = C.format_multiline(case["s"])
        return {"enc": enc, "back": _try(lambda: C.parse_multiline(enc))}
    if k == "parse":
        return {"r": _try(lambda: C.parse_multiline_as_lines(case["s"]))}
    if k == "lic":
        try:
            l = C.License(case["lic"][0], case["lic"][1])
        except Exception as e:
            return {"mk": ["err", err_kind(e)]}
        enc = l.to_str()
        return {"mk": ["ok"], "enc": enc, "back": _try(lambda: _lic_out(C.License.from_str(enc)))}
    if k == "licfrom":
        return {"r": _try(lambda: _lic_out(C.License.from_str(case["s"])))}
    if k in ("ss", "lb"):
        cls = C._SpaceSeparated if k == "ss" else C._LineBased
        enc = _try(lambda: cls.to_str(list(case["l"])))
        back = list(cls.from_str(enc[1] if enc[0] == "ok" else None))
        return {"enc": enc, "back": back}
    if k in ("ssfrom", "lbfrom"):
        cls = C._SpaceSeparated if k == "ssfrom" else C._LineBased
        l = list(cls.from_str(case["s"]))
        enc = _try(lambda: cls.to_str(list(l)))
        l2 = list(cls.from_str(enc[1] if enc[0] == "ok" else None))
        return {"l": l, "enc": enc, "l2": l2}
    if k == "doc":
        try:
            c1 = _build(C, case)
        except Exception as e:
            return {"build_err": err_kind(e)}
        d1 = c1.dump()
        v1 = _view(C, c1)
        try:
            c2 = _reread(C, d1, case["form"], case["strict"], case.get("earlier", False))
        except Exception as e:
            return {"dump1": d1, "v1": v1, "parse_err": err_kind(e)}
        return {"dump1": d1, "v1": v1, "v2": _view(C, c2), "dump2": c2.dump()}
    # parsedoc
    try:
        c = _reread(C, case["text"], case["form"], case["strict"], case.get("earlier", False))
    except Exception as e:
        return {"err": err_kind(e)}
    return {"v": _view(C, c), "dump": c.dump()}


# ---------------------------------------------------------------------------
# Coq emitter

_INTERN = None     # per-case table: a string literal that occurs several times is written once (let-bound)


def _S(s):
    if _INTERN is None or len(s) < 6:
        return cq_str(s)
    if s not in _INTERN:
        _INTERN[s] = ["s%d" % len(_INTERN), 0]
    _INTERN[s][1] += 1
    return _INTERN[s][0]


def _SS(ss):
    return cq_list([_S(x) for x in ss])


def emit(case, obs):
    """The case as a Coq term.  Equal string literals are shared through let-bindings (elaborating
    literals is what evaluation inside Coq costs)."""
    global _INTERN
    _INTERN = {}
    try:
        term = _emit(case, obs)
        binds = "".join("let %s := %s in " % (v[0], cq_str(k)) for k, v in _INTERN.items())
    finally:
        _INTERN = None
    return "(%s%s)" % (binds, term) if binds else term


def _cq_ostr(s):
    return cq_opt(s, _S)


def _cq_res(r, f):
    return "(Ok %s)" % f(r[1]) if r[0] == "ok" else "(Err %s)" % r[1]


def _cq_pair(p):
    return "(%s, %s)" % (_S(p[0]), _S(p[1]))


def _cq_olic(l):
    return cq_opt(l, _cq_pair)


def _cq_ival(v):
    if v is None:
        return "INone"
    if "s" in v:
        return "(IStr %s)" % _S(v["s"])
    if "l" in v:
        return "(IList %s)" % _SS(v["l"])
    return "(ILic %s %s)" % (_S(v["lic"][0]), _cq_ostr(v["lic"][1]))


def _cq_oval(o):
    if o[0] == "none":
        return "ONone"
    if o[0] == "str":
        return "(OStr %s)" % _S(o[1])
    if o[0] == "list":
        return "(OList %s)" % _SS(o[1])
    if o[0] == "lic":
        return "(OLic %s %s)" % (_S(o[1]), _S(o[2]))
    return "(OErr %s)" % o[1]


def _cq_view(v):
    return "(mkOV %s %s)" % (cq_bool(v["files"]), cq_list([_cq_oval(o) for o in v["vals"]]))


def _cq_views(vs):
    return cq_list([_cq_view(v) for v in vs])


def _emit(case, obs):
    k = case["kind"]
    if k == "lines":
        return "KLines %s %s %s" % (_SS(case["ls"]), _S(obs["enc"]), _cq_res(obs["back"], _SS))
    if k == "text":
        return "KText %s %s %s" % (_cq_ostr(case["s"]), _cq_ostr(obs["enc"]), _cq_res(obs["back"], _cq_ostr))
    if k == "parse":
        return "KParse %s %s" % (_S(case["s"]), _cq_res(obs["r"], _SS))
    if k == "lic":
        if obs["mk"][0] == "err":
            o = "(Err %s)" % obs["mk"][1]
        else:
            o = "(Ok (%s, %s))" % (_S(obs["enc"]), _cq_res(obs["back"], _cq_olic))
        return "KLic %s %s %s" % (_S(case["lic"][0]), _cq_ostr(case["lic"][1]), o)
    if k == "licfrom":
        return "KLicFrom %s %s" % (_cq_ostr(case["s"]), _cq_res(obs["r"], _cq_olic))
    if k in ("ss", "lb"):
        return "%s %s %s %s" % ("KSS" if k == "ss" else "KLB", _SS(case["l"]),
                                _cq_res(obs["enc"], _cq_ostr), _SS(obs["back"]))
    if k in ("ssfrom", "lbfrom"):
        return "%s %s %s %s %s" % ("KSSFrom" if k == "ssfrom" else "KLBFrom", _cq_ostr(case["s"]),
                                   _SS(obs["l"]), _cq_res(obs["enc"], _cq_ostr), _SS(obs["l2"]))
    if k == "doc":
        hops = []
        for op in case["hops"]:
            if op[0] == "set":
                hops.append("IHSet %s %s" % (cq_N(op[1]), _cq_ival(op[2])))
            else:
                hops.append("IHItem %s %s" % (_S(op[1]), _S(op[2])))
        specs = []
        for sp in case["specs"]:
            if sp[0] == "files":
                specs.append("IFiles %s %s %s %s" % tuple(_cq_ival(x) for x in sp[1:5]))
            else:
                specs.append("ILicense %s %s" % tuple(_cq_ival(x) for x in sp[1:3]))
        if "build_err" in obs:
            o = "(OBuildErr %s)" % obs["build_err"]
        elif "parse_err" in obs:
            o = "(OParseErr %s %s %s)" % (_S(obs["dump1"]), _cq_views(obs["v1"]), obs["parse_err"])
        else:
            same = obs["v2"] == obs["v1"] and obs["dump2"] == obs["dump1"]
            again = "None" if same else "(Some (%s, %s))" % (_cq_views(obs["v2"]), _S(obs["dump2"]))
            o = "(ODone %s %s %s)" % (_S(obs["dump1"]), _cq_views(obs["v1"]), again)
        return "KDoc %s %s %s %s %s" % (cq_list(hops), cq_list(specs), cq_N(case["form"]),
                                        cq_bool(case["strict"]), o)
    if "err" in obs:
        o = "(Err %s)" % obs["err"]
    else:
        o = "(Ok (%s, %s))" % (_cq_views(obs["v"]), _S(obs["dump"]))
    return "KParseDoc %s %s %s %s" % (_S(case["text"]), cq_N(case["form"]), cq_bool(case["strict"]), o)


# ---------------------------------------------------------------------------

def _mode(case):
    c = case.get("clean")
    return "clean" if c is True else "lossy" if c == "lossy" else "dirty"


def classify(case, obs):
    k = case["kind"]
    if k in ("lines", "text"):
        return "%s/%s" % (k, "ok" if obs["back"][0] == "ok" else obs["back"][1])
    if k in ("parse", "licfrom"):
        return "%s/%s" % (k, "ok" if obs["r"][0] == "ok" else obs["r"][1])
    if k == "lic":
        if obs["mk"][0] == "err":
            return "lic/new:" + obs["mk"][1]
        return "lic/%s" % ("ok" if obs["back"][0] == "ok" else obs["back"][1])
    if k in ("ss", "lb", "ssfrom", "lbfrom"):
        return "%s/%s" % (k, "ok" if obs["enc"][0] == "ok" else obs["enc"][1])
    if k == "doc":
        shape = "%s/F%dL%d" % (_mode(case),sum(1 for s in case["specs"] if s[0] == "files"),
                            sum(1 for s in case["specs"] if s[0] == "license"))
        if "build_err" in obs:
            return "doc/%s/build:%s" % (_mode(case), obs["build_err"])
        if "parse_err" in obs:
            return "doc/%s/form%d/reparse:%s" % (shape, case["form"], obs["parse_err"])
        same = obs["dump1"] == obs["dump2"]
        return "doc/%s/form%d/%s" % (shape, case["form"], "same" if same else "changed")
    return "parsedoc/form%d/%s/%s" % (case["form"], "strict" if case["strict"] else "lax",
                                      obs.get("err", "ok"))


def nontrivial(case, obs):
    k = case["kind"]
    if k == "lines":
        return bool(case["ls"])
    if k in ("text", "parse", "licfrom", "ssfrom", "lbfrom"):
        return bool(case["s"])
    if k == "lic":
        return True
    if k in ("ss", "lb"):
        return bool(case["l"])
    if k == "doc":
        return bool(case["specs"]) or "build_err" in obs or "parse_err" in obs
    return True


def _shrink_str(s):
    for i in range(len(s)):
        yield s[:i] + s[i + 1:]


def _shrink_list(l):
    for i in range(len(l)):
        yield l[:i] + l[i + 1:]


def _shrink_val(v):
    if v is None:
        return
    if "s" in v:
        ls = v["s"].split("\n")
        for x in _shrink_list(ls):
            yield {"s": "\n".join(x)}
        if len(v["s"]) <= 12:
            for x in _shrink_str(v["s"]):
                yield {"s": x}
    elif "l" in v:
        for x in _shrink_list(v["l"]):
            yield {"l": x}
    else:
        syn, text = v["lic"]
        if text:
            ls = text.split("\n")
            for x in _shrink_list(ls):
                yield {"lic": [syn, "\n".join(x)]}
            if len(text) <= 12:
                for x in _shrink_str(text):
                    yield {"lic": [syn, x]}
        if len(syn) > 1:
            yield {"lic": [syn[:1], text]}


def shrink(case):
    k = case["kind"]
    if k == "lines":
        for x in _shrink_list(case["ls"]):
            yield dict(case, ls=x)
        for i, l in enumerate(case["ls"]):
            for x in _shrink_str(l):
                yield dict(case, ls=case["ls"][:i] + [x] + case["ls"][i + 1:])
    elif k in ("text", "parse", "licfrom", "ssfrom", "lbfrom"):
        if case["s"]:
            ls = case["s"].split("\n")
            for x in _shrink_list(ls):
                yield dict(case, s="\n".join(x))
            if len(case["s"]) <= 30:
                for x in _shrink_str(case["s"]):
                    yield dict(case, s=x)
    elif k == "lic":
        for v in _shrink_val({"lic": case["lic"]}):
            yield dict(case, lic=v["lic"])
    elif k in ("ss", "lb"):
        for x in _shrink_list(case["l"]):
            yield dict(case, l=x)
        for i, l in enumerate(case["l"]):
            for x in _shrink_str(l):
                yield dict(case, l=case["l"][:i] + [x] + case["l"][i + 1:])
    elif k == "doc":
        for x in _shrink_list(case["hops"]):
            yield dict(case, hops=x)
        for x in _shrink_list(case["specs"]):
            yield dict(case, specs=x)
        if case["form"] != 0:
            yield dict(case, form=0)
        for i, sp in enumerate(case["specs"]):
            for j in range(1, len(sp)):
                for v in _shrink_val(sp[j]):
                    yield dict(case, specs=case["specs"][:i] + [sp[:j] + [v] + sp[j + 1:]] + case["specs"][i + 1:])
                if j == len(sp) - 1 and sp[j] is not None:
                    yield dict(case, specs=case["specs"][:i] + [sp[:j] + [None]] + case["specs"][i + 1:])
        for i, op in enumerate(case["hops"]):
            if op[0] == "set":
                for v in _shrink_val(op[2]):
                    yield dict(case, hops=case["hops"][:i] + [["set", op[1], v]] + case["hops"][i + 1:])
    else:
        ls = case["text"].split("\n")
        for x in _shrink_list(ls):
            yield dict(case, text="\n".join(x))
        if case["form"] != 0:
            yield dict(case, form=0)


def describe(case, obs):
    k = case["kind"]
    calls = {
        "lines": "enc = copyright.format_multiline_lines(ls); back = copyright.parse_multiline_as_lines(enc)",
        "text": "enc = copyright.format_multiline(s); back = copyright.parse_multiline(enc)",
        "parse": "copyright.parse_multiline_as_lines(s)",
        "lic": "l = copyright.License(*lic); enc = l.to_str(); back = copyright.License.from_str(enc)",
        "licfrom": "copyright.License.from_str(s)",
        "ss": "enc = copyright._SpaceSeparated.to_str(l); back = _SpaceSeparated.from_str(enc)",
        "lb": "enc = copyright._LineBased.to_str(l); back = _LineBased.from_str(enc)",
        "ssfrom": "l = _SpaceSeparated.from_str(s); enc = to_str(l); l2 = from_str(enc)",
        "lbfrom": "l = _LineBased.from_str(s); enc = to_str(l); l2 = from_str(enc)",
        "doc": "c = Copyright(); header ops ('set' i v: setattr(c.header, %r[i], v); 'item' k v: c.header[k] = v); "
               "for each spec FilesParagraph.create(files, copyright, License(*lic)) / LicenseParagraph.create(License(*lic)),"
               " .comment = ..., add_files_paragraph/add_license_paragraph; dump1 = c.dump(); "
               "c2 = Copyright(<dump1 as str(0) | list(StringIO)(2) | split('\\n')(3) | StringIO(4)>, strict=strict); "
               "v1/v2 = every property of every paragraph of c/c2; dump2 = c2.dump()" % (HNAMES,),
        "parsedoc": "Copyright(<text in the given form>, strict=strict); all properties; dump()",
    }
    return {"call": calls[k], "case": case, "observed": obs,
            "specified": "inside the round-trip domain (coq/Copyright/DocSpec.v: ml_dom, text_dom, lic_dom, ss_dom, "
                         "lb_dom, wf_copyright) the value read back equals the value put in, the re-read document "
                         "has the same paragraphs with the same values, and the second dump is identical"}


# ---------------------------------------------------------------------------
# TIE BY REGENERATION (DESIGN §3.1b): the field codecs of copyright.py, regenerated from the source on every run
# (coq/Gen/TrCopyrightFields.v); Copyright/FieldsTie.v proves them equal to the model functions of
# Copyright/Fields.v on all inputs; Props/C17Tie.v states it.
from harness import py2coq as _P   # noqa: E402

TIE_FILE = "Props/C17Tie.v"

_STRS = ("list", "str")
_OSTR = ("option", "str")
_LIC = ("coq", "license")        # namedtuple License(synopsis, text) = Record license of Copyright/Fields.v


def _kw(call, names):
    call.kw = list(names)
    return call


TR_MODULE = _P.Module(
    "TrCopyrightFields", "lib/debian/copyright.py",
    funs=[
        _P.Fun("tr_single_line", "_single_line", [("s", "str")], "str"),
        _P.Fun("tr_lb_from_str", "_LineBased.from_str", [("s", _OSTR)], _STRS),
        _P.Fun("tr_lb_item", "_LineBased.to_str.process_and_validate", [("s", "str")], "str"),
        _P.Fun("tr_lb_to_str", "_LineBased.to_str", [("seq", _STRS)], _OSTR,
               locals={"l": _STRS, "tmp": _STRS, "s": "str"}),
        _P.Fun("tr_ss_from_str", "_SpaceSeparated.from_str", [("s", _OSTR)], _STRS),
        _P.Fun("tr_ss_to_str", "_SpaceSeparated.to_str", [("seq", _STRS)], _OSTR,
               locals={"l": _STRS, "tmp": _STRS, "s": "str"}, skip_first=True),
        _P.Fun("tr_format_multiline_lines", "format_multiline_lines", [("lines", _STRS)], "str",
               locals={"out_lines": _STRS, "i": "Z", "line": "str"}),
        _P.Fun("tr_format_multiline", "format_multiline", [("s", _OSTR)], _OSTR),
        _P.Fun("tr_parse_multiline_as_lines", "parse_multiline_as_lines", [("s", "str")], _STRS,
               locals={"lines": _STRS, "i": "Z", "line": "str"}),
        _P.Fun("tr_parse_multiline", "parse_multiline", [("s", _OSTR)], _OSTR),
        # License.__new__(cls, synopsis, text=''): once with both arguments, once with the default of `text`
        # taken from the source (the translator binds a trailing parameter left out of the spec to its default)
        _P.Fun("tr_license_new", "License.__new__", [("synopsis", "str"), ("text", _OSTR)], _LIC, skip_first=True),
        _P.Fun("tr_license_new1", "License.__new__", [("synopsis", "str")], _LIC, locals={"text": _OSTR},
               skip_first=True),
        _P.Fun("tr_license_from_str", "License.from_str", [("s", _OSTR)], ("option", _LIC),
               locals={"lines": _STRS}, skip_first=True),
        _P.Fun("tr_license_to_str", "License.to_str", [("self", _LIC)], "str"),
    ],
    calls={
        "<str>.strip": _P.Call("trp_strip", ["str"], "str"),
        "<str>.splitlines": _P.Call("trp_splitlines", ["str"], _STRS),
        "<str>.split": _P.Call("trp_split", ["str"], _STRS),
        "<str>.startswith": _P.Call("trp_startswith", ["str", "str"], "bool"),
        "<str>.join": _P.Call("trp_join", ["str", _STRS], "str"),
        "cls._has_space.search": _P.Call("trp_has_space", ["str"], "bool"),
        "itertools.islice": _P.Call("trp_islice", [_STRS, "Z", ("option", "Z")], _STRS, True),
        "process_and_validate": _P.Call("tr_lb_item", ["str"], "str", True),
        "format_multiline_lines": _P.Call("tr_format_multiline_lines", [_STRS], "str", True),
        "parse_multiline_as_lines": _P.Call("tr_parse_multiline_as_lines", ["str"], _STRS, True),
        "_single_line": _P.Call("tr_single_line", ["str"], "str", True),
        # namedtuple construction and field reads: the Record of the model
        "super(License, cls).__new__": _kw(_P.Call("trp_license_tuple_new", ["unit", "str", "str"], _LIC),
                                           [None, "synopsis", "text"]),
        "<license>.@synopsis": _P.Call("trp_license_synopsis", [_LIC], "str"),
        "<license>.@text": _P.Call("trp_license_text", [_LIC], "str"),
        # cls(...) inside License.from_str is License.__new__ (namedtuple has no __init__)
        "cls": [_kw(_P.Call("tr_license_new1", ["str"], _LIC, True), ["synopsis"]),
                _kw(_P.Call("tr_license_new", ["str", _OSTR], _LIC, True), ["synopsis", "text"])],
    },
    consts={"cls": ("tt", "unit")},
    imports=["Copyright.Fields", "Copyright.FieldsTrPrims"],
    regexes=[("_SpaceSeparated._has_space", r"\s")])


@extract.register("TrCopyrightFields")
def _gen_tr(repo):
    return _P.translate_module(repo, TR_MODULE)
