"""C05 — edits through the format-preserving parser are local and read back.

Also the shared driver for C10 (harness/props/c10.py): abstraction of the
implementation's parse, execution of operation histories, observation format.
"""
from harness.core import cq_bool, cq_list, cq_opt, cq_str, err_kind

ID = "C05"
CHECK_MODULE = "Repro.DocCheck"
PROPS_FILE = "Props/C05.v"
SHARD = 60
SHARD_IMPORTS = "From Verif Require Import Repro.Doc."
ANCHORS = [("lib/debian/_deb822_repro/parsing.py",
            ["Deb822ParagraphToStrWrapperMixin", "AutoResolvingMixin", "_unpack_key", "_format_comment",
             "set_field_to_simple_value", "set_field_from_raw_string", "_ensure_final_newline",
             "from_kvpairs", "Deb822NoDuplicateFieldsParagraphElement",
             "Deb822DuplicateFieldsParagraphElement", "Deb822KeyValuePairElement",
             "add_final_newline_if_missing", "_convert_value_lines_to_lines"]),
           ("lib/debian/_deb822_repro/tokens.py", ["_RE_FIELD_LINE", "_RE_WHITESPACE_LINE"]),
           ("lib/debian/_util.py", ["OrderedSet", "LinkedList", "LinkedListNode"])]
BUDGET = {"quick": 600, "thorough": 5000}
RULE = ("documents of 1-3 paragraphs assembled from line blocks (comment lines before fields, single/multi-line "
        "values, comment lines inside values, tab continuation, empty values, odd separators after the colon, "
        "free comments/blank/whitespace-only lines between paragraphs, with and without a final LF; a tenth with "
        "duplicated field names) x histories of 1-5 edits: p[k]=v, del p[k], set_field_to_simple_value, "
        "set_field_from_raw_string on existing (any case spelling), new and absent keys, indexed keys, single- and "
        "multi-line values, a malformed stream (values with bad continuation lines, CR/FF, blank continuation, "
        "comment last, keys that are no field names, comment arguments); plus leaf cases for _RE_FIELD_LINE, "
        "_RE_WHITESPACE_LINE, _format_comment against the live objects.  non-trivial = at least one edit succeeded "
        "and changed the dump, or a leaf case that matches")
TRUSTED = ["model coq/Repro/Doc.v is a hand transcription of the dict interface and set_field_* of "
           "debian._deb822_repro.parsing at field-text level (both paragraph classes; name-token keys, "
           "configured_view wrappers and interpretations are not modelled); tied to the code only by this correspondence",
           "the initial abstract document of a case is read off the implementation's own parse (iter_parts walk in "
           "harness/props/c05.py: class name, comment text, name text, remaining text per key-value pair); agree also "
           "checks that it satisfies the theorems' hypothesis doc_ok (coq/Repro/DocInv.v) whenever no paragraph repeats "
           "a field name, and that every later model state without repeated names does",
           "abs_of_tree (coq/Repro/Abs.v) is the Coq counterpart of abstract() in this file; it is compared with it on "
           "the initial document of every case (agree: parse_agree) through the C01 parser model",
           "field-text recogniser parse_new_field stands in for tokenizer+parser on the lines "
           "set_field_from_raw_string builds; leaves match_field_line / is_ws_line / format_comment are compared "
           "with the live compiled patterns and function",
           "str.strip/splitlines as modelled in coq/Lib/PyStr.v with the interpreter's tables (coq/Gen/PyChars.v)",
           "case literals: texts are written as lists of physical lines with LF/TAB raw inside the Coq string literal "
           "(decoded by Lib/Dec.v dec and concatenation); strings and read-out rows repeated inside a case are "
           "let-bound once (harness/props/c05.py emit_history)"]
ASSUMPTIONS = ["keys are ASCII (str.lower is modelled by ascii_lower); histories with non-ASCII keys are run and "
               "compared but are outside the property's judged domain",
               "read-back: C05_set_readback / C05_setter_readback / C05_delete_readback / C05_reread are about a FRESH "
               "PARSE of the dump by the parser model of C01 (coq/Repro/Token.v + Parse.v) abstracted by "
               "coq/Repro/Abs.v abs_of_tree; they rest on the document-level printer/parser theorem "
               "C05_parse_dump_abs (abs (parse (dump d)) = d for doc_wf + doc_canon documents, coq/Repro/ParseDumpAbs*.v). "
               "agree compares that function with the implementation on every run: py_reparse_strict of the case "
               "text must equal the document read off the implementation's tree (items, classes, comment/name/rest "
               "texts), doc_canon must hold for it, and after every edit the model's re-parse of the model's dump "
               "must read like the implementation's fresh parse.  The _partial theorems (live object, domain doc_ok; "
               "paragraph-level re-read with scan_para) are kept",
               "theorem domain doc_ok: no paragraph repeats a field name (both paragraph classes); edits on paragraphs "
               "with duplicated field names are compared with the model but neither judged by holds nor covered by the "
               "locality theorems (the index invariant of the duplicate-fields class is proved for them)",
               "must-be-accepted domain of holds: value deb822 can carry (continuation lines start with space/tab and are "
               "not blank, comment lines only between them, no line boundary other than LF), for a new field a name of "
               "letters/digits/-/_ starting with a letter or digit, and comment arguments that are empty or contain a "
               "visible character; any other call may be rejected (document unchanged) or accepted (then locality and "
               "read-back are demanded)"]


# ---------------------------------------------------------------------------
# implementation driver (shared with C10)

def _mods():
    from debian._deb822_repro import parsing, tokens
    return parsing, tokens


def parse_doc(lines):
    parsing, _ = _mods()
    return parsing.parse_deb822_file(list(lines), accept_files_with_duplicated_fields=True)


def split_lines(text):
    """split after every LF (what iterating a file gives); never on other boundaries"""
    out, cur = [], ""
    for ch in text:
        cur += ch
        if ch == "\n":
            out.append(cur)
            cur = ""
    if cur:
        out.append(cur)
    return out


def abstract(f):
    """[["P", dup, [[comment, name, rest], ...]] | ["O", kind, text]] from the real parse tree"""
    parsing, tokens = _mods()
    items = []
    for part in f.iter_parts():
        if isinstance(part, parsing.Deb822ParagraphElement):
            dup = isinstance(part, parsing.Deb822DuplicateFieldsParagraphElement)
            fields = []
            for kv in part.iter_parts():
                c = kv.comment_element.convert_to_text() if kv.comment_element else ""
                name = str(kv.field_name)
                whole = kv.convert_to_text()
                if not whole.startswith(c + name):
                    raise AssertionError("unexpected kvpair layout")
                fields.append([c, name, whole[len(c) + len(name):]])
            items.append(["P", dup, fields])
        else:
            if isinstance(part, tokens.Deb822WhitespaceToken):
                kind = "W"
            elif isinstance(part, parsing.Deb822CommentElement):
                kind = "C"
            else:
                kind = "E"
            items.append(["O", kind, part.convert_to_text()])
    return items


def read_para(p):
    """keys and values through the dict interface; (name, i) for the i-th occurrence in the duplicate class"""
    parsing, _ = _mods()
    dup = isinstance(p, parsing.Deb822DuplicateFieldsParagraphElement)
    out, seen = [], {}
    for k in p.keys():
        name = str(k)
        lk = name.lower()
        i = seen.get(lk, 0)
        seen[lk] = i + 1
        try:
            v = p[(name, i)] if dup else p[name]
            out.append([name, {"ok": v}])
        except Exception as e:
            out.append([name, {"err": err_kind(e)}])
    return out


def read_doc(f):
    return [read_para(p) for p in f]


def pykey(k):
    return k if isinstance(k, str) else (k[0], k[1])


def key_name(k):
    return k if isinstance(k, str) else k[0]


def variants(k):
    n = key_name(k)
    vs = []
    for x in (n, n.upper(), n.lower(), n.swapcase()):
        if x not in vs:
            vs.append(x)
    return [v if isinstance(k, str) else [v, k[1]] for v in vs]


def build_para(kvs):
    parsing, _ = _mods()
    p = parsing.Deb822ParagraphElement.new_empty_paragraph()
    for k, v in kvs:
        p[k] = v
    return p


def apply_op(f, op):
    o = op["o"]
    if o in ("insert", "append"):
        para = build_para(op["kv"])
        if o == "insert":
            f.insert(op["i"], para)
        else:
            f.append(para)
        return
    p = list(f)[op["p"]]
    if o == "set":
        p[pykey(op["k"])] = op["v"]
    elif o == "del":
        del p[pykey(op["k"])]
    elif o in ("simple", "raw"):
        kw = {}
        if op.get("pres") is not None:
            kw["preserve_original_field_comment"] = op["pres"]
        if op.get("fc") is not None:
            kw["field_comment"] = list(op["fc"])
        if o == "simple":
            p.set_field_to_simple_value(pykey(op["k"]), op["v"], **kw)
        else:
            p.set_field_from_raw_string(pykey(op["k"]), op["v"], **kw)
    elif o == "first":
        p.order_first(pykey(op["k"]))
    elif o == "last":
        p.order_last(pykey(op["k"]))
    elif o == "before":
        p.order_before(pykey(op["k"]), pykey(op["r"]))
    elif o == "after":
        p.order_after(pykey(op["k"]), pykey(op["r"]))
    elif o == "sort":
        p.sort_fields()
    else:
        raise AssertionError("unknown op " + o)


def observe_step(f, op):
    err = None
    try:
        apply_op(f, op)
    except Exception as e:
        err = err_kind(e)
    try:
        dump = f.dump()
    except Exception as e:      # the document must always be printable: recorded, so that holds judges it
        dump = "\x00<dump() raised %s after this operation>" % err_kind(e)
    try:
        paras = read_doc(f)
    except Exception:
        paras = []
    st = {"err": err, "dump": dump, "paras": paras}
    try:
        g = parse_doc(split_lines(dump))
        st["reparse"] = [[[n, v.get("ok", "<err>")] for n, v in para] for para in read_doc(g)]
        if any("err" in v for para in read_doc(g) for _, v in para):
            st["reparse"] = None
        looks = []
        if "k" in op:
            for p in g:
                row = []
                for k in variants(op["k"]):
                    try:
                        row.append([key_name(k), {"ok": p[pykey(k)]}])
                    except Exception as e:
                        row.append([key_name(k), {"err": err_kind(e)}])
                looks.append(row)
        st["lookups"] = looks
    except Exception:
        st["reparse"] = None
        st["lookups"] = []
    return st


def run_history(case):
    f = parse_doc(split_lines(case["text"]))
    obs = {"items": abstract(f), "init": read_doc(f), "steps": []}
    for op in case["ops"]:
        obs["steps"].append(observe_step(f, op))
    return obs


def run_leaf(case):
    parsing, tokens = _mods()
    k = case["leaf"]
    s = case["s"]
    if k == "field":
        m = tokens._RE_FIELD_LINE.match(s)
        if not m:
            return {"r": None}
        return {"r": [m.group("field_name"), s[m.end("field_name"):]], "full": m.end() == len(s)}
    if k == "ws":
        return {"r": tokens._RE_WHITESPACE_LINE.match(s) is not None}
    if k == "comment":
        try:
            return {"r": {"ok": parsing._format_comment(s)}}
        except Exception as e:
            return {"r": {"err": err_kind(e)}}
    raise AssertionError(k)


def run_impl(case):
    if "leaf" in case:
        return run_leaf(case)
    return run_history(case)


# ---------------------------------------------------------------------------
# Coq emission (shared)

def cq_text(s):
    """Escaped literal understood by Lib/Dec.v [dec], with LF and TAB written raw (a raw byte
    decodes to its own code; seven characters fewer per line end for Coq to elaborate)."""
    out = []
    for ch in s:
        c = ord(ch)
        if (32 <= c < 127 and c not in (34, 92)) or c in (9, 10):
            out.append(ch)
        else:
            out.append("\\%06x" % c)
    return '"' + "".join(out) + '"'


class Interner:
    """strings (and rows of a read-out) that occur more than once in a case are bound once by a let"""

    def __init__(self):
        self.count = {}
        self.rows = {}
        self.row_names = {}

    def note(self, s):
        self.count[s] = self.count.get(s, 0) + 1

    def finish(self):
        self.names = {}
        for s, c in self.count.items():
            if c > 1 and len(s) > 2:
                self.names[s] = "s%d" % len(self.names)

    def ref(self, s):
        return self.names.get(s) or cq_text(s)

    def note_row(self, term):
        self.rows[term] = self.rows.get(term, 0) + 1

    def finish_rows(self):
        for t, c in self.rows.items():
            if c > 1 and t != "[]":
                self.row_names[t] = "r%d" % len(self.row_names)

    def row(self, term):
        return self.row_names.get(term, term)

    def wrap(self, term):
        for t, nm in reversed(list(self.row_names.items())):
            term = "let %s : list (string * result string) := %s in\n%s" % (nm, t, term)
        for s, nm in reversed(list(self.names.items())):
            term = "let %s := %s in\n%s" % (nm, cq_text(s), term)
        return "(" + term + ")"


def _walk_strings(x, note):
    if isinstance(x, str):
        note(x)
    elif isinstance(x, (list, tuple)):
        for v in x:
            _walk_strings(v, note)
    elif isinstance(x, dict):
        for k, v in x.items():
            if k in ("o", "err", "leaf"):
                continue
            _walk_strings(v, note)


def cq_res(r, S):
    if "ok" in r:
        return "(Ok %s)" % S(r["ok"])
    return "(Err %s)" % r["err"]


def cq_key(k, S):
    if isinstance(k, str):
        return "(KS %s)" % S(k)
    return "(KI %s (%d)%%Z)" % (S(k[0]), k[1])


def cq_row(para, S):
    return cq_list(["(%s, %s)" % (S(n), cq_res(v, S)) for n, v in para])


def cq_read(paras, S, R=lambda t: t):
    return cq_list([R(cq_row(para, S)) for para in paras])


def cq_looks(looks, S):
    """per re-parsed paragraph: what each alternative spelling of the key read (the spellings themselves
    are not needed by the judgement)"""
    return cq_list([cq_list([cq_res(v, S) for _, v in row]) for row in looks])


def cq_pieces(text, S):
    """a text as the list of its physical lines (decoded by concatenation): lines repeat from dump to dump"""
    return cq_list([S(l) for l in split_lines(text)])


def cq_item(it, S):
    if it[0] == "P":
        return "IP %s %s" % (cq_bool(it[1]), cq_list(["(%s, %s, %s)" % (S(c), S(n), S(r)) for c, n, r in it[2]]))
    return "IO %s %s" % ({"W": "OWs", "C": "OComment", "E": "OError"}[it[1]], S(it[2]))


def cq_optbool(b):
    return "None" if b is None else "(Some %s)" % cq_bool(b)


def cq_edit_op(op, S):
    o = op["o"]
    if o == "set":
        return "LSet %d %s %s" % (op["p"], cq_key(op["k"], S), S(op["v"]))
    if o == "del":
        return "LDel %d %s" % (op["p"], cq_key(op["k"], S))
    if o in ("simple", "raw"):
        fc = op.get("fc")
        return "%s %d %s %s %s %s" % ("LSimple" if o == "simple" else "LRaw", op["p"], cq_key(op["k"], S),
                                      S(op["v"]), cq_optbool(op.get("pres")),
                                      "None" if fc is None else "(Some %s)" % cq_list([S(c) for c in fc]))
    return None


def _reparse_rows(st):
    rp = st["reparse"]
    return None if rp is None else [[[n, {"ok": v}] for n, v in para] for para in rp]


def cq_step(st, S, R=lambda t: t):
    rp = _reparse_rows(st)
    rps = "None" if rp is None else "(Some %s)" % cq_read(rp, S, R)
    return "mkS %s %s %s %s %s" % ("None" if st["err"] is None else "(Some %s)" % st["err"],
                                   cq_pieces(st["dump"], S), cq_read(st["paras"], S, R), rps,
                                   cq_looks(st["lookups"], S))


def emit_history(case, obs, op_emitter, ctor="Run"):
    I = Interner()
    _walk_strings([split_lines(case["text"]), case["ops"], obs["items"], obs["init"]], I.note)
    for st in obs["steps"]:
        _walk_strings([split_lines(st["dump"]), st["paras"], st["reparse"],
                       [[v for _, v in row] for row in st["lookups"]]], I.note)
    I.finish()
    S = I.ref
    for st in obs["steps"]:
        for rows in (st["paras"], _reparse_rows(st) or []):
            for para in rows:
                I.note_row(cq_row(para, S))
    for para in obs["init"]:
        I.note_row(cq_row(para, S))
    I.finish_rows()
    R = I.row
    term = "%s %s %s %s %s %s" % (
        ctor, cq_pieces(case["text"], S), cq_list([cq_item(it, S) for it in obs["items"]]),
        cq_read(obs["init"], S, R),
        cq_list([op_emitter(op, S) for op in case["ops"]]), cq_list([cq_step(st, S, R) for st in obs["steps"]]))
    return I.wrap(term)


def emit(case, obs):
    if "leaf" in case:
        k, s, r = case["leaf"], case["s"], obs["r"]
        if k == "field":
            return "LeafField %s %s" % (cq_str(s), cq_opt(r, lambda p: "(%s, %s)" % (cq_str(p[0]), cq_str(p[1]))))
        if k == "ws":
            return "LeafWs %s %s" % (cq_str(s), cq_bool(r))
        return "LeafComment %s %s" % (cq_str(s), cq_res(r, cq_str))
    return emit_history(case, obs, cq_edit_op)


# ---------------------------------------------------------------------------
# generator

NAMES = ["Package", "Depends", "A", "b", "X-Foo", "Description", "a1", "Build-Depends", "Zz"]
SEPS = [" ", " ", " ", "", "  ", "\t", " \t"]
FIRST_VALS = ["v", "foo bar", "1.0-1", "x # not a comment", "a,\tb", "", "  padded  ", "#hash", "é ü", "a: b"]
CONT = [" cont\n", "\tTabbed\n", " .\n", "  two  words \n", " # value not comment\n", " x\r\n", " \xa0y\n"]
INNER_COMMENT = ["# inner\n", "#\n", "#a\n#b\n"]
FIELD_COMMENT = ["# c\n", "#\n", "# one\n# two\n", "#c"]
BETWEEN = ["\n", "\n", "\n\n", " \n", "\n# free\n\n", "\n#x\n#y\n\n", "\t\n\n", "\n# free\n# lines\n\n"]
HEAD = ["", "", "", "\n", "# head\n\n", "\n\n# h\n\n"]


def gen_field(rng, name, allow_comment=True):
    text = ""
    if allow_comment and rng.random() < 0.3:
        c = rng.choice(FIELD_COMMENT)
        text += c if c.endswith("\n") else c + "\n"
    text += name + ":" + rng.choice(SEPS) + rng.choice(FIRST_VALS)
    if rng.random() < 0.15:
        text += rng.choice(["  ", "\t", " "])
    text += "\n"
    if rng.random() < 0.4:
        for _ in range(rng.randint(1, 3)):
            if rng.random() < 0.25:
                text += rng.choice(INNER_COMMENT)
            text += rng.choice(CONT)
    return text


def case_variant(rng, n):
    return rng.choice([n, n.upper(), n.lower(), n.swapcase(), n.capitalize()])


def gen_doc(rng, dups=False, max_paras=3):
    """-> (text, names per paragraph)"""
    text = rng.choice(HEAD)
    all_names = []
    npar = min(rng.choice([1, 1, 2, 2, 3]), max_paras)
    for j in range(npar):
        k = rng.choice([1, 2, 2, 3, 3, 4])
        names = rng.sample(NAMES, k)
        if dups:
            # duplicated (also case-variant) names
            for _ in range(rng.randint(1, 2)):
                n = rng.choice(names)
                names.insert(rng.randint(0, len(names)), case_variant(rng, n))
        for n in names:
            text += gen_field(rng, n)
        all_names.append(names)
        if j + 1 < npar:
            text += rng.choice(BETWEEN)
    r = rng.random()
    if r < 0.35:
        text = text[:-1]                      # no final LF
    elif r < 0.45:
        text += rng.choice(["\n", "\n# end\n", "\n# end", " \n", "\n \t"])
    elif r < 0.5 and text.endswith("\n"):
        text = text[:-1] + rng.choice(["  ", "\t"])   # trailing blanks, no LF
    return text, all_names


GOOD_VALUES = ["new", " padded ", "", "1.0", "multi\n line2", "m\n l2\n l3\n", "first\n# c\n cont", "x\n\tT",
               "\n only-cont", "a b  c", "v\n .\n  text", "x # y", "long value with words\n", "f\n#c1\n#c2\n z\n",
               "é", "t\n \xa0nbsp-start"]
BAD_VALUES = ["bad\nnocont", "a\rb", "x\n \n y", "x\n ", "x\n#c", "x\n\n", "x\x0cy", "x\n y\x0bz", " ", "x\n \t\n",
              "a\n#c\n \n", "x\n y\n\n", "q\x1cz", "x\n#c\n \n z", "x\r\n y", "x\n y\r\n"]
BAD_KEYS = ["", "A B", "#c", "A:B", "-x", ".x", "É", "a\nb", " A", "A ", "x\x7fy", "a#b", "K!", "\tq"]
RAW_GOOD = [" v\n", "v\n", " a\n b\n", "\n c\n", " x\n# i\n y\n", "  sp  \n", "\tt\n", " a\r\n"]
RAW_BAD = [" v", "", " a\nb\n", " a\n#c\n", " a\n \n", " a\n \n#c\n", " a\n \n b\n", "x\ry\n", " a\n b"]
COMMENTS_GOOD = [["hello"], ["# pre\n"], ["a", "#b\n"], [""], [], ["  spaced  "], ["x\n"]]
COMMENTS_BAD = [["\n"], ["a\nb"], [" \n"], ["x\ry"], ["ok", " "], ["#\x0c"]]


def gen_key(rng, names, kind):
    """kind: existing | new | absent-indexed | bad"""
    if kind == "existing" and names:
        n = case_variant(rng, rng.choice(names))
        r = rng.random()
        if r < 0.8:
            return n
        return [n, rng.choice([0, 0, 1, -1, 2])]
    if kind == "bad":
        return rng.choice(BAD_KEYS)
    fresh = [n for n in NAMES + ["New-Field", "q", "X_y", "9lives"] if n.lower() not in [m.lower() for m in names]]
    n = rng.choice(fresh) if fresh else "Fresh"
    if rng.random() < 0.15:
        return [n, rng.choice([0, 0, 1, -1])]
    return n


def gen_edit(rng, names_per_para):
    j = rng.randrange(len(names_per_para))
    names = names_per_para[j]
    r = rng.random()
    if r < 0.36:
        kind = "existing"
    elif r < 0.66:
        kind = "new"
    elif r < 0.73:
        kind = "bad"
    else:
        kind = None
    r2 = rng.random()
    if kind is None:
        # delete
        k = gen_key(rng, names, "existing" if rng.random() < 0.75 else "new")
        op = {"o": "del", "p": j, "k": k}
        n = key_name(k).lower()
        if isinstance(k, str) or k[1] in (0, -1):
            names_per_para[j] = [m for m in names if m.lower() != n] if isinstance(k, str) else names
        return op
    k = gen_key(rng, names, kind)
    if r2 < 0.6:
        v = rng.choice(GOOD_VALUES) if rng.random() < 0.8 else rng.choice(BAD_VALUES)
        op = {"o": "set", "p": j, "k": k, "v": v}
    elif r2 < 0.8:
        v = rng.choice(["s", " sp ", "", "a b", "x\ny", "t\n", "a\rb", "#h", "é"])
        op = {"o": "simple", "p": j, "k": k, "v": v}
    else:
        v = rng.choice(RAW_GOOD) if rng.random() < 0.7 else rng.choice(RAW_BAD)
        op = {"o": "raw", "p": j, "k": k, "v": v}
    if op["o"] != "set":
        r3 = rng.random()
        if r3 < 0.2:
            op["pres"] = rng.choice([True, False])
        elif r3 < 0.45:
            op["fc"] = rng.choice(COMMENTS_GOOD) if rng.random() < 0.75 else rng.choice(COMMENTS_BAD)
        elif r3 < 0.5:
            op["pres"] = rng.choice([True, False])
            op["fc"] = ["both"]
    if kind == "new" and isinstance(k, str) and k.lower() not in [m.lower() for m in names]:
        names_per_para[j] = names + [k]
    return op


LEAF_ALPHA = "aZ9:-.# \t\n\xa0é!\x7f_"


def gen_leaf(rng):
    k = rng.choice(["field", "field", "ws", "comment"])
    n = rng.randint(0, 6)
    s = "".join(rng.choice(LEAF_ALPHA) for _ in range(n))
    if k == "field":
        s = s.replace("\n", "")
        if rng.random() < 0.5:
            s = rng.choice(["A", "a-b", "X9", "_x", "!"]) + rng.choice([":", ": ", "", " :"]) + s
        if rng.random() < 0.8:
            s += "\n"
    elif k == "ws":
        if rng.random() < 0.5:
            s = "".join(rng.choice(" \t\n\xa0\x0c\x1f x") for _ in range(n))
    else:
        if rng.random() < 0.3:
            s = rng.choice(["#", "# ", " #", "x", " x ", "\n", " \n", "x\n", "#x\n", "a\nb", "a\n\n", "\t", "x \t", ""])
    return {"leaf": k, "s": s}


def _spell(rng, n):
    return rng.choice([n, n.lower(), n.upper(), n.swapcase(), n.capitalize()])


def gen_set_del_set(rng):
    """One field assigned, deleted and assigned again (and again), under different case spellings, on a document
    where fields carry comments: a deleted field must be gone for good — its comment and its old spelling must not
    come back when the name is used again."""
    text, names = gen_doc(rng, dups=False)
    j = rng.randrange(len(names))
    pool = names[j] or ["A"]
    f = rng.choice(pool)
    ops = []
    if rng.random() < 0.5:
        ops.append({"o": "set", "p": j, "k": _spell(rng, f), "v": rng.choice(GOOD_VALUES)})
    for _ in range(rng.choice([1, 1, 2])):
        ops.append({"o": "del", "p": j, "k": _spell(rng, f)})
        r = rng.random()
        if r < 0.6:
            ops.append({"o": "set", "p": j, "k": _spell(rng, f), "v": rng.choice(GOOD_VALUES)})
        elif r < 0.8:
            ops.append({"o": "simple", "p": j, "k": _spell(rng, f), "v": rng.choice(["s", "a b", "é"]),
                        "fc": rng.choice(COMMENTS_GOOD) if rng.random() < 0.5 else None})
            if ops[-1]["fc"] is None:
                del ops[-1]["fc"]
        else:
            ops.append({"o": "raw", "p": j, "k": _spell(rng, f), "v": rng.choice(RAW_GOOD)})
    if rng.random() < 0.4:
        ops.append(gen_edit(rng, [list(x) for x in names]))
    return {"text": text, "ops": ops}


def gen_empty_out(rng):
    """Every field of a paragraph is deleted, one at a time in any order (the last deletion empties it), then the
    paragraph is used again: dump, a new field, another deletion."""
    text, names = gen_doc(rng, dups=False)
    j = rng.randrange(len(names))
    order = list(names[j])
    rng.shuffle(order)
    ops = [{"o": "del", "p": j, "k": _spell(rng, n)} for n in order]
    r = rng.random()
    if r < 0.7:
        ops.append({"o": "set", "p": j, "k": rng.choice(["New", "A", order[0] if order else "B"]), "v": rng.choice(GOOD_VALUES)})
    if r < 0.35:
        ops.append({"o": "set", "p": j, "k": "Second", "v": "x"})
    if 0.6 < r:
        ops.append({"o": "del", "p": j, "k": "Absent"})
    return {"text": text, "ops": ops[:8]}


def generate(rng, n, tier):
    n_leaf = n // 6
    for _ in range(n_leaf):
        yield gen_leaf(rng)
    for _ in range(n - n_leaf):
        r0 = rng.random()
        if r0 < 0.06:
            yield gen_set_del_set(rng)
            continue
        if r0 < 0.11:
            yield gen_empty_out(rng)
            continue
        dups = rng.random() < 0.1
        text, names = gen_doc(rng, dups=dups)
        ops = [gen_edit(rng, names) for _ in range(rng.choice([1, 1, 2, 3, 4, 5]))]
        yield {"text": text, "ops": ops}


def from_json(j):
    return j


def classify(case, obs):
    if "leaf" in case:
        r = obs["r"]
        return "leaf/%s/%s" % (case["leaf"], "none" if r is None or r is False else "err" if isinstance(r, dict) and "err" in r else "match")
    kinds = []
    prev = case["text"]
    for op, st in zip(case["ops"], obs["steps"]):
        k = op["o"]
        if "\n" in op.get("v", ""):
            k += "-ml"
        if not isinstance(op.get("k", ""), str):
            k += "-idx"
        if op.get("fc") is not None or op.get("pres") is not None:
            k += "-opt"
        k += ":" + (st["err"] or ("same" if st["dump"] == prev else "ok"))
        prev = st["dump"]
        kinds.append(k)
    first = kinds[0] if kinds else "none"
    return "%s/%s/%s" % ("dup" if any(it[0] == "P" and it[1] for it in obs["items"]) else "nodup",
                         "nl" if case["text"].endswith("\n") else "nonl", first)


def nontrivial(case, obs):
    if "leaf" in case:
        return obs["r"] not in (None, False)
    prev = case["text"]
    for st in obs["steps"]:
        if st["err"] is None and st["dump"] != prev:
            return True
        prev = st["dump"]
    return False


def shrink(case):
    if "leaf" in case:
        s = case["s"]
        for i in range(len(s)):
            yield dict(case, s=s[:i] + s[i + 1:])
        return
    ops = case["ops"]
    for i in range(len(ops)):
        yield dict(case, ops=ops[:i] + ops[i + 1:])
    if len(ops) > 1:
        yield dict(case, ops=ops[:1])
        yield dict(case, ops=ops[-1:])
    lines = split_lines(case["text"])
    for i in range(len(lines)):
        t = "".join(lines[:i] + lines[i + 1:])
        if t and _parses(t) and _ops_fit(t, ops):
            yield dict(case, text=t)
    for i, op in enumerate(ops):
        v = op.get("v")
        if v and len(v) > 1:
            for cand in (v[:len(v) // 2], v[len(v) // 2:], v[:-1], v[1:]):
                yield dict(case, ops=ops[:i] + [dict(op, v=cand)] + ops[i + 1:])
        if op.get("fc") is not None or op.get("pres") is not None:
            o2 = {k: w for k, w in op.items() if k not in ("fc", "pres")}
            yield dict(case, ops=ops[:i] + [o2] + ops[i + 1:])


def _parses(text):
    try:
        parse_doc(split_lines(text))
        return True
    except Exception:
        return False


def _ops_fit(text, ops):
    try:
        n = len(list(parse_doc(split_lines(text))))
    except Exception:
        return False
    return all(op.get("p", 0) < n for op in ops) and n > 0


def describe(case, obs):
    if "leaf" in case:
        return {"leaf": case["leaf"], "input": case["s"], "observed": obs}
    return {"call": "parse_deb822_file(text), then per op: p = list(file)[op.p]; "
                    "set: p[k]=v | del: del p[k] | simple/raw: p.set_field_to_simple_value/from_raw_string(k, v, ...)",
            "text": case["text"], "ops": case["ops"],
            "dumps": [st["dump"] for st in obs.get("steps", [])],
            "errors": [st["err"] for st in obs.get("steps", [])],
            "reparse_after_each_op": [st["reparse"] for st in obs.get("steps", [])],
            "specified": "every dump = previous dump with only the addressed field replaced/appended on lines of its "
                         "own/removed (a missing final LF of the document may be supplied before an appended field); "
                         "a fresh parse shows the new value under every case spelling, the original spelling of the "
                         "name, all other fields unchanged; rejected edits leave the dump unchanged"}


# ---------------------------------------------------------------------------------------------------
# Tie by regeneration (DESIGN 3.1b).  The SETTERS as the working tree has them now, regenerated on every run into
# coq/Gen/TrDocSet.v: _format_comment, Deb822ParagraphToStrWrapperMixin.__setitem__, Deb822ParagraphElement.set_field_to_simple_value /
# set_field_from_raw_string, and get_kvpair_element / set_kvpair_element of Deb822NoDuplicateFieldsParagraphElement — on C10's
# state (heap of C09's list nodes, store of pair elements, dict, OrderedSet object; harness/props/c10.py), calling C10's
# regenerated _ensure_final_newline (Gen/TrStruct.v) and C09's regenerated OrderedSet.add.  Primitives: coq/Repro/DocTrPrims.v;
# proofs coq/Repro/DocTie.v; statements coq/Props/C05Tie.v.
from harness import extract            # noqa: E402


@extract.register("TrDocSet")
def _gen_tr_docset(repo):
    # the spec lives in c05_tie.py and is imported here, when every props module is loaded (c10 imports c05)
    from harness.props import c05_tie
    return c05_tie.generate(repo)


import os as _os    # noqa: E402
# (registered only while the theorem file is there, so that ./check C05 never breaks on a tree without it)
TIE_FILE = "Props/C05Tie.v" if _os.path.exists(_os.path.join(
    _os.path.dirname(_os.path.abspath(__file__)), "..", "..", "coq", "Props", "C05Tie.v")) else None
