"""C05 — edits through the format-preserving parser are local and read back.

Also the shared driver for C10 (harness/props/c10.py): abstraction of the
implementation's parse, execution of operation histories, observation format.
"""
from harness.core import cq_bool, cq_list, cq_opt, cq_str, err_kind

ID = "C05"
CHECK_MODULE = "Repro.DocCheck"
PROPS_FILE = "Props/C05.v"
SHARD = 60
SHARD_IMPORTS = "From Verif Require Import Repro.Doc."
ANCHORS = [("lib/debian/_deb822_repro/parsing.py",
            ["Deb822ParagraphToStrWrapperMixin", "AutoResolvingMixin", "_unpack_key", "_format_comment",
             "set_field_to_simple_value", "set_field_from_raw_string", "_ensure_final_newline",
             "from_kvpairs", "Deb822NoDuplicateFieldsParagraphElement",
             "Deb822DuplicateFieldsParagraphElement", "Deb822KeyValuePairElement",
             "add_final_newline_if_missing", "_convert_value_lines_to_lines"]),
           ("lib/debian/_deb822_repro/tokens.py", ["_RE_FIELD_LINE", "_RE_WHITESPACE_LINE"]),
           ("lib/debian/_util.py", ["OrderedSet", "LinkedList", "LinkedListNode"])]
BUDGET = {"quick": 600, "thorough": 5000}
RULE = ("documents of 1-3 paragraphs assembled from line blocks (comment lines before fields, single/multi-line "
        "values, comment lines inside values, tab continuation, empty values, odd separators after the colon, "
        "free comments/blank/whitespace-only lines between paragraphs, with and without a final LF; a tenth with "
        "duplicated field names) x histories of 1-5 edits: p[k]=v, del p[k], set_field_to_simple_value, "
        "set_field_from_raw_string on existing (any case spelling), new and absent keys, indexed keys, single- and "
        "multi-line values, a malformed stream (values with bad continuation lines, CR/FF, blank continuation, "
        "comment last, keys that are no field names, comment arguments); plus leaf cases for _RE_FIELD_LINE, "
        "_RE_WHITESPACE_LINE, _format_comment against the live objects.  non-trivial = at least one edit succeeded "
        "and changed the dump, or a leaf case that matches")
TRUSTED = ["model coq/Repro/Doc.v is a hand transcription of the dict interface and set_field_* of "
           "debian._deb822_repro.parsing at field-text level (both paragraph classes; name-token keys, "
           "configured_view wrappers and interpretations are not modelled); tied to the code only by this correspondence",
           "the initial abstract document of a case is read off the implementation's own parse (iter_parts walk in "
           "harness/props/c05.py: class name, comment text, name text, remaining text per key-value pair); agree also "
           "checks that it satisfies the theorems' hypothesis doc_ok (coq/Repro/DocInv.v) whenever no paragraph repeats "
           "a field name, and that every later model state without repeated names does",
           "abs_of_tree (coq/Repro/Abs.v) is the Coq counterpart of abstract() in this file; it is compared with it on "
           "the initial document of every case (agree: parse_agree) through the C01 parser model",
           "field-text recogniser parse_new_field stands in for tokenizer+parser on the lines "
           "set_field_from_raw_string builds; leaves match_field_line / is_ws_line / format_comment are compared "
           "with the live compiled patterns and function",
           "str.strip/splitlines as modelled in coq/Lib/PyStr.v with the interpreter's tables (coq/Gen/PyChars.v)",
           "case literals: texts are written as lists of physical lines with LF/TAB raw inside the Coq string literal "
           "(decoded by Lib/Dec.v dec and concatenation); strings and read-out rows repeated inside a case are "
           "let-bound once (harness/props/c05.py emit_history)"]
ASSUMPTIONS = ["keys are ASCII (str.lower is modelled by ascii_lower); histories with non-ASCII keys are run and "
               "compared but are outside the property's judged domain",
               "read-back: C05_set_readback / C05_setter_readback / C05_delete_readback / C05_reread are about a FRESH "
               "PARSE of the dump by the parser model of C01 (coq/Repro/Token.v + Parse.v) abstracted by "
               "coq/Repro/Abs.v abs_of_tree; they rest on the document-level printer/parser theorem "
               "C05_parse_dump_abs (abs (parse (dump d)) = d for doc_wf + doc_canon documents, coq/Repro/ParseDumpAbs*.v). "
               "agree compares that function with the implementation on every run: py_reparse_strict of the case "
               "text must equal the document read off the implementation's tree (items, classes, comment/name/rest "
               "texts), doc_canon must hold for it, and after every edit the model's re-parse of the model's dump "
               "must read like the implementation's fresh parse.  The _partial theorems (live object, domain doc_ok; "
               "paragraph-level re-read with scan_para) are kept",
               "theorem domain doc_ok: no paragraph repeats a field name (both paragraph classes); edits on paragraphs "
               "with duplicated field names are compared with the model but neither judged by holds nor covered by the "
               "locality theorems (the index invariant of the duplicate-fields class is proved for them)",
               "must-be-accepted domain of holds: value deb822 can carry (continuation lines start with space/tab and are "
               "not blank, comment lines only between them, no line boundary other than LF), for a new field a name of "
               "letters/digits/-/_ starting with a letter or digit, and comment arguments that are empty or contain a "
               "visible character; any other call may be rejected (document unchanged) or accepted (then locality and "
               "read-back are demanded)"]


# ---------------------------------------------------------------------------
# implementation driver (shared with C10)

def _mods():
    from debian._deb822_repro import parsing, tokens
    return parsing, tokens


def parse_doc(lines):
    parsing, _ = _mods()
    return parsing.parse_deb822_file(list(lines), accept_files_with_duplicated_fields=True)


def split_lines(text):
    """split after every LF (what iterating a file gives); never on other boundaries"""
    out, cur = [], ""
    for ch in text:
        cur += ch
        if ch == "\n":
            out.append(cur)
            cur = ""
    if cur:
        out.append(cur)
    return out


def abstract(f):
    """[["P", dup, [[comment, name, rest], ...]] | ["O", kind, text]] from the real parse tree"""
    parsing, tokens = _mods()
    items = []
    for part in f.iter_parts():
        if isinstance(part, parsing.Deb822ParagraphElement):
            dup = isinstance(part, parsing.Deb822DuplicateFieldsParagraphElement)
            fields = []
            for kv in part.iter_parts():
                c = kv.comment_element.convert_to_text() if kv.comment_element else ""
                name = str(kv.field_name)
                whole = kv.convert_to_text()
                if not whole.startswith(c + name):
                    raise AssertionError("unexpected kvpair layout")
                fields.append([c, name, whole[len(c) + len(name):]])
            items.append(["P", dup, fields])
        else:
            if isinstance(part, tokens.Deb822WhitespaceToken):
                kind = "W"
            elif isinstance(part, parsing.Deb822CommentElement):
                kind = "C"
            else:
                kind = "E"
            items.append(["O", kind, part.convert_to_text()])
    return items


def read_para(p):
    """keys and values through the dict interface; (name, i) for the i-th occurrence in the duplicate class"""
    parsing, _ = _mods()
    dup = isinstance(p, parsing.Deb822DuplicateFieldsParagraphElement)
    out, seen = [], {}
    for k in p.keys():
        name = str(k)
        lk = name.lower()
        i = seen.get(lk, 0)
        seen[lk] = i + 1
        try:
            v = p[(name, i)] if dup else p[name]
            out.append([name, {"ok": v}])
        except Exception as e:
            out.append([name, {"err": err_kind(e)}])
    return out


def read_doc(f):
    return [read_para(p) for p in f]


def pykey(k):
    return k if isinstance(k, str) else (k[0], k[1])


def key_name(k):
    return k if isinstance(k, str) else k[0]


def variants(k):
    n = key_name(k)
    vs = []
    for x in (n, n.upper(), n.lower(), n.swapcase()):
        if x not in vs:
            vs.append(x)
    return [v if isinstance(k, str) else [v, k[1]] for v in vs]


def build_para(kvs):
    parsing, _ = _mods()
    p = parsing.Deb822ParagraphElement.new_empty_paragraph()
    for k, v in kvs:
        p[k] = v
    return p


def apply_op(f, op):
    o = op["o"]
    if o in ("insert", "append"):
        para = build_para(op["kv"])
        if o == "insert":
            f.insert(op["i"], para)
        else:
            f.append(para)
        return
    p = list(f)[op["p"]]
    if o == "set":
        p[pykey(op["k"])] = op["v"]
    elif o == "del":
        del p[pykey(op["k"])]
    elif o in ("simple", "raw"):
        kw = {}
        if op.get("pres") is not None:
            kw["preserve_original_field_comment"] = op["pres"]
        if op.get("fc") is not None:
            kw["field_comment"] = list(op["fc"])
        if o == "simple":
            p.set_field_to_simple_value(pykey(op["k"]), op["v"], **kw)
        else:
            p.set_field_from_raw_string(pykey(op["k"]), op["v"], **kw)
    elif o == "first":
        p.order_first(pykey(op["k"]))
    elif o == "last":
        p.order_last(pykey(op["k"]))
    elif o == "before":
        p.order_before(pykey(op["k"]), pykey(op["r"]))
    elif o == "after":
        p.order_after(pykey(op["k"]), pykey(op["r"]))
    elif o == "sort":
        p.sort_fields()
    else:
        raise AssertionError("unknown op " + o)


def observe_step(f, op):
    err = None
    try:
        apply_op(f, op)
    except Exception as e:
        err = err_kind(e)
    try:
        dump = f.dump()
    except Exception as e:      # the document must always be printable: recorded, so that holds judges it
        dump = "\x00<dump() raised %s after this operation>" % err_kind(e)
    try:
        paras = read_doc(f)
    except Exception:
        paras = []
    st = {"err": err, "dump": dump, "paras": paras}
    try:
        g = parse_doc(split_lines(dump))
        st["reparse"] = [[[n, v.get("ok", "<err>")] for n, v in para] for para in read_doc(g)]
        if any("err" in v for para in read_doc(g) for _, v in para):
            st["reparse"] = None
        looks = []
        if "k" in op:
            for p in g:
                row = []
                for k in variants(op["k"]):
                    try:
                        row.append([key_name(k), {"ok": p[pykey(k)]}])
                    except Exception as e:
                        row.append([key_name(k), {"err": err_kind(e)}])
                looks.append(row)
        st["lookups"] = looks
    except Exception:
        st["reparse"] = None
        st["lookups"] = []
    return st


def run_history(case):
    f = parse_doc(split_lines(case["text"]))
    obs = {"items": abstract(f), "init": read_doc(f), "steps": []}
    for op in case["ops"]:
        obs["steps"].append(observe_step(f, op))
    return obs


def run_leaf(case):
    parsing, tokens = _mods()
    k = case["leaf"]
    s = case["s"]
    if k == "field":
        m = tokens._RE_FIELD_LINE.match(s)
        if not m:
            return {"r": None}
        return {"r": [m.group("field_name"), s[m.end("field_name"):]], "full": m.end() == len(s)}
    if k == "ws":
        return {"r": tokens._RE_WHITESPACE_LINE.match(s) is not None}
    if k == "comment":
        try:
            return {"r": {"ok": parsing._format_comment(s)}}
        except Exception as e:
            return {"r": {"err": err_kind(e)}}
    raise AssertionError(k)


def run_impl(case):
    if "leaf" in case:
        return run_leaf(case)
    return run_history(case)


# ---------------------------------------------------------------------------
# Coq emission (shared)

def cq_text(s):
    """Escaped literal understood by Lib/Dec.v [dec], with LF and TAB written raw (a raw byte
    decodes to its own code; seven characters fewer per line end for Coq to elaborate)."""
    out = []
    for ch in s:
        c = ord(ch)
        if (32 <= c < 127 and c not in (34, 92)) or c in (9, 10):
            out.append(ch)
        else:
            out.append("\\%06x" % c)
    return '"' + "".join(out) + '"'


class Interner:
    """strings (and rows of a read-out) that occur more than once in a case are bound once by a let"""

    def __init__(self):
        self.count = {}
        self.rows = {}
        self.row_names = {}

    def note(self, s):
        self.count[s] = self.count.get(s, 0) + 1

    def finish(self):
        self.names = {}
        for s, c in self.count.items():
            if c > 1 and len(s) > 2:
                self.names[s] = "s%d" % len(self.names)

    def ref(self, s):
        return self.names.get(s) or cq_text(s)

    def note_row(self, term):
        self.rows[term] = self.rows.get(term, 0) + 1

    def finish_rows(self):
        for t, c in self.rows.items():
            if c > 1 and t != "[]":
                self.row_names[t] = "r%d" % len(self.row_names)

    def row(self, term):
        return self.row_names.get(term, term)

    def wrap(self, term):
        for t, nm in reversed(list(self.row_names.items())):
            term = "let %s : list (string * result string) := %s in\n%s" % (nm, t, term)
        for s, nm in reversed(list(self.names.items())):
            term = "let %s := %s in\n%s" % (nm, cq_text(s), term)
        return "(" + term + ")"


def _walk_strings(x, note):
    if isinstance(x, str):
        note(x)
    elif isinstance(x, (list, tuple)):
        for v in x:
            _walk_strings(v, note)
    elif isinstance(x, dict):
        for k, v in x.items():
            if k in ("o", "err", "leaf"):
                continue
            _walk_strings(v, note)


def cq_res(r, S):
    if "ok" in r:
        return "(Ok %s)" % S(r["ok"])
    return "(Err %s)" % r["err"]


def cq_key(k, S):
    if isinstance(k, str):
        return "(KS %s)" % S(k)
    return "(KI %s (%d)%%Z)" % (S(k[0]), k[1])


def cq_row(para, S):
    return cq_list(["(%s, %s)" % (S(n), cq_res(v, S)) for n, v in para])


def cq_read(paras, S, R=lambda t: t):
    return cq_list([R(cq_row(para, S)) for para in paras])


def cq_looks(looks, S):
    """per re-parsed paragraph: what each alternative spelling of the key read (the spellings themselves
    are not needed by the judgement)"""
    return cq_list([cq_list([cq_res(v, S) for _, v in row]) for row in looks])


def cq_pieces(text, S):
    """a text as the list of its physical lines (decoded by concatenation): lines repeat from dump to dump"""
    return cq_list([S(l) for l in split_lines(text)])


def cq_item(it, S):
    if it[0] == "P":
        return "IP %s %s" % (cq_bool(it[1]), cq_list(["(%s, %s, %s)" % (S(c), S(n), S(r)) for c, n, r in it[2]]))
    return "IO %s %s" % ({"W": "OWs", "C": "OComment", "E": "OError"}[it[1]], S(it[2]))


def cq_optbool(b):
    return "None" if b is None else "(Some %s)" % cq_bool(b)


def cq_edit_op(op, S):
    o = op["o"]
    if o == "set":
        return "LSet %d %s %s" % (op["p"], cq_key(op["k"], S), S(op["v"]))
    if o == "del":
        return "LDel %d %s" % (op["p"], cq_key(op["k"], S))
    if o in ("simple", "raw"):
        fc = op.get("fc")
        return "%s %d %s %s %s %s" % ("LSimple" if o == "simple" else "LRaw", op["p"], cq_key(op["k"], S),
                                      S(op["v"]), cq_optbool(op.get("pres")),
                                      "None" if fc is None else "(Some %s)" % cq_list([S(c) for c in fc]))
    return None


def _reparse_rows(st):
    rp = st["reparse"]
    return None if rp is None else [[[n, {"ok": v}] for n, v in para] for para in rp]


def cq_step(st, S, R=lambda t: t):
    rp = _reparse_rows(st)
    rps = "None" if rp is None else "(Some %s)" % cq_read(rp, S, R)
    return "mkS %s %s %s %s %s" % ("None" if st["err"] is None else "(Some %s)" % st["err"],
                                   cq_pieces(st["dump"], S), cq_read(st["paras"], S, R), rps,
                                   cq_looks(st["lookups"], S))


def emit_history(case, obs, op_emitter, ctor="Run"):
    I = Interner()
    _walk_strings([split_lines(case["text"]), case["ops"], obs["items"], obs["init"]], I.note)
    for st in obs["steps"]:
        _walk_strings([split_lines(st["dump"]), st["paras"], st["reparse"],
                       [[v for _, v in row] for row in st["lookups"]]], I.note)
    I.finish()
    S = I.ref
    for st in obs["steps"]:
        for rows in (st["paras"], _reparse_rows(st) or []):
            for para in rows:
                I.note_row(cq_row(para, S))
    for para in obs["init"]:
        I.note_row(cq_row(para, S))
    I.finish_rows()
    R = I.row
    term = "%s %s %s %s %s %s" % (
        ctor, cq_pieces(case["text"], S), cq_list([cq_item(it, S) for it in obs["items"]]),
        cq_read(obs["init"], S, R),
        cq_list([op_emitter(op, S) for op in case["ops"]]), cq_list([cq_step(st, S, R) for st in obs["steps"]]))
    return I.wrap(term)


def emit(case, obs):
    if "leaf" in case:
        k, s, r = case["leaf"], case["s"], obs["r"]
        if k == "field":
            return "LeafField %s %s" % (cq_str(s), cq_opt(r, lambda p: "(%s, %s)" % (cq_str(p[0]), cq_str(p[1]))))
        if k == "ws":
            return "LeafWs %s %s" % (cq_str(s), cq_bool(r))
        return "LeafComment %s %s" % (cq_str(s), cq_res(r, cq_str))
    return emit_history(case, obs, cq_edit_op)


# ---------------------------------------------------------------------------
# generator

NAMES = ["Package", "Depends", "A", "b", "X-Foo", "Description", "a1", "Build-Depends", "Zz"]
SEPS = [" ", " ", " ", "", "  ", "\t", " \t"]
FIRST_VALS = ["v", "foo bar", "1.0-1", "x # not a comment", "a,\tb", "", "  padded  ", "#hash", "é ü", "a: b"]
CONT = [" cont\n", "\tTabbed\n", " .\n", "  two  words \n", " # value not comment\n", " x\r\n", " \xa0y\n"]
INNER_COMMENT = ["# inner\n", "#\n", "#a\n#b\n"]
FIELD_COMMENT = ["# c\n", "#\n", "# one\n# two\n", "#c"]
BETWEEN = ["\n", "\n", "\n\n", " \n", "\n# free\n\n", "\n#x\n#y\n\n", "\t\n\n", "\n# free\n# lines\n\n"]
HEAD = ["", "", "", "\n", "# head\n\n", "\n\n# h\n\n"]


def gen_field(rng, name, allow_comment=True):
    text = ""
    if allow_comment and rng.random() < 0.3:
        c = rng.choice(FIELD_COMMENT)
        text += c if c.endswith("\n") else c + "\n"
    text += name + ":" + rng.choice(SEPS) + rng.choice(FIRST_VALS)
    if rng.random() < 0.15:
        text += rng.choice(["  ", "\t", " "])
    text += "\n"
    if rng.random() < 0.4:
        for _ in range(rng.randint(1, 3)):
            if rng.random() < 0.25:
                text += rng.choice(INNER_COMMENT)
            text += rng.choice(CONT)
    return text


def case_variant(rng, n):
    return rng.choice([n, n.upper(), n.lower(), n.swapcase(), n.capitalize()])


def gen_doc(rng, dups=False, max_paras=3):
    """-> (text, names per paragraph)"""
    text = rng.choice(HEAD)
    all_names = []
    npar = min(rng.choice([1, 1, 2, 2, 3]), max_paras)
    for j in range(npar):
        k = rng.choice([1, 2, 2, 3, 3, 4])
        names = rng.sample(NAMES, k)
        if dups:
            # duplicated (also case-variant) names
            for _ in range(rng.randint(1, 2)):
                n = rng.choice(names)
                names.insert(rng.randint(0, len(names)), case_variant(rng, n))
        for n in names:
            text += gen_field(rng, n)
        all_names.append(names)
        if j + 1 < npar:
            text += rng.choice(BETWEEN)
    r = rng.random()
    if r < 0.35:
        text = text[:-1]                      # no final LF
    elif r < 0.45:
        text += rng.choice(["\n", "\n# end\n", "\n# end", " \n", "\n \t"])
    elif r < 0.5 and text.endswith("\n"):
        text = text[:-1] + rng.choice(["  ", "\t"])   # trailing blanks, no LF
    return text, all_names


GOOD_VALUES = ["new", " padded ", "", "1.0", "multi\n line2", "m\n l2\n l3\n", "first\n# c\n cont", "x\n\tT",
               "\n only-cont", "a b  c", "v\n .\n  text", "x # y", "long value with words\n", "f\n#c1\n#c2\n z\n",
               "é", "t\n \xa0nbsp-start"]
BAD_VALUES = ["bad\nnocont", "a\rb", "x\n \n y", "x\n ", "x\n#c", "x\n\n", "x\x0cy", "x\n y\x0bz", " ", "x\n \t\n",
              "a\n#c\n \n", "x\n y\n\n", "q\x1cz", "x\n#c\n \n z", "x\r\n y", "x\n y\r\n"]
BAD_KEYS = ["", "A B", "#c", "A:B", "-x", ".x", "É", "a\nb", " A", "A ", "x\x7fy", "a#b", "K!", "\tq"]
RAW_GOOD = [" v\n", "v\n", " a\n b\n", "\n c\n", " x\n# i\n y\n", "  sp  \n", "\tt\n", " a\r\n"]
RAW_BAD = [" v", "", " a\nb\n", " a\n#c\n", " a\n \n", " a\n \n#c\n", " a\n \n b\n", "x\ry\n", " a\n b"]
COMMENTS_GOOD = [["hello"], ["# pre\n"], ["a", "#b\n"], [""], [], ["  spaced  "], ["x\n"]]
COMMENTS_BAD = [["\n"], ["a\nb"], [" \n"], ["x\ry"], ["ok", " "], ["#\x0c"]]


def gen_key(rng, names, kind):
    """kind: existing | new | absent-indexed | bad"""
    if kind == "existing" and names:
        n = case_variant(rng, rng.choice(names))
        r = rng.random()
        if r < 0.8:
            return n
        return [n, rng.choice([0, 0, 1, -1, 2])]
    if kind == "bad":
        return rng.choice(BAD_KEYS)
    fresh = [n for n in NAMES + ["New-Field", "q", "X_y", "9lives"] if n.lower() not in [m.lower() for m in names]]
    n = rng.choice(fresh) if fresh else "Fresh"
    if rng.random() < 0.15:
        return [n, rng.choice([0, 0, 1, -1])]
    return n


def gen_edit(rng, names_per_para):
    j = rng.randrange(len(names_per_para))
    names = names_per_para[j]
    r = rng.random()
    if r < 0.36:
        kind = "existing"
    elif r < 0.66:
        kind = "new"
    elif r < 0.73:
        kind = "bad"
    else:
        kind = None
    r2 = rng.random()
    if kind is None:
        # delete
        k = gen_key(rng, names, "existing" if rng.random() < 0.75 else "new")
        op = {"o": "del", "p": j, "k": k}
        n = key_name(k).lower()
        if isinstance(k, str) or k[1] in (0, -1):
            names_per_para[j] = [m for m in names if m.lower() != n] if isinstance(k, str) else names
        return op
    k = gen_key(rng, names, kind)
    if r2 < 0.6:
        v = rng.choice(GOOD_VALUES) if rng.random() < 0.8 else rng.choice(BAD_VALUES)
        op = {"o": "set", "p": j, "k": k, "v": v}
    elif r2 < 0.8:
        v = rng.choice(["s", " sp ", "", "a b", "x\ny", "t\n", "a\rb", "#h", "é"])
        op = {"o": "simple", "p": j, "k": k, "v": v}
    else:
        v = rng.choice(RAW_GOOD) if rng.random() < 0.7 else rng.choice(RAW_BAD)
        op = {"o": "raw", "p": j, "k": k, "v": v}
    if op["o"] != "set":
        r3 = rng.random()
        if r3 < 0.2:
            op["pres"] = rng.choice([True, False])
        elif r3 < 0.45:
            op["fc"] = rng.choice(COMMENTS_GOOD) if rng.random() < 0.75 else rng.choice(COMMENTS_BAD)
        elif r3 < 0.5:
            op["pres"] = rng.choice([True, False])
            op["fc"] = ["both"]
    if kind == "new" and isinstance(k, str) and k.lower() not in [m.lower() for m in names]:
        names_per_para[j] = names + [k]
    return op


LEAF_ALPHA = "aZ9:-.# \t\n\xa0é!\x7f_"


def gen_leaf(rng):
    k = rng.choice(["field", "field", "ws", "comment"])
    n = rng.randint(0, 6)
    s = "".join(rng.choice(LEAF_ALPHA) for _ in range(n))
    if k == "field":
        s = s.replace("\n", "")
        if rng.random() < 0.5:
            s = rng.choice(["A", "a-b", "X9", "_x", "!"]) + rng.choice([":", ": ", "", " :"]) + s
        if rng.random() < 0.8:
            s += "\n"
    elif k == "ws":
        if rng.random() < 0.5:
            s = "".join(rng.choice(" \t\n\xa0\x0c\x1f x") for _ in range(n))
    else:
        if rng.random() < 0.3:
            s = rng.choice(["#", "# ", " #", "x", " x ", "\n", " \n", "x\n", "#x\n", "a\nb", "a\n\n", "\t", "x \t", ""])
    return {"leaf": k, "s": s}


def _spell(rng, n):
    return rng.choice([n, n.lower(), n.upper(), n.swapcase(), n.capitalize()])


def gen_set_del_set(rng):
    """One field assigned, deleted and assigned again (and again), under different case spellings, on a document
    where fields carry comments: a deleted field must be gone for good — its comment and its old spelling must not
    come back when the name is used again."""
    text, names = gen_doc(rng, dups=False)
    j = rng.randrange(len(names))
    pool = names[j] or ["A"]
    f = rng.choice(pool)
    ops = []
    if rng.random() < 0.5:
        ops.append({"o": "set", "p": j, "k": _spell(rng, f), "v": rng.choice(GOOD_VALUES)})
    for _ in range(rng.choice([1, 1, 2])):
        ops.append({"o": "del", "p": j, "k": _spell(rng, f)})
        r = rng.random()
        if r < 0.6:
            ops.append({"o": "set", "p": j, "k": _spell(rng, f), "v": rng.choice(GOOD_VALUES)})
        elif r < 0.8:
            ops.append({"o": "simple", "p": j, "k": _spell(rng, f), "v": rng.choice(["s", "a b", "é"]),
                        "fc": rng.choice(COMMENTS_GOOD) if rng.random() < 0.5 else None})
            if ops[-1]["fc"] is None:
                del ops[-1]["fc"]
        else:
            ops.append({"o": "raw", "p": j, "k": _spell(rng, f), "v": rng.choice(RAW_GOOD)})
    if rng.random() < 0.4:
        ops.append(gen_edit(rng, [list(x) for x in names]))
    return {"text": text, "ops": ops}


def gen_empty_out(rng):
    """Every field of a paragraph is deleted, one at a time in any order (the last deletion empties it), then the
    paragraph is used again: dump, a new field, another deletion."""
    text, names = gen_doc(rng, dups=False)
    j = rng.randrange(len(names))
    order = list(names[j])
    rng.shuffle(order)
    ops = [{"o": "del", "p": j, "k": _spell(rng, n)} for n in order]
    r = rng.random()
    if r < 0.7:
        ops.append({"o": "set", "p": j, "k": rng.choice(["New", "A", order[0] if order else "B"]), "v": rng.choice(GOOD_VALUES)})
    if r < 0.35:
        ops.append({"o": "set", "p": j, "k": "Second", "v": "x"})
    if 0.6 < r:
        ops.append({"o": "del", "p": j, "k": "Absent"})
    return {"text": text, "ops": ops[:8]}


def generate(rng, n, tier):
    n_leaf = n // 6
    for _ in range(n_leaf):
        yield gen_leaf(rng)
    for _ in range(n - n_leaf):
        r0 = rng.random()
        if r0 < 0.06:
            yield gen_set_del_set(rng)
            continue
        if r0 < 0.11:
            yield gen_empty_out(rng)
            continue
        dups = rng.random() < 0.1
        text, names = gen_doc(rng, dups=dups)
        ops = [gen_edit(rng, names) for _ in range(rng.choice([1, 1, 2, 3, 4, 5]))]
        yield {"text": text, "ops": ops}


def from_json(j):
    return j


def classify(case, obs):
    if "leaf" in case:
        r = obs["r"]
        return "leaf/%s/%s" % (case["leaf"], "none" if r is None or r is False else "err" if isinstance(r, dict) and "err" in r else "match")
    kinds = []
    prev = case["text"]
    for op, st in zip(case["ops"], obs["steps"]):
        k = op["o"]
        if "\n" in op.get("v", ""):
            k += "-ml"
        if not isinstance(op.get("k", ""), str):
            k += "-idx"
        if op.get("fc") is not None or op.get("pres") is not None:
            k += "-opt"
        k += ":" + (st["err"] or ("same" if st["dump"] == prev else "ok"))
        prev = st["dump"]
        kinds.append(k)
    first = kinds[0] if kinds else "none"
    return "%s/%s/%s" % ("dup" if any(it[0] == "P" and it[1] for it in obs["items"]) else "nodup",
                         "nl" if case["text"].endswith("\n") else "nonl", first)


def nontrivial(case, obs):
    if "leaf" in case:
        return obs["r"] not in (None, False)
    prev = case["text"]
    for st in obs["steps"]:
        if st["err"] is None and st["dump"] != prev:
            return True
        prev = st["dump"]
    return False


def shrink(case):
    if "leaf" in case:
        s = case["s"]
        for i in range(len(s)):
            yield dict(case, s=s[:i] + s[i + 1:])
        return
    ops = case["ops"]
    for i in range(len(ops)):
        yield dict(case, ops=ops[:i] + ops[i + 1:])
    if len(ops) > 1:
        yield dict(case, ops=ops[:1])
        yield dict(case, ops=ops[-1:])
    lines = split_lines(case["text"])
    for i in range(len(lines)):
        t = "".join(lines[:i] + lines[i + 1:])
        if t and _parses(t) and _ops_fit(t, ops):
            yield dict(case, text=t)
    for i, op in enumerate(ops):
        v = op.get("v")
        if v and len(v) > 1:
            for cand in (v[:len(v) // 2], v[len(v) // 2:], v[:-1], v[1:]):
                yield dict(case, ops=ops[:i] + [dict(op, v=cand)] + ops[i + 1:])
        if op.get("fc") is not None or op.get("pres") is not None:
            o2 = {k: w for k, w in op.items() if k not in ("fc", "pres")}
            yield dict(case, ops=ops[:i] + [o2] + ops[i + 1:])


def _parses(text):
    try:
        parse_doc(split_lines(text))
        return True
    except Exception:
        return False


def _ops_fit(text, ops):
    try:
        n = len(list(parse_doc(split_lines(text))))
    except Exception:
        return False
    return all(op.get("p", 0) < n for op in ops) and n > 0


def describe(case, obs):
    if "leaf" in case:
        return {"leaf": case["leaf"], "input": case["s"], "observed": obs}
    return {"call": "parse_deb822_file(text), then per op: p = list(file)[op.p]; "
                    "set: p[k]=v | del: del p[k] | simple/raw: p.set_field_to_simple_value/from_raw_string(k, v, ...)",
            "text": case["text"], "ops": case["ops"],
            "dumps": [st["dump"] for st in obs.get("steps", [])],
            "errors": [st["err"] for st in obs.get("steps", [])],
            "reparse_after_each_op": [st["reparse"] for st in obs.get("steps", [])],
            "specified": "every dump = previous dump with only the addressed field replaced/appended on lines of its "
                         "own/removed (a missing final LF of the document may be supplied before an appended field); "
                         "a fresh parse shows the new value under every case spelling, the original spelling of the "
                         "name, all other fields unchanged; rejected edits leave the dump unchanged"}


# ---------------------------------------------------------------------------------------------------
# Tie by regeneration (DESIGN 3.1b).  The SETTERS as the working tree has them now, regenerated on every run into
# coq/Gen/TrDocSet.v: _format_comment, Deb822ParagraphToStrWrapperMixin.__setitem__, Deb822ParagraphElement.set_field_to_simple_value /
# set_field_from_raw_string, and get_kvpair_element / set_kvpair_element of Deb822NoDuplicateFieldsParagraphElement — on C10's
# state (heap of C09's list nodes, store of pair elements, dict, OrderedSet object; harness/props/c10.py), calling C10's
# regenerated _ensure_final_newline (Gen/TrStruct.v) and C09's regenerated OrderedSet.add.  Primitives: coq/Repro/DocTrPrims.v;
# proofs coq/Repro/DocTie.v; statements coq/Props/C05Tie.v.
from harness import extract            # noqa: E402
from harness import py2coq as _P       # noqa: E402
from harness.props import c10 as _c10  # noqa: E402

_LF = ("literal", "'\\n'", "tt")
_HASH = ("literal", "'#'", "tt")

_C = _c10
_T_KV, _T_KVD, _T_OS, _T_KEY, _T_STRI, _T_ANY, _T_TOK = _C._T_KV, _C._T_KVD, _C._T_OS, _C._T_KEY, _C._T_STRI, _C._T_ANY, _C._T_TOK
_T_OKV = ("option", _T_KV)
_T_PARA = ("coq", "pararef")
_ND = _C._ND

_nd_get = _C._nd_r("tr_nd_get_kvpair_element", _ND + "get_kvpair_element", [("item", _T_KEY), ("use_get", "bool")], _T_OKV,
                   locals={"_": _T_ANY})
_nd_get.retype = {"item": [_T_STRI]}
_nd_set = _C._nd_w("tr_nd_set_kvpair_element", _ND + "set_kvpair_element", [("key", _T_KEY), ("value", _T_KV)], "unit",
                   locals={"_": _T_ANY, "original_value": _T_OKV})
_nd_set.retype = {"key": [_T_STRI]}
_nd_set.narrow = True

_T_CE = ("coq", "celem")
_T_OCE = ("option", _T_CE)
_T_CM = ("coq", "commentish")
_T_OCM = ("option", _T_CM)
_T_OB = ("option", "bool")
_T_PF = ("coq", "pfile")
_T_PP = ("coq", "ppara")
_T_ET = ("coq", "errtok")
_LS = ("list", "str")
_PE = "Deb822ParagraphElement."
_ND_GV = _C._ND_GV
_KWS = [None, None, "preserve_original_field_comment", "field_comment"]

_set_raw = _C._nd_w("tr_nd_set_field_from_raw_string", _PE + "set_field_from_raw_string",
                    [("item", _T_KEY), ("raw_string_value", "str"), ("preserve_original_field_comment", _T_OB),
                     ("field_comment", _T_OCM)], "unit",
                    locals={"new_content": _LS, "field_name": _T_STRI, "_": _T_ANY, "cased_field_name": _T_STRI,
                            "original": _T_OKV, "raw": "str", "raw_lines": _LS, "i": "Z", "line": "str", "msg": "str",
                            "deb822_file": _T_PF, "error_token": ("option", _T_ET), "paragraph": _T_PP, "value": _T_OKV})
_set_raw.narrow = True
_set_raw.join_defines = True
_set_simple = _C._nd_w("tr_nd_set_field_to_simple_value", _PE + "set_field_to_simple_value",
                       [("item", _T_KEY), ("simple_value", "str"), ("preserve_original_field_comment", _T_OB),
                        ("field_comment", _T_OCM)], "unit", locals={"raw_value": "str"})
_setitem = _C._nd_w("tr_nd_setitem", "Deb822ParagraphToStrWrapperMixin.__setitem__", [("item", _T_KEY), ("value", "str")], "unit",
                    locals={"keep_comments": _T_OB, "comment": _T_OCE, "key_lookup": _T_KEY, "orig_kvpair": _T_OKV,
                            "idx": "Z", "first_line": "str", "rest": "str"})
_setitem.narrow = True
_setitem.join_defines = True

TR_MODULE = _P.Module(
    "TrDocSet", "lib/debian/_deb822_repro/parsing.py",
    funs=[
        _P.Fun("tr_format_comment", "_format_comment", [("c", "str")], "str"),
        _nd_get, _nd_set, _set_raw, _set_simple, _setitem,
    ],
    calls={
        "_unpack_key": [_C._t_kw(_P.Call("trp_unpack_key", [_T_KEY, "bool"], _C._T_UNPACKED, True), [None, "raise_if_indexed"]),
                        _P.Call("(fun k_ => trp_unpack_key k_ false)", [_T_KEY], _C._T_UNPACKED, True)],   # the default
        "isinstance": [_P.Call("trp_stri_is_nametoken", [_T_STRI, ("literal", "Deb822FieldNameToken", "tt")], "bool"),
                       _P.Call("trp_cm_is_comment_element", [_T_CM, ("literal", "Deb822CommentElement", "tt")], "bool"),
                       _P.Call("trp_pp_is_nodup", [_T_PP, ("literal", "Deb822NoDuplicateFieldsParagraphElement", "tt")], "bool"),
                       _P.Call("trp_key_is_str", [_T_KEY, ("literal", "str", "tt")], "bool")],
        "_format_comment": _P.Call("tr_format_comment", ["str"], "str", True),
        "<commentish>.__iter__": _P.Call("trp_cm_iter", [_T_CM], _LS, True),
        "<str>.join": [_P.Call("trp_join2", ["str", ("tuple", _T_STRI, "str")], "str"),
                       _P.Call("trp_join4", ["str", ("tuple", "str", "str", "str", "str")], "str")],
        "<str>.splitlines": _C._t_kw(_P.Call("trp_splitlines_keep", ["str", ("literal", "True", "tt")], _LS), [None, "keepends"]),
        "enumerate": _C._t_kw(_P.Call("trp_enumerate", [_LS, "Z"], ("list", ("tuple", "Z", "str"))), [None, "start"]),
        "<str>.format": [_C._t_kw(_P.Call("trp_fmt_i", ["str", "Z"], "str"), [None, "i"]),
                         _C._t_kw(_P.Call("trp_fmt_i_line", ["str", "Z", "char"], "str"), [None, "i", "line"])],
        "iter": [_P.Call("", [_LS], _LS), _P.Call("", [_T_PF], _T_PF)],
        "parse_deb822_file": _P.Call("trp_parse_file", [_LS], _T_PF, True),
        "<pfile>.find_first_error_element": _P.Call("trp_pf_first_error", [_T_PF], ("option", _T_ET)),
        "next": _P.Call("trp_pf_first_para", [_T_PF], _T_PP, True),
        "<ppara>.get_kvpair_element": _C._t_sub("trp_pp_get", [_T_PP, _T_STRI], _T_OKV, ["kvs"]),
        "self.get_kvpair_element": _C._t_kw(_P.Call("tr_nd_get_kvpair_element " + _ND_GV, [_T_KEY, "bool"], _T_OKV, True),
                                            [None, "use_get"]),
        "self._paragraph.get_kvpair_element": _C._t_kw(_P.Call("tr_nd_get_kvpair_element " + _ND_GV, [_T_KEY, "bool"], _T_OKV, True),
                                                       [None, "use_get"]),
        "self.set_kvpair_element": _C._t_sub("tr_nd_set_kvpair_element lower", [_T_KEY, _T_KV], "unit", _C._ND_V),
        "self.set_field_from_raw_string": _C._t_kw(_C._t_sub("tr_nd_set_field_from_raw_string lower",
                                                             [_T_KEY, "str", _T_OB, _T_OCM], "unit", _C._ND_V), _KWS),
        "self._paragraph.set_field_from_raw_string": _C._t_kw(_C._t_sub("tr_nd_set_field_from_raw_string lower",
                                                                        [_T_KEY, "str", _T_OB, _T_OCM], "unit", _C._ND_V), _KWS),
        "self._paragraph.set_field_to_simple_value": _C._t_kw(_C._t_sub("tr_nd_set_field_to_simple_value lower",
                                                                        [_T_KEY, "str", _T_OB, _T_OCM], "unit", _C._ND_V), _KWS),
        "<str>.index": _P.Call("trp_index_lf", ["str", _LF], "Z", True),
        "<str>.split": _P.Call("trp_split_lf_1", ["str", _LF, ("literal", "1", "tt")], _LS),
        "is": _P.Call("trp_stri_is_token", [_T_STRI, _T_TOK], "bool"),
        "<kvdict>.get": _P.Call("trp_kvd_get_opt lower", [_T_KVD, _T_STRI], _T_OKV),
        "<kvdict>.__getitem__": _P.Call("trp_kvd_get lower", [_T_KVD, _T_STRI], _T_KV, True),
        "<kvdict>.__setitem__": _P.Call("trp_kvd_set lower", [_T_KVD, _T_STRI, _T_KV], "unit", mutates=True),
        "<stri>.__eq__": _P.Call("trp_stri_eqb lower", [_T_STRI, _T_STRI], "bool"),
        "self._ensure_final_newline": _C._t_sub("tr_nd_ensure_final_newline lower", [], "unit", _C._ND_V),
        "self._kvpair_order.append": _C._t_sub("trp_os_add lower", [_T_STRI], "unit", ["hp", "s_order"]),
        "<str>.endswith": _P.Call("trp_ends_nl", ["str", _LF], "bool"),
        "<str>.startswith": _P.Call("trp_starts_hash", ["str", _HASH], "bool"),
        "<str>.rstrip": _P.Call("trp_rstrip", ["str"], "str"),
        "<str>.lstrip": _P.Call("trp_lstrip", ["str"], "str"),
        "<str>.strip": _P.Call("trp_strip", ["str"], "str"),
    },
    consts={"self._kvpair_elements": ("s_kv", _T_KVD), "self._kvpair_order": ("s_order", _T_OS),
            "self": ("trp_self_para", _T_PARA),
            "self._preserve_field_comments_on_field_updates": ("trp_flag_true", "bool"),
            "self._auto_resolve_ambiguous_fields": ("trp_flag_true", "bool"),
            "self._auto_map_initial_line_whitespace": ("trp_flag_true", "bool"),
            "self._auto_map_final_newline_in_multiline_values": ("trp_flag_true", "bool")},
    imports=["Gen.TrStruct", "Dict.Common", "Dict.Heap", "Dict.TrPrims", "Repro.StructTrPrims", "Repro.DocTrPrims"])

_T_KVCLASS = _P.HeapClass(
    "kvelem", fields={},
    props={"field_name": (_P.Call("trp_kv_field_name kvs", [_T_KV], _T_STRI, True), None),
           "field_token": (_P.Call("trp_kv_field_token kvs", [_T_KV], _T_TOK, True), None),
           "comment_element": (_P.Call("trp_kv_comment kvs", [_T_KV], _T_OCE, True),
                               _C._t_sub("trp_kv_set_comment", [_T_KV, _T_OCE], "unit", ["kvs"])),
           "parent_element": (None, _C._t_sub("trp_kv_set_parent", [_T_KV, ("option", _T_PARA)], "unit", ["kvs"]))})
TR_MODULE.heap = _P.Heap("hp", _C._T_HEAP, {"Deb822KeyValuePairElement": _T_KVCLASS}, assume="trp_assume_some")
TR_MODULE.coercions = _C._T_COERCIONS + [(("tuple", _T_KEY, "Z"), _T_KEY, "(trp_key_pair %s)"),
                                         (("tuple", _T_STRI, "Z"), _T_KEY, "(trp_key_name_idx %s)"),
                                         (_T_OCE, _T_OCM, "(option_map CElem %s)"),
                                         (_T_CM, _T_OCE, "(trp_cm_as_elem %s)")]
# in the try body of set_field_from_raw_string — self.get_kvpair_element of THIS class — a KeyError is never an
# AmbiguousDeb822FieldKeyError (only _resolve_to_single_node of the duplicates class raises one)
TR_MODULE.catches = {"AmbiguousDeb822FieldKeyError": ((), ())}


# Code that the primitives of coq/Repro/DocTrPrims.v stand for and that the translator does not see, asserted as source text
# (sha256 of ast.unparse, 16 hex digits): a change fails the translation closed.
_T_SHA = {'AutoResolvingMixin._auto_resolve_ambiguous_fields': '017ac70533501efb',
 'Deb822FileElement.find_first_error_element': '38bbbfef48e8f553',
 'Deb822KeyValuePairElement.comment_element@getter': 'b125c8311d59b354',
 'Deb822KeyValuePairElement.comment_element@setter': '498ca5cbf0365aeb',
 'Deb822KeyValuePairElement.field_token': '95d24712e538402b',
 'Deb822ParagraphElement._paragraph': '25bc91c6a6721b46',
 'Deb822ParagraphToStrWrapperMixin._auto_map_final_newline_in_multiline_values': '4c8ddb2e0fa52f35',
 'Deb822ParagraphToStrWrapperMixin._auto_map_initial_line_whitespace': '3cc7b60e9f4e40de',
 'Deb822ParagraphToStrWrapperMixin._preserve_field_comments_on_field_updates': '558bdb44472b4184'}


def _t_assert_set_sources(repo):
    import ast
    import hashlib
    tree = extract._parse(repo, "lib/debian/_deb822_repro/parsing.py")
    for qual, sha in _T_SHA.items():
        got = hashlib.sha256(ast.unparse(_P.find_def(tree, qual)).encode()).hexdigest()[:16]
        if got != sha:
            raise extract.ExtractError("%s changed: a primitive of coq/Repro/DocTrPrims.v models the previous text" % qual)
    # Deb822ParagraphElement does not override the four flags; OrderedSet.append is OrderedSet.add
    cls = [n for n in tree.body if isinstance(n, ast.ClassDef) and n.name == "Deb822ParagraphElement"]
    names = {n.name for n in cls[0].body if isinstance(n, ast.FunctionDef)} if len(cls) == 1 else None
    if names is None or names & {"_auto_resolve_ambiguous_fields", "_auto_map_initial_line_whitespace",
                                 "_auto_map_final_newline_in_multiline_values",
                                 "_preserve_field_comments_on_field_updates"}:
        raise extract.ExtractError("Deb822ParagraphElement overrides a flag property that DocTrPrims.v models as True")
    util = extract._parse(repo, "lib/debian/_util.py")
    if ast.unparse(_P.find_value(util, "OrderedSet.append")) != "add":
        raise extract.ExtractError("OrderedSet.append is no longer OrderedSet.add")


@extract.register("TrDocSet")
def _gen_tr_docset(repo):
    _c10._t_assert_sources(repo)           # _unpack_key, add_final_newline_if_missing, field_name, … (StructTrPrims.v)
    _t_assert_set_sources(repo)
    return _P.translate_module(repo, TR_MODULE)


import os as _os    # noqa: E402
# (registered only while the theorem file is there, so that ./check C05 never breaks on a tree without it)
TIE_FILE = "Props/C05Tie.v" if _os.path.exists(_os.path.join(
    _os.path.dirname(_os.path.abspath(__file__)), "..", "..", "coq", "Props", "C05Tie.v")) else None
