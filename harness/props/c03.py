"""C03 — Version comparison agrees with dpkg and is a consistent total preorder
(debian_support.NativeVersion / version_compare)."""
import itertools
import os
import subprocess

from harness import core
from harness.core import cq_N, cq_Z, cq_bool, cq_list, cq_str, cq_strs, err_kind
from harness.props import version_common as vc

ID = "C03"
CHECK_MODULE = "Version.CompareCheck"
PROPS_FILE = "Props/C03.v"
TIE_FILE = "Props/C03Tie.v"
ANCHORS = [(vc.SRC, vc.ANCHOR_NAMES_COMPARE + ["re_valid_version", "_set_full_version"])]
BUDGET = {"quick": 3000, "thorough": 45000}
SHARD = 400
SHARD_IMPORTS = "From Verif Require Import Version.Parse Version.Compare."
RULE = ("pairs (70%) and triples (20%) of version strings: families that dpkg orders as equal under different "
        "spellings (1.0 / 1.00 / 0:1.0-0 / 01.0-00), '~' chains, leading zeros, letters vs other characters, "
        "mixed digit/letter runs, epochs 0 vs absent, empty vs '0' revisions; random strings over "
        "0 1 9 a Z . + - ~ : with and without epoch/revision; each second member mostly a small edit of the "
        "first so that equal and nearly-equal pairs are frequent; a 7% stream with an invalid member; 10% leaf "
        "cases (findall \\d+|\\D+, _order, _version_cmp_part, _hash_key on arbitrary text incl. non-ASCII digits). "
        "thorough additionally sweeps all pairs of valid strings of length <= 2 over the alphabet.  "
        "non-trivial = both members valid and not the same string")
TRUSTED = ["model coq/Version/Compare.v (+ Parse.v) is a hand transcription of NativeVersion._compare, "
           "_version_cmp_part, _version_cmp_string, _order, the six operators, version_compare and the tuple "
           "hashed by __hash__; tied to the code only by this correspondence",
           "spec coq/Version/Dpkg.v is a hand transcription of dpkg's order()/verrevcmp()/dpkg_version_compare() "
           "and of parseversion's splitting; compared with /usr/bin/dpkg --compare-versions when present",
           "hash(): only the key tuple is modelled; the driver records hash(Version(a)) == hash(Version(b)) and "
           "the model predicts it by key equality (a 61-bit collision or an integer >= 2**61-1 in a key would "
           "show up as a correspondence failure, not as a property failure)"]
ASSUMPTIONS = ["apt_pkg is absent: Version = NativeVersion",
               "int() digit limit (4300 digits) not modelled: generated numbers have < 40 digits",
               "dpkg keeps the epoch in a C int (rejects epochs > 2**31-1); the reference in Dpkg.v is unbounded, "
               "pairs with a larger epoch are not sent to /usr/bin/dpkg",
               "valid version = coq/Version/ParseSpec.v valid_spec (Policy 5.6.12 grammar, C14's reference)"]

ALPH = "019aZ.+-~:"
FAMILIES = [
    ["1.0", "1.00", "0:1.0", "1.0-0", "0:1.0-0", "00:1.0-00", "01.0", "1.0-", "1.000-0"],
    ["1", "1-0", "0:1", "01", "1.", "1.0", "1-", "1~", "1~~", "1~~a", "1~a", "1a", "1+", "1A", "1z", "1.a"],
    ["~", "~~", "~~a", "~a", "a", "a~", "", "0", "00", "a0", "a00", "a01", "a1", "a.", "a+", "aa", "aZ", "Za"],
    ["1:0", "1:00", "01:0", "1:0-0", "2:0", "10:0", "9:0", "1:~", "1:0~", "0:0", "0", "0-0", "0:0-0"],
    ["1.2.3", "1.2.03", "1.2.3-0", "1.2.3-1", "1.2.3-01", "1.2.3-1~", "1.2.3-1~1", "1.2.3-1+b1", "1.2.3-1.1", "1.02.3"],
    ["1-1-1", "1-1", "1-1-01", "1-01-1", "1:1-1:1", "1:1:1", "1:1:01", "1:1-1", "1:1--1"],
    ["9", "10", "09", "010", "9a", "9a1", "9a01", "9a10", "9a9", "9.a", "9+a", "9~a", "9aa", "9a.", "9a+"],
    ["1.0+b1", "1.0+b01", "1.0+b1~", "1.0.b1", "1.0b1", "1.0B1", "1.0+", "1.0.", "1.0~", "1.0~~", "1.0~+", "1.0~."],
]
INVALID = ["", "1.0\n", "1.0-", "-1", "a:1", ":1", "1:", "1 0", "1_0", "٣:1", "1.٣", "1.0-1-", "1:-1", "é", "1.0\n1"]
UDIG = "٣۴९"


def _part(rng, n, alph="019aZ.+~"):
    return "".join(rng.choice(alph) for _ in range(rng.randint(1, n)))


def _number(rng):
    r = rng.random()
    if r < 0.5:
        return str(rng.randint(0, 12))
    if r < 0.8:
        return "0" * rng.randint(1, 3) + str(rng.randint(0, 120))
    return str(rng.randrange(10 ** rng.randint(1, 30)))


def _struct_part(rng, allow):
    """alternating runs, the way real versions look"""
    out = []
    for _ in range(rng.randint(1, 4)):
        if rng.random() < 0.8:
            out.append(_number(rng))
        if rng.random() < 0.7:
            out.append("".join(rng.choice(allow) for _ in range(rng.randint(1, 2))))
    return "".join(out) or "0"


def rand_version(rng):
    r = rng.random()
    if r < 0.25:
        return rng.choice(rng.choice(FAMILIES))
    ep = rng.random() < 0.3
    rev = rng.random() < 0.4
    allow = "aZ.+~" + (":" if ep and rng.random() < 0.3 else "") + ("-" if rev and rng.random() < 0.3 else "")
    if r < 0.6:
        up = _struct_part(rng, allow)
        rv = _struct_part(rng, "aZ.+~") if rev else None
    else:
        up = _part(rng, 6, "019" + allow)
        rv = _part(rng, 4) if rev else None
    s = up
    if ep:
        s = rng.choice(["0", "00", "1", "01", "2", "10", _number(rng)]) + ":" + s
    if rev:
        s = s + "-" + rv
    return s


def mutate(rng, s):
    k = rng.randrange(12)
    i = rng.randint(0, len(s))
    if k == 0:
        return s[:i] + "0" + s[i:]
    if k == 1:
        return s + rng.choice([".0", "-0", "~", "0", ".", "+", "a", "-00", "~~", ".00"])
    if k == 2:
        return ("0:" + s) if ":" not in s else s[s.index(":") + 1:]
    if k == 3 and s:
        j = rng.randrange(len(s))
        return s[:j] + s[j + 1:]
    if k == 4 and s:
        j = rng.randrange(len(s))
        return s[:j] + rng.choice(ALPH) + s[j + 1:]
    if k == 5:
        return s[:i] + rng.choice(ALPH) + s[i:]
    if k == 6:
        return s.replace("0", "", 1)
    if k == 7:
        return s.replace(".", ".0", 1)
    if k == 8:
        return s.swapcase()
    if k == 9:
        return s.replace("~", "", 1) if "~" in s else s + "~"
    if k == 10 and "-" not in s:
        return s + "-" + rng.choice(["0", "00", "1", "0~", "~"])
    return s


def _second(rng, a):
    r = rng.random()
    if r < 0.1:
        return a
    if r < 0.6:
        b = a
        for _ in range(rng.randint(1, 2)):
            b = mutate(rng, b)
        return b
    if r < 0.75:
        for fam in FAMILIES:
            if a in fam:
                return rng.choice(fam)
    return rand_version(rng)


def _rand_text(rng, n=8):
    alph = ALPH + UDIG + " _\né" + "b5"
    return "".join(rng.choice(alph) for _ in range(rng.randint(0, n)))


def generate(rng, n, tier):
    # fixed seeds first: every family against itself (pairs), a few triples
    fixed = []
    for fam in FAMILIES:
        for a, b in itertools.islice(itertools.product(fam, fam), 0, None):
            fixed.append({"kind": "pair", "a": a, "b": b})
    rng.shuffle(fixed)
    quota = n // 3 if tier == "quick" else len(fixed)
    out = fixed[:quota]
    if tier == "thorough":
        small = [""] + ["".join(t) for k in (1, 2) for t in itertools.product("09aZ.+-~:", repeat=k)]
        ok = [s for s in small if _valid(s)]
        for a in ok:
            for b in ok:
                out.append({"kind": "pair", "a": a, "b": b})
    for c in out:
        yield c
    for _ in range(max(0, n - len(out))):
        r = rng.random()
        if r < 0.12:
            yield _hist_case(rng)
            continue
        r = rng.random()
        if r < 0.63:
            a = rand_version(rng)
            yield {"kind": "pair", "a": a, "b": _second(rng, a)}
        elif r < 0.70:
            a, b = rand_version(rng), rng.choice(INVALID + [_rand_text(rng)])
            if rng.random() < 0.5:
                a, b = b, a
            yield {"kind": "pair", "a": a, "b": b}
        elif r < 0.90:
            a = rand_version(rng)
            b = _second(rng, a)
            c = _second(rng, rng.choice([a, b]))
            t = [a, b, c]
            rng.shuffle(t)
            yield {"kind": "triple", "a": t[0], "b": t[1], "c": t[2]}
        elif r < 0.925:
            yield {"kind": "chunks", "s": _rand_text(rng, 10)}
        elif r < 0.94:
            yield {"kind": "order", "c": rng.choice([rng.randrange(128), rng.randrange(0x700), ord(rng.choice(UDIG + ALPH))])}
        elif r < 0.975:
            f = lambda: "".join(rng.choice(ALPH + UDIG + "b5 _") for _ in range(rng.randint(0, 7)))
            a = f()
            yield {"kind": "part", "a": a, "b": rng.choice([a, mutate(rng, a), f()])}
        else:
            yield {"kind": "hashkey", "s": rng.choice([_rand_text(rng, 10), rand_version(rng)])}


ATTRS = ["full_version", "epoch", "upstream_version", "debian_revision", "debian_version"]


def _hist_ops(rng, start):
    """A history of assignments on an object that starts as [start]: accepted ones, rejected ones (the
    object must stay as it was), respellings that keep the value equal, None for the optional parts."""
    ops = []
    for _ in range(rng.choice([0, 1, 1, 2, 2, 3, 4])):
        attr = rng.choice(ATTRS)
        r = rng.random()
        if attr == "full_version":
            if r < 0.45:
                v = rand_version(rng)
            elif r < 0.7:
                v = mutate(rng, start)
            else:   # passes the regex but breaks the colon / hyphen rule, or plain invalid
                v = rng.choice(["2.0:1", "2.0-", "1:2:3-", "a:1", "1.0-1-", "-1", "", "1 0", "3:", start + "-",
                                start + ":1", "0:" + start + "-"])
        elif attr == "epoch":
            v = rng.choice([None, None, "0", "00", "1", "01", "2", "x", "", "1:", "-1", _number(rng)])
        elif attr == "upstream_version":
            v = rng.choice([rand_version(rng).split(":")[-1].split("-")[0], "1.0", "1.00", "2-", "2:0", "x:y", "",
                            None, "1.0~rc1", "1.0-1", _part(rng, 4, "019aZ.+~:-")])
        else:
            v = rng.choice([None, None, "", "0", "00", "1", "01", "1~", "2-", "-", "1-1", "a b", _part(rng, 3)])
        ops.append([attr, v])
    return ops


def _hist_case(rng):
    a = rand_version(rng) if rng.random() < 0.9 else rng.choice(INVALID)
    b = _second(rng, a) if rng.random() < 0.8 else rand_version(rng)
    return {"kind": "hist", "a": a, "aops": _hist_ops(rng, a), "b": b,
            "bops": _hist_ops(rng, b) if rng.random() < 0.6 else []}


def _valid(s):
    """harness-side copy of the grammar, used only to steer generation"""
    import re
    m = re.fullmatch(r"(?:([0-9]+):)?([A-Za-z0-9.+:~-]+?)(?:-([A-Za-z0-9+.~]+))?", s)
    if not m:
        return False
    if m.group(1) is None and ":" in m.group(2):
        return False
    if m.group(3) is None and "-" in m.group(2):
        return False
    return True


def from_json(j):
    return j


def _ops(x, y):
    return [x < y, x <= y, x == y, x != y, x >= y, x > y]


def run_impl(case):
    from debian import debian_support as ds
    k = case["kind"]
    if k == "pair":
        a, b = case["a"], case["b"]
        try:
            va = ds.Version(a)
            vb = ds.Version(b)
        except Exception as e:
            return {"err": err_kind(e)}
        try:
            return {"ab": _ops(va, vb), "ba": _ops(vb, va),
                    "vc_ab": ds.version_compare(a, b), "vc_ba": ds.version_compare(b, a),
                    "hash_eq": hash(va) == hash(vb)}
        except Exception as e:
            return {"err": err_kind(e)}
    if k == "hist":
        try:
            va = ds.Version(case["a"])
            vb = ds.Version(case["b"])
        except Exception as e:
            return {"err": err_kind(e)}
        res = {}
        for nm, v, ops in (("a", va, case["aops"]), ("b", vb, case["bops"])):
            hash(v)     # anything memoised on the object is memoised now
            errs = []
            for attr, val in ops:
                try:
                    setattr(v, attr, val)
                    errs.append(None)
                except Exception as e:
                    errs.append(err_kind(e))
                hash(v)
            res[nm + "errs"] = errs
        try:
            res["astr"], res["bstr"] = str(va), str(vb)
            res["ab"] = _ops(va, vb)
            res["hash_eq"] = hash(va) == hash(vb)
            for nm, v in (("a", va), ("b", vb)):
                w = ds.Version(str(v))
                res[nm + "fresh"] = [v == w, hash(v) == hash(w)]
        except Exception as e:
            return {"err": err_kind(e)}
        return res
    if k == "triple":
        out = []
        for x, y in (("a", "b"), ("b", "c"), ("a", "c")):
            try:
                out.append({"ok": ds.version_compare(case[x], case[y])})
            except Exception as e:
                out.append({"err": err_kind(e)})
        return {"r": out}
    if k == "chunks":
        return {"chunks": ds.NativeVersion.re_all_digits_or_not.findall(case["s"])}
    if k == "order":
        return {"o": ds.NativeVersion._order(chr(case["c"]))}
    if k == "part":
        return {"r": ds.NativeVersion._version_cmp_part(case["a"], case["b"])}
    if k == "hashkey":
        f = getattr(ds.BaseVersion, "_hash_key", None)
        if f is None:
            return {"absent": True}
        return {"key": [[x, y] for x, y in f(case["s"])]}
    if k == "dpkg":
        return {"rel": case["rel"]}
    raise ValueError(k)


def _res_z(r):
    return "(Ok %s)" % cq_Z(r["ok"]) if "ok" in r else "(Err %s)" % r["err"]


def _ops_term(o):
    return "(mkOps %s)" % " ".join(cq_bool(x) for x in o)


def emit(case, obs):
    k = case["kind"]
    if k == "pair":
        if "err" in obs:
            o = "(Err %s)" % obs["err"]
        else:
            o = "(Ok (mkP %s %s %s %s %s))" % (_ops_term(obs["ab"]), _ops_term(obs["ba"]),
                                               cq_Z(obs["vc_ab"]), cq_Z(obs["vc_ba"]), cq_bool(obs["hash_eq"]))
        return "CPair %s %s %s" % (cq_str(case["a"]), cq_str(case["b"]), o)
    if k == "hist":
        def ops_t(ops):
            return cq_list(["(%s, %s)" % (cq_str(a), core.cq_opt(v, cq_str)) for a, v in ops])

        def errs_t(es):
            return cq_list([core.cq_opt(e) for e in es])
        if "err" in obs:
            o = "(Err %s)" % obs["err"]
        else:
            o = "(Ok (mkH %s %s %s %s %s %s (%s, %s) (%s, %s)))" % (
                errs_t(obs["aerrs"]), errs_t(obs["berrs"]), cq_str(obs["astr"]), cq_str(obs["bstr"]),
                _ops_term(obs["ab"]), cq_bool(obs["hash_eq"]),
                cq_bool(obs["afresh"][0]), cq_bool(obs["afresh"][1]),
                cq_bool(obs["bfresh"][0]), cq_bool(obs["bfresh"][1]))
        return "CHist %s %s %s %s %s" % (cq_str(case["a"]), ops_t(case["aops"]), cq_str(case["b"]),
                                         ops_t(case["bops"]), o)
    if k == "triple":
        return "CTriple %s %s %s %s" % (cq_str(case["a"]), cq_str(case["b"]), cq_str(case["c"]),
                                        " ".join(_res_z(r) for r in obs["r"]))
    if k == "chunks":
        return "CChunks %s %s" % (cq_str(case["s"]), cq_strs(obs["chunks"]))
    if k == "order":
        return "COrder %s %s" % (cq_N(case["c"]), cq_Z(obs["o"]))
    if k == "part":
        return "CPart %s %s %s" % (cq_str(case["a"]), cq_str(case["b"]), cq_Z(obs["r"]))
    if k == "hashkey":
        if obs.get("absent"):
            # nothing to compare on a tree without _hash_key: a trivially agreeing leaf
            return "COrder 126%N (-1)%Z"
        return "CHashKey %s %s" % (cq_str(case["s"]),
                                   cq_list(["(%s, %s)" % (cq_str(x), cq_N(y)) for x, y in obs["key"]]))
    if k == "dpkg":
        return "CDpkg %s %s %s" % (cq_str(case["a"]), cq_str(case["b"]), cq_Z(case["rel"]))
    raise ValueError(k)


def classify(case, obs):
    k = case["kind"]
    if k == "pair":
        if "err" in obs:
            return "pair/" + obs["err"]
        rel = {-1: "lt", 0: "eq", 1: "gt"}.get(obs["vc_ab"], "?")
        tags = []
        if rel == "eq":
            tags.append("same" if case["a"] == case["b"] else "respelled")
        if "~" in case["a"] + case["b"]:
            tags.append("tilde")
        if ":" in case["a"] or ":" in case["b"]:
            tags.append("epoch")
        if "-" in case["a"] or "-" in case["b"]:
            tags.append("rev")
        return "pair/%s/%s" % (rel, "+".join(tags) or "plain")
    if k == "hist":
        if "err" in obs:
            return "hist/" + obs["err"]
        es = obs["aerrs"] + obs["berrs"]
        return "hist/%s/%s" % ("none" if not es else "accepted" if all(e is None for e in es) else
                               "rejected" if all(e is not None for e in es) else "mixed",
                               "eq" if obs["ab"][2] else "ne")
    if k == "triple":
        return "triple/" + "".join({-1: "<", 0: "=", 1: ">"}.get(r.get("ok"), "E") for r in obs["r"])
    return "leaf/" + k


def nontrivial(case, obs):
    k = case["kind"]
    if k == "hist":
        return "err" not in obs and bool(case["aops"] or case["bops"])
    if k == "pair":
        return "err" not in obs and case["a"] != case["b"]
    if k == "triple":
        return all("ok" in r for r in obs["r"]) and len({case["a"], case["b"], case["c"]}) == 3
    return True


def shrink(case):
    k = case["kind"]
    if k == "hist":
        for key in ("aops", "bops"):
            for i in range(len(case[key])):
                c = dict(case)
                c[key] = case[key][:i] + case[key][i + 1:]
                yield c
    keys = {"pair": ["a", "b"], "triple": ["a", "b", "c"], "part": ["a", "b"], "chunks": ["s"],
            "hashkey": ["s"], "hist": ["a", "b"]}.get(k, [])
    for key in keys:
        s = case[key]
        for i in range(len(s)):
            yield dict(case, **{key: s[:i] + s[i + 1:]})
    for key in keys:
        s = case[key]
        for i in range(len(s)):
            if s[i] not in "01a":
                for r in "01a":
                    yield dict(case, **{key: s[:i] + r + s[i + 1:]})


def neighbours(case, rng):
    k = case["kind"]
    if k in ("pair", "triple"):
        keys = ["a", "b"] + (["c"] if k == "triple" else [])
        for key in keys:
            s = case[key]
            for i in range(len(s) + 1):
                for ch in ALPH:
                    yield dict(case, **{key: s[:i] + ch + s[i:]})
            for i in range(len(s)):
                yield dict(case, **{key: s[:i] + s[i + 1:]})


def describe(case, obs):
    k = case["kind"]
    if k == "pair":
        return {"call": "Version(a) <op> Version(b) for the six operators both ways, version_compare(a,b), "
                        "version_compare(b,a), hash(Version(a)) == hash(Version(b))",
                "a": case["a"], "b": case["b"], "observed": obs,
                "observed_order": "[lt, le, eq, ne, ge, gt]",
                "specified": "sign of dpkg's comparison (coq/Version/Dpkg.v dpkg_compare) for every operator, "
                             "negated when swapped, and hash equality whenever dpkg says equal"}
    if k == "triple":
        return {"call": "version_compare on (a,b), (b,c), (a,c)", "a": case["a"], "b": case["b"], "c": case["c"],
                "observed": obs, "specified": "each equals dpkg's sign; transitivity on the triple"}
    return {"leaf": k, "case": case, "observed": obs}


# ---------------------------------------------------------------------------
# the spec against the real dpkg

def _dpkg_rel(a, b):
    def q(op):
        return subprocess.run(["/usr/bin/dpkg", "--compare-versions", a, op, b],
                              stdout=subprocess.DEVNULL, stderr=subprocess.DEVNULL).returncode
    if q("lt") == 0:
        return -1
    if q("eq") == 0:
        return 0
    if q("gt") == 0:
        return 1
    return None


def spec_selftest(items, scratch, tier):
    if not os.path.exists("/usr/bin/dpkg"):
        return {"compared": 0, "oracle": "absent: /usr/bin/dpkg"}
    want = 2500 if tier == "thorough" else 250
    pairs, seen = [], set()
    for case, obs in items:
        if case["kind"] != "pair" or "err" in obs:
            continue
        a, b = case["a"], case["b"]
        if not (_valid(a) and _valid(b)) or a.startswith("-") or b.startswith("-") or (a, b) in seen:
            continue
        if any(":" in x and int(x.split(":")[0]) > 2 ** 31 - 1 for x in (a, b)):
            continue        # dpkg stores the epoch in a C int and rejects larger ones
        seen.add((a, b))
        pairs.append((a, b))
    # an even spread over the run, equal pairs included
    step = max(1, len(pairs) // want)
    pairs = pairs[::step][:want]
    cases = []
    for a, b in pairs:
        rel = _dpkg_rel(a, b)
        if rel is None:
            return {"compared": 0, "disagreements": [{"a": a, "b": b, "problem": "dpkg gave no verdict"}]}
        cases.append({"kind": "dpkg", "a": a, "b": b, "rel": rel})
    import sys
    mod = sys.modules[__name__]
    ab, _, errs = core.evaluate(mod, scratch, [(c, {"rel": c["rel"]}) for c in cases], tag="dpkg")
    dis = [{"a": cases[i]["a"], "b": cases[i]["b"], "dpkg": cases[i]["rel"],
            "problem": "coq/Version/Dpkg.v dpkg_compare differs from /usr/bin/dpkg"} for i in ab]
    if errs:
        dis.append({"problem": "spec shard failed to evaluate", "detail": errs[:1]})
    return {"compared": len(cases), "oracle": "/usr/bin/dpkg --compare-versions", "disagreements": dis}


# ---------------------------------------------------------------------------------------------------
# Control flow regenerated from the source on every run (harness/py2coq.py): coq/Gen/TrVersionCmp.v.
# coq/Version/Tie.v proves the regenerated functions equal to the model functions on all inputs.
from harness import extract, py2coq as _P   # noqa: E402

TR_MODULE = _P.Module(
    "TrVersionCmp", vc.SRC,
    funs=[
        _P.Fun("tr_order", "NativeVersion._order", [("x", "char")], "Z", skip_first=True),
        _P.Fun("tr_version_cmp_string", "NativeVersion._version_cmp_string", [("va", "str"), ("vb", "str")], "Z",
               locals={"la": ("list", "Z"), "lb": ("list", "Z"), "a": "Z", "b": "Z"},
               fuel={1: "S (length la + length lb)"}, skip_first=True),
        _P.Fun("tr_version_cmp_part", "NativeVersion._version_cmp_part", [("va", "str"), ("vb", "str")], "Z",
               locals={"la": ("list", "str"), "lb": ("list", "str"), "a": "str", "b": "str",
                       "aval": "Z", "bval": "Z", "res": "Z"},
               fuel={1: "S (length la + length lb)"}, skip_first=True),
    ],
    calls={
        "cls.re_digit.match": [_P.Call("trp_re_digit_char", ["char"], "bool")],
        "cls.re_alpha.match": [_P.Call("trp_re_alpha_char", ["char"], "bool")],
        "int": [_P.Call("trp_int_char", ["char"], "Z", True), _P.Call("trp_int_str", ["str"], "Z", True)],
        "cls._order": _P.Call("tr_order", ["char"], "Z", True),
        "cls._version_cmp_string": _P.Call("tr_version_cmp_string", ["str", "str"], "Z", True),
        "cls.re_all_digits_or_not.findall": _P.Call("trp_findall_chunks", ["str"], ("list", "str")),
        "cls.re_digits.match": _P.Call("trp_re_digits", ["str"], "bool"),
    },
    imports=["Version.TrPrims"],
    regexes=[("NativeVersion.re_all_digits_or_not", r"\d+|\D+"), ("NativeVersion.re_digits", r"\d+"),
             ("NativeVersion.re_digit", r"\d"), ("NativeVersion.re_alpha", "[A-Za-z]")])


@extract.register("TrVersionCmp")
def _gen_tr(repo):
    return _P.translate_module(repo, TR_MODULE)
