"""C04 — well-formed changelogs round-trip byte-for-byte through Changelog."""
import os

from harness import core
from harness.core import cq_list, cq_opt, cq_str
from harness.props import clcommon as cl

ID = "C04"
CHECK_MODULE = "Changelog.Check"
PROPS_FILE = "Props/C04.v"
# the printer (ChangeBlock._format / Changelog._format / __str__), add_change and add_trailing_line are regenerated from
# the source and tied to the model in coq/Props/C04Tie.v (spec: harness/props/clcommon.py TR_BLOCK / TR_MODULE)
TIE_FILE = "Props/C04Tie.v"
ANCHORS = [("lib/debian/changelog.py",
            ["parse_changelog", "_format", "_parse_error", "topline", "blankline", "changere", "endline",
             "endline_nodetails", "keyvalue", "value_re"])]
BUDGET = {"quick": 1500, "thorough": 20000}
SHARD = 250
SHARD_IMPORTS = cl.SHARD_IMPORTS
RULE = ("documents drawn from the deb-changelog(5) grammar by harness/props/clcommon.py gen_doc: 1-5 blocks, "
        "optional leading blank lines, package/version/distribution lists over their full character classes "
        "(dots, '+', '~', epochs, upper case), urgency with and without comment, 0-3 extra key=value pairs, "
        "change lines (blank, bracketed, bulleted; '#', ':', ';', '=', non-ASCII incl. astral and CJK, NBSP, "
        "FF/VT/FS/GS/RS/NEL/U+2028/U+2029 inside lines, header- and trailer-looking text when indented), "
        "blank and white-space-only lines inside and between blocks, trailers with empty/odd names and mails "
        "('<', '>' inside), dates with and without day-of-week, one- and two-digit (space padded) days and hours; "
        "each text is given as str, UTF-8 bytes, list of lines (with and without LF) or an open text file; "
        "one case in ten on an object that has already parsed another text (parse_changelog called twice); "
        "plus every fixture changelog of lib/debian/tests in three forms; plus one third of the budget as "
        "regex-leaf cases (seven patterns; seeds, single-edit mutants, random strings; bounded-exhaustive in "
        "the thorough tier).  non-trivial = a grammar case with a change line or an extra pair, a fixture, "
        "or a leaf subject that matches")
TRUSTED = ["tie by regeneration (coq/Props/C04Tie.v): parse_changelog / _parse_error / __init__ / ChangeBlock._format / "
           "Changelog._format / __str__ / add_change / add_trailing_line are regenerated from the source (harness/py2coq.py) and "
           "proved equal to the model for all inputs; trusted there: the translator, coq/Lib/Tr.v, the primitives of "
           "coq/Changelog/TrPrims.v and TrPrimsParse.v (regex leaves = the model's leaves, str/list/dict methods, "
           "ChangeBlock() = empty_block, attribute stores as record updates, warnings as kinds) and the types in clcommon.py",
           "model coq/Changelog/Model.v is a hand transcription of Changelog.parse_changelog / _format "
           "(seven regex leaves included); tied to the code only by this correspondence",
           "the thirteen junk patterns (emacs/vim/cvs/comments/old_format_re1-8) are not modelled: per-case "
           "line->flags tables are computed by the harness from the live compiled patterns",
           "coq/Gen/ClChars.v: [-+0-9a-z.] and [-0-9a-z] under re.IGNORECASE, \\w, key.lower() enumerated by the "
           "running interpreter from the class texts found in the source",
           "Python built-ins as modelled in coq/Lib/PyStr.v (split, strip) and in Model.v (re.split on CR/LF, "
           "text-file iteration; 'not file.strip()' as 'every character is white space')",
           "case literals: harness encoder clcommon.cq_lit (packed UTF-8 in 63-bit integers) and decoder "
           "coq/Changelog/Lit.v declit, compared with coq/Lib/Dec.v dec on sample texts in every run (CLit cases)"]
ASSUMPTIONS = ["UTF-8 decoding of bytes input is the inverse of encoding (bytes form is modelled as the str)",
               "text-file iteration is modelled for CR-free content only (generator never writes CR to a file)",
               "grammar of C04 (coq/Changelog/Spec.v wf_doc): ASCII package/version/distribution/key classes, "
               "one-line fields, no ',' in header free text, RFC-2822 shaped date with single spaces "
               "(two after the comma allowed), LF-terminated lines, no CR"]


def _wf_case(rng, doc, src):
    gen = True
    if rng.random() < 0.06:
        # a version outside the Policy grammar: outside C04 (holds is vacuous), the model must still agree
        rng.choice(doc["blocks"])["version"] = cl.gen_odd_version(rng)
        gen, src = False, "oddversion"
    text = cl.render_doc(doc)
    # one case in ten: the same object has parsed another text before (parse_changelog called twice)
    pre = rng.choice(cl.PRE_TEXTS) if rng.random() < 0.1 else None
    return {"kind": "wf", "text": text, "inp": cl.input_forms(rng, text),
            "gen": cl.expected_attrs(doc) if gen else None, "src": src, "pre": pre}


def generate(rng, n, tier):
    # fixtures first (three forms each)
    for name, text in cl.fixture_texts(core.LIB):
        for form in ("str", "lines", "file"):
            if form == "lines":
                ls = text.split("\n")
                if ls and ls[-1] == "":
                    ls.pop()
                inp = {"form": "lines", "lines": ls}
            else:
                inp = {"form": form, "text": text}
            yield {"kind": "wf", "text": text, "inp": inp, "gen": None, "src": "fixture:" + name}
    n_leaf = n // 3
    n_wf = n - n_leaf
    for k in range(n_wf):
        small = rng.random() < 0.7
        doc = cl.gen_doc(rng, max_blocks=2 if small else 5, small=small)
        yield _wf_case(rng, doc, "grammar")
    for c in cl.gen_leaf_cases(rng, n_leaf):
        yield c
    for c in cl.gen_lit_cases(rng, 30):
        yield c
    if tier == "thorough":
        # the full sweep only with the full thorough budget; a deep run after a source change sweeps shorter strings
        for c in cl.gen_leaf_exhaustive(5 if n >= BUDGET["thorough"] else 3):
            yield c


def from_json(j):
    return j


def run_impl(case):
    if case["kind"] == "lit":
        return {}
    if case["kind"] == "leaf":
        return {"groups": cl.leaf_groups(case["leaf"], case["s"])}
    r, _ = cl.construct(case["inp"], strict=True, pre=case.get("pre"))
    return r


def emit(case, obs):
    if case["kind"] == "leaf":
        return cl.emit_leaf(case, obs)
    if case["kind"] == "lit":
        return cl.emit_lit(case, obs)
    tbl = cl.junk_table(cl.case_lines(case["inp"], obs))

    def build(L):
        gen = cq_opt(case["gen"], lambda g: cq_list([cl.cq_lxblock(x, L) for x in g]))
        return "CWf %s %s %s %s %s" % (L(case["text"]), cl.cq_input(case["inp"], L), gen, cl.cq_tbl(tbl, L),
                                       cl.cq_res(obs, L))
    return cl.with_lits(build)


def classify(case, obs):
    if case["kind"] == "lit":
        return "literal-decoder"
    if case["kind"] == "leaf":
        return "leaf/%s/%s" % (cl.LEAF_NAMES[case["leaf"]], "match" if obs["groups"] is not None else "nomatch")
    src = case["src"].split(":")[0]
    if "err" in obs:
        return "%s/%s/%s" % (src, case["inp"]["form"], obs["err"])
    feats = []
    t = case["text"]
    if any(x in t for x in cl.EXOTIC):
        feats.append("exotic")
    if case["gen"] and any(b["pairs"] for b in case["gen"]):
        feats.append("pairs")
    if case["gen"] and any(b["comment"] for b in case["gen"]):
        feats.append("comment")
    if case.get("pre") is not None:
        feats.append("reparse")
    return "%s/%s/%db%s" % (src, case["inp"]["form"], len(obs["ok"]["blocks"]),
                            ("/" + "+".join(feats)) if feats else "")


def nontrivial(case, obs):
    if case["kind"] == "lit":
        return False
    if case["kind"] == "leaf":
        return obs["groups"] is not None
    if case["gen"] is None:
        return True
    return any(b["changes"] or b["pairs"] for b in case["gen"])


def _with_doc_text(case, text):
    inp = dict(case["inp"])
    if inp["form"] == "lines":
        keep = any(l.endswith("\n") for l in inp["lines"])
        ls = text.split("\n")
        if ls and ls[-1] == "":
            ls.pop()
        inp["lines"] = [l + "\n" for l in ls] if keep else ls
    else:
        inp["text"] = text
    return dict(case, text=text, inp=inp, gen=None)


def shrink(case):
    if case["kind"] in ("leaf", "lit"):
        s = case["s"]
        for i in range(len(s)):
            yield dict(case, s=s[:i] + s[i + 1:])
        return
    # simpler input form first, then fewer lines, then shorter lines
    if case.get("pre") is not None:
        yield dict(case, pre=None)
    if case["inp"]["form"] != "str":
        yield dict(case, inp={"form": "str", "text": case["text"]})
    lines = case["text"].split("\n")
    if lines and lines[-1] == "":
        lines.pop()
    for i in range(len(lines)):
        yield _with_doc_text(case, "".join(l + "\n" for l in lines[:i] + lines[i + 1:]))
    for i, l in enumerate(lines):
        if len(l) > 8:
            for a, b in ((0, len(l) // 2), (len(l) // 2, len(l))):
                yield _with_doc_text(case, "".join(x + "\n" for x in lines[:i] + [l[:a] + l[b:]] + lines[i + 1:]))
        for j in range(len(l)):
            if not (l[j].isalnum() and l[j].isascii()):
                yield _with_doc_text(case, "".join(x + "\n" for x in lines[:i] + [l[:j] + l[j + 1:]] + lines[i + 1:]))


def describe(case, obs):
    if case["kind"] == "lit":
        return {"literal": case["s"], "what": "coq/Changelog/Lit.v declit against coq/Lib/Dec.v dec"}
    if case["kind"] == "leaf":
        return {"leaf": cl.LEAF_NAMES[case["leaf"]], "subject": case["s"], "groups": obs["groups"]}
    return {"call": ("Changelog(<%s>, strict=True); str(); block attributes" % case["inp"]["form"])
            if case.get("pre") is None else
            ("c = Changelog(); c.parse_changelog(pre, strict=False) [errors ignored]; "
             "c.parse_changelog(<%s>, strict=True); str(c); block attributes" % case["inp"]["form"]),
            "pre": case.get("pre"),
            "text": case["text"],
            "specified": "if the text is in the deb-changelog grammar (Spec.wf_changelog): no exception, no warning, "
                         "str() == text, blocks expose exactly the written attributes",
            "observed": obs}
