"""Compact case literals (see coq/Deb822/Packed.v): a case is a tree of strings,
serialised over 7-bit symbols and packed nine to a primitive 63-bit integer."""
from harness.extract import coq_string

OPEN, CLOSE, END = "\x01", "\x02", "\x03"


def ser(x):
    """str -> atom; bool -> "T"/"F"; int -> decimal atom; None -> empty node;
    list/tuple -> node.  (Some x) is written as [x] by the caller via some()."""
    if isinstance(x, bool):
        return ("T" if x else "F") + END
    if isinstance(x, int):
        if x < 0:
            raise ValueError("negative number in a packed case")
        return str(x) + END
    if isinstance(x, str):
        return coq_string(x)[1:-1] + END
    if x is None:
        return OPEN + CLOSE
    if isinstance(x, (list, tuple)):
        return OPEN + "".join(ser(e) for e in x) + CLOSE
    raise TypeError("cannot pack %r" % type(x))


def some(x):
    return [x]


def ok(x):
    return ["O", x]


def err(kind):
    return ["E", kind]


def pack(tree):
    """Coq term of type [list int]."""
    text = ser(tree)
    out = []
    for i in range(0, len(text), 9):
        v = 0
        for k, ch in enumerate(text[i:i + 9]):
            c = ord(ch)
            if not 0 < c < 128:
                raise ValueError("symbol out of range")
            v |= c << (7 * k)
        out.append(str(v))
    return "[" + ";".join(out) + "]%uint63"
