"""C20 — the debtags database keeps its two indexes mutually inverse (debian.debtags.DB)."""
import itertools
import os
import re
import shutil
import tempfile

from harness import core
from harness.core import cq_bool, cq_list, cq_nat, cq_opt, cq_str, cq_strs, err_kind

ID = "C20"
CHECK_MODULE = "Debtags.Check"
PROPS_FILE = "Props/C20.v"
ANCHORS = [("lib/debian/debtags.py",
            ["parse_tags", "read_tag_database", "read_tag_database_reversed",
             "read_tag_database_both_ways", "reverse", "DB"])]
BUDGET = {"quick": 2200, "thorough": 14000}
SHARD = 120
SHARD_IMPORTS = "From Coq Require Import Uint63."
RULE = ("histories over several live DB objects: DB(), read() of a tag file rendered from records "
        "(distinct package names, multi-package lines, optional tag_filter, layout variants), insert(), "
        "and every derivation (copy, reverse, reverse_copy, choose_packages[_copy], filter_packages[_copy], "
        "filter_packages_tags[_copy], filter_tags[_copy], facet_collection) applied to any live object, "
        "inserts into sources and results of derivations alike; after EVERY operation EVERY live object is "
        "asked iter_packages_tags, iter_tags_packages, package_count, tag_count and, for every name of the "
        "case plus the characters of inserted names plus an absent name, has_package, has_tag, "
        "tags_of_package, packages_of_tag, card.  Stream 'free': no step executes K1's trigger (names of "
        "length 1, or every tag already in rdb) - the full property must hold.  Stream 'k1': unrestricted; a "
        "failure of the property is accepted only when Debtags.Check.k1_explained holds for the (shrunk) "
        "case.  A few histories leave the property's domain on purpose (repeated package in a file, "
        "re-insert of a known package, insert into a collection that shares sets): the Spec stops "
        "specifying the objects concerned, the model is still compared on all of them.  Leaf streams: "
        "parse_tags on single lines (bounded-exhaustive over a 6-symbol alphabet + random), the facet "
        "regex through facet_collection, read_tag_database/read_tag_database_reversed/reverse.  "
        "non-trivial = history with >= 1 insert or derivation after the first read, or a leaf case")
TRUSTED = ["model coq/Debtags/Model.v is a hand transcription of debtags.py (heap layer: set and dict objects "
           "with references; leaves for the parse_tags and facet regexes); tied to the code by this correspondence — and, "
           "since the tie by regeneration (coq/Props/C20Tie.v), every model function that `agree` runs for parse_tags, "
           "the three readers, reverse, and every step of hstep (DB(), read, insert with K1, reverse, copy, reverse_copy, "
           "choose_packages[_copy], the six filters, facet_collection) and every query is PROVED equal to the function "
           "regenerated from the source (coq/Gen/TrDebtags*.v); still tied by the correspondence only: the two regex "
           "leaves (parse_line, facet) and split(', ')",
           "for the tie: harness/py2coq.py's rendering of each construct and the types given in the TR_MODULE* specs of "
           "this file; sets and dicts BY VALUE while they have one name (typed: only a freshly made set may be stored into "
           "a dict; a dict stored into an object may not be changed afterwards), set and dict objects that are shared as "
           "references into the model's heap (coq/Debtags/TrPrims.v, TrHeapPrims.v, TrDerivePrims.v: each primitive defined "
           "from the model's own functions); `for x in <set>` over the model's canonical order (order independence is proved "
           "for the loop bodies of the readers, reverse and insert at the level of the value of the dict, see Props/C20Tie.v; "
           "output() prints in that order); the caller's `tags` argument of insert is a set of its own; DB() followed by "
           "assignments to both attributes is the blank object (the two empty dicts of __init__ become garbage, which the "
           "model's heap does not contain); callbacks are pure total functions; a generator is the list it yields",
           "Python set/dict semantics as modelled: sets = sorted duplicate-free lists, dicts = association lists; "
           "iteration order of sets is not modelled (results are compared as sorted lists); the iteration order of "
           "self.db in facet_collection is read from the implementation (iter_packages()) and given to the model",
           "K1 trigger executions are observed by wrapping DB.insert in the harness (the wrapper calls the original)"]
ASSUMPTIONS = ["filter callbacks are pure (they only inspect their argument)",
               "names are arbitrary str; file records use names without ', ', ': ', leading/trailing white space or a final colon",
               "pickle-based qread/qwrite, output()/dump(), ideal_tagset, correlations, discriminance, "
               "tags_of_packages/packages_of_tags are not covered"]

# ---------------------------------------------------------------------------
# names

SINGLE = ["a", "b", "c", "p", "k", "g", "t", "é"]
# (names with blanks arise from irregular spacing in a tag file: "a,  b: x" names the package " b";
#  whatever the reader makes of them, both indexes must agree on it)
MULTI = ["pkg", "ab", "kg", "libfoo", "a-b", "pp", "tt", "été", " b", " lead", "in ner", "\tq"]
TAGS = ["t", "u", "x", "role::program", "role::shared-lib", "use::editing", "use::", "ab", "a:b",
        "f::a", "::x", "a", "p", "role", "uu"]
ABSENT = "zz-absent"

DERIV = ["copy", "reverse", "reverse_copy", "choose_packages", "choose_packages_copy",
         "filter_packages", "filter_packages_copy", "filter_packages_tags", "filter_packages_tags_copy",
         "filter_tags", "filter_tags_copy", "facet_collection"]
SHARING = {"reverse", "choose_packages", "filter_packages", "filter_packages_tags", "filter_tags"}


# ---------------------------------------------------------------------------
# predicates (data) and their Python meaning

def pred_fn(p):
    k = p[0]
    if k == "true":
        return lambda s: True
    if k == "false":
        return lambda s: False
    if k == "in":
        l = list(p[1])
        return lambda s: s in l
    if k == "notin":
        l = list(p[1])
        return lambda s: s not in l
    if k == "lenle":
        n = p[1]
        return lambda s: len(s) <= n
    if k == "prefix":
        pre = p[1]
        return lambda s: s.startswith(pre)
    raise ValueError(p)


def ptpred_fn(g):
    k = g[0]
    if k == "pkg":
        f = pred_fn(g[1])
        return lambda pt: f(pt[0])
    if k == "hastag":
        t = g[1]
        return lambda pt: t in pt[1]
    if k == "notag":
        t = g[1]
        return lambda pt: t not in pt[1]
    if k == "ntags_ge":
        n = g[1]
        return lambda pt: len(pt[1]) >= n
    raise ValueError(g)


def cq_pred(p):
    k = p[0]
    if k == "true":
        return "PTrue"
    if k == "false":
        return "PFalse"
    if k == "in":
        return "(PIn %s)" % cq_strs(p[1])
    if k == "notin":
        return "(PNotIn %s)" % cq_strs(p[1])
    if k == "lenle":
        return "(PLenLe %s)" % cq_nat(p[1])
    if k == "prefix":
        return "(PPrefix %s)" % cq_str(p[1])
    raise ValueError(p)


def cq_ptpred(g):
    k = g[0]
    if k == "pkg":
        return "(PTPkg %s)" % cq_pred(g[1])
    if k == "hastag":
        return "(PTHasTag %s)" % cq_str(g[1])
    if k == "notag":
        return "(PTNoTag %s)" % cq_str(g[1])
    if k == "ntags_ge":
        return "(PTNTagsGe %s)" % cq_nat(g[1])
    raise ValueError(g)


# ---------------------------------------------------------------------------
# a reference in Python (sets of pairs) — used only to steer the generator

def facet_py(t):
    return re.sub(r"^([^:]+).+", r"\1", t)


class Ref:
    def __init__(self, P=(), T=(), R=(), valid=True, grp=0):
        self.P, self.T, self.R = set(P), set(T), set(R)
        self.valid, self.grp = valid, grp

    def tags_of(self, p):
        return {t for (q, t) in self.R if q == p}

    def derive(self, kind, arg=None):
        P, T, R = self.P, self.T, self.R
        if kind in ("copy",):
            return set(P), set(T), set(R)
        if kind in ("reverse", "reverse_copy"):
            return set(T), set(P), {(t, p) for (p, t) in R}
        if kind in ("choose_packages", "choose_packages_copy"):
            keep = {p for p in P if p in arg}
        elif kind in ("filter_packages", "filter_packages_copy"):
            f = pred_fn(arg)
            keep = {p for p in P if f(p)}
        elif kind in ("filter_packages_tags", "filter_packages_tags_copy"):
            g = ptpred_fn(arg)
            keep = {p for p in P if g((p, self.tags_of(p)))}
        elif kind in ("filter_tags", "filter_tags_copy"):
            f = pred_fn(arg)
            R2 = {(p, t) for (p, t) in R if f(t)}
            return {p for (p, t) in R2}, {t for t in T if f(t)}, R2
        elif kind == "facet_collection":
            R2 = {(p, facet_py(t)) for (p, t) in R}
            return set(P), {t for (_, t) in R2}, R2
        else:
            raise ValueError(kind)
        R2 = {(p, t) for (p, t) in R if p in keep}
        return keep, {t for (_, t) in R2}, R2


# ---------------------------------------------------------------------------
# generator

def render_line(rng, pkgs, tags):
    head = ", ".join(pkgs)
    if tags:
        sep = rng.choice([": ", ": ", ": ", ":  ", ":\t"])
        line = head + sep + ", ".join(tags)
    else:
        line = head + rng.choice(["", ":", ": "])
    return line + rng.choice(["\n", "\n", "\n", "", " \n", "\r\n"])


def gen_records(rng, pk_pool, tg_pool, distinct=True):
    pool = list(pk_pool)
    rng.shuffle(pool)
    recs = []
    while pool and len(recs) < 5 and rng.random() < 0.85:
        n = 1 if rng.random() < 0.7 else rng.randint(2, 3)
        pkgs, pool = pool[:n], pool[n:]
        k = rng.choice([0, 1, 1, 2, 2, 3])
        tags = rng.sample(tg_pool, min(k, len(tg_pool)))
        recs.append([pkgs, tags])
    if not distinct and recs:
        # a package named twice: outside the property's domain
        recs.append([[recs[0][0][0]], rng.sample(tg_pool, min(1, len(tg_pool)))])
    return recs


def gen_pred(rng, names):
    r = rng.random()
    names = list(names) or ["a"]
    if r < 0.45:
        return ["in", rng.sample(names, rng.randint(0, min(3, len(names))))]
    if r < 0.7:
        return ["notin", rng.sample(names, rng.randint(0, min(2, len(names))))]
    if r < 0.8:
        return ["lenle", rng.choice([0, 1, 2, 3])]
    if r < 0.9:
        return ["prefix", rng.choice(names)[:rng.randint(0, 2)]]
    return [rng.choice(["true", "false"])]


def gen_ptpred(rng, pnames, tnames):
    r = rng.random()
    tnames = list(tnames) or ["t"]
    if r < 0.4:
        return ["hastag", rng.choice(tnames)]
    if r < 0.65:
        return ["notag", rng.choice(tnames)]
    if r < 0.8:
        return ["ntags_ge", rng.choice([0, 1, 2])]
    return ["pkg", gen_pred(rng, pnames)]


def gen_history(rng, stream, tier):
    free = stream == "free"
    all_single = rng.random() < (0.45 if free else 0.15)
    pk_pool = rng.sample(SINGLE, rng.randint(3, 5)) if all_single else \
        rng.sample(SINGLE, rng.randint(1, 3)) + rng.sample(MULTI, rng.randint(1, 3))
    tg_pool = rng.sample(TAGS, rng.randint(2, 5))
    out_of_domain = rng.random() < 0.06
    ops, refs = [], []
    next_grp = [0]

    def fresh_grp():
        next_grp[0] += 1
        return next_grp[0]

    def do_read(o, distinct=True):
        tf = gen_pred(rng, tg_pool) if rng.random() < 0.15 else None
        recs = gen_records(rng, pk_pool, tg_pool, distinct)
        lines = [render_line(rng, p, t) for p, t in recs]
        if rng.random() < 0.2:
            lines.insert(rng.randint(0, len(lines)), rng.choice(["\n", ""]))
        ops.append({"op": "read", "obj": o, "lines": lines, "tf": tf, "recs": recs})
        f = pred_fn(tf) if tf else (lambda t: True)
        R = {(p, t) for pk, tg in recs for p in pk for t in tg if f(t)}
        seen, ok = set(), True
        for pk, _ in recs:
            if seen & set(pk):
                ok = False
            seen |= set(pk)
        refs[o] = Ref(seen, {t for _, t in R}, R, ok, fresh_grp())

    ops.append({"op": "new"})
    refs.append(Ref(grp=fresh_grp()))
    if rng.random() < 0.85:
        do_read(0, distinct=not (out_of_domain and rng.random() < 0.5))
    nops = rng.randint(1, 7 if tier == "quick" else 10)
    last_src = None
    for _ in range(nops):
        # target: any live object, with a bias to the two ends of the last derivation
        if last_src is not None and rng.random() < 0.55:
            o = rng.choice([last_src, len(refs) - 1])
        else:
            o = rng.randrange(len(refs))
        x = refs[o]
        r = rng.random()
        if r < 0.42 or len(refs) >= 7:
            # ---- insert
            cand = [n for n in SINGLE + MULTI + tg_pool + [""] if n not in x.P]
            known = sorted(x.P)
            refresh = out_of_domain and known and rng.random() < 0.3
            pkg = rng.choice(known) if refresh else rng.choice(
                [n for n in cand if n in pk_pool or n in tg_pool] or cand)
            if rng.random() < 0.15:
                pkg = rng.choice(cand)
            tagsrc = sorted(x.T) + tg_pool + (sorted(x.T) if rng.random() < 0.5 else pk_pool)
            tags = sorted(set(rng.sample(tagsrc, min(len(tagsrc), rng.choice([0, 1, 1, 2, 2, 3])))))
            if free and len(pkg) != 1:
                # no trigger: only tags the collection already has (and only on objects whose
                # real state the reference still describes)
                if not x.valid:
                    pkg = rng.choice([n for n in SINGLE if n not in x.P] or ["q"])
                else:
                    tags = [t for t in tags if t in x.T] or sorted(x.T)[:1]
            ops.append({"op": "insert", "obj": o, "pkg": pkg, "tags": tags})
            for y in refs:
                if y is not x and y.grp == x.grp:
                    y.valid = False
            if pkg in x.P:
                x.valid = False
            x.P.add(pkg)
            x.T |= set(tags)
            x.R |= {(pkg, t) for t in tags}
        elif r < 0.46:
            do_read(o)
            last_src = None
        elif r < 0.48:
            ops.append({"op": "new"})
            refs.append(Ref(grp=fresh_grp()))
        else:
            kind = rng.choice(DERIV)
            arg = None
            if kind.startswith("choose_packages"):
                names = sorted(x.P)
                arg = rng.sample(names, rng.randint(0, min(3, len(names)))) if x.valid else []
                if kind == "choose_packages" or (x.valid and rng.random() < 0.15):
                    if rng.random() < 0.4:
                        arg.append(rng.choice(pk_pool + [ABSENT]))
                if rng.random() < 0.2 and arg:
                    arg.append(arg[0])
            elif kind.startswith("filter_packages_tags"):
                arg = gen_ptpred(rng, sorted(x.P) + pk_pool, sorted(x.T) + tg_pool)
            elif kind.startswith("filter_packages"):
                arg = gen_pred(rng, sorted(x.P) + pk_pool)
            elif kind.startswith("filter_tags"):
                arg = gen_pred(rng, sorted(x.T) + tg_pool)
            if kind == "facet_collection" and free:
                if not x.valid or any(len(p) != 1 and x.tags_of(p) for p in x.P):
                    kind = "copy"
            if kind == "choose_packages_copy" and any(p not in x.P for p in arg):
                ops.append({"op": kind, "obj": o, "arg": arg})     # raises KeyError: no new object
                continue
            P, T, R = x.derive(kind, arg)
            op = {"op": kind, "obj": o}
            if arg is not None:
                op["arg"] = arg
            ops.append(op)
            refs.append(Ref(P, T, R, x.valid, x.grp if kind in SHARING else fresh_grp()))
            last_src = o
    return {"kind": "hist", "stream": stream, "ops": ops}


PARSE_ALPH = ["a", ":", " ", ",", "\n", "b"]
FACET_ALPH = ["a", ":", "\n", "b"]


def _words(alph, maxlen):
    for n in range(maxlen + 1):
        for tup in itertools.product(alph, repeat=n):
            yield "".join(tup)


def generate(rng, n, tier):
    quick = tier != "thorough"
    # fixed patterns first (also kept in corpus/C20)
    # --- leaves: bounded-exhaustive
    n_leaf = 0
    for w in _words(PARSE_ALPH, 4 if quick else 5):
        n_leaf += 1
        yield {"kind": "parse", "line": w}
    for w in _words(FACET_ALPH, 4 if quick else 6):
        n_leaf += 1
        yield {"kind": "facet", "tag": w}
    rest = max(200, n - n_leaf // 6)        # leaf cases cost about a sixth of a history
    n_free = int(rest * 0.62)
    n_k1 = 36 if quick else int(rest * 0.10)
    n_rand_leaf = int(rest * 0.25)
    for _ in range(n_free):
        yield gen_history(rng, "free", tier)
    for _ in range(n_rand_leaf):
        r = rng.random()
        if r < 0.45:
            alph = ["a", "b", ":", " ", ",", ", ", ": ", "\n", "\t", "\r", "\xa0", "\x1c", "é", "-", "::", "\x85", "　"]
            yield {"kind": "parse", "line": "".join(rng.choice(alph) for _ in range(rng.randint(0, 12)))}
        elif r < 0.65:
            alph = ["a", "b", ":", "::", "\n", " ", "é", "role", "-"]
            yield {"kind": "facet", "tag": "".join(rng.choice(alph) for _ in range(rng.randint(0, 7)))}
        else:
            recs = gen_records(rng, rng.sample(SINGLE + MULTI, 5), rng.sample(TAGS, 4), distinct=rng.random() < 0.7)
            lines = [render_line(rng, p, t) for p, t in recs]
            if rng.random() < 0.3:
                lines.insert(rng.randint(0, len(lines)), rng.choice(["\n", "", " \n", "a:b\n", "x y: t\n", ": t\n"]))
            yield {"kind": "readfns", "lines": lines}
    for _ in range(n_k1):
        yield gen_history(rng, "k1", tier)


def from_json(j):
    return j


# ---------------------------------------------------------------------------
# implementation driver

def _readonly_queries(x, probes):
    """Queries that only read must not change anything: the multi-key unions (and the iterators) are run before
    the snapshot is taken, on the present names in two orders, results dropped."""
    pk = [n for n in probes if x.has_package(n)]
    tg = [n for n in probes if x.has_tag(n)]
    for f, keys in ((x.tags_of_packages, pk), (x.packages_of_tags, tg)):
        for ks in (keys, list(reversed(keys)), keys[:2], keys[1:]):
            if ks:
                try:
                    f(ks)
                except Exception:
                    pass
    for it in (x.iter_packages, x.iter_tags, x.iter_packages_tags, x.iter_tags_packages):
        list(it())


def _snap(x, probes):
    _readonly_queries(x, probes)
    return {
        "db": sorted((p, sorted(ts)) for p, ts in x.iter_packages_tags()),
        "rdb": sorted((t, sorted(ps)) for t, ps in x.iter_tags_packages()),
        "pc": x.package_count(), "tc": x.tag_count(),
        "hasp": [bool(x.has_package(n)) for n in probes],
        "hast": [bool(x.has_tag(n)) for n in probes],
        "tags": [sorted(x.tags_of_package(n)) for n in probes],
        "pkgs": [sorted(x.packages_of_tag(n)) for n in probes],
        "card": [x.card(n) for n in probes],
    }


def probes_of(case):
    names = set()
    for op in case["ops"]:
        k = op["op"]
        if k == "read":
            for pk, tg in op["recs"]:
                names |= set(pk) | set(tg)
                for q in pk:
                    names |= set(q)              # K1 through facet_collection stores the characters
            if op.get("tf") and op["tf"][0] in ("in", "notin"):
                names |= set(op["tf"][1])
        elif k == "insert":
            names.add(op["pkg"])
            names |= set(op["tags"])
            names |= set(op["pkg"])              # K1 stores the characters
        elif k.startswith("choose_packages"):
            names |= set(op["arg"])
    # facets of the tags, and the characters of multi-character packages of files
    for n in list(names):
        names.add(facet_py(n))
    names.add(ABSENT)
    return sorted(names)


_SCRATCH_SET = set()


def _apply(DB, objs, op):
    """Runs one operation; returns the new object (or None)."""
    k = op["op"]
    if k == "new":
        return DB()
    x = objs[op["obj"]]
    if k == "read":
        tf = pred_fn(op["tf"]) if op.get("tf") else None
        if tf is None:
            x.read(iter(op["lines"]))
        else:
            x.read(iter(op["lines"]), tf)
        return None
    if k == "insert":
        # the caller keeps and recycles the set it passed (one scratch set per driver run, cleared and refilled),
        # and edits it right after the call: the database must have taken a copy
        s = _SCRATCH_SET
        s.clear()
        s.update(op["tags"])
        x.insert(op["pkg"], s)
        s.add("caller-owned-afterthought")
        s.difference_update(list(op["tags"])[:1])
        return None
    if k in ("copy", "reverse", "reverse_copy", "facet_collection"):
        return getattr(x, k)()
    if k in ("choose_packages", "choose_packages_copy"):
        # any iterable will do (Iterable[str]): a list, a tuple, or a one-shot iterator / generator
        arg = list(op["arg"])
        form = (len(arg) + len("".join(arg))) % 4
        it = arg if form == 0 else tuple(arg) if form == 1 else iter(arg) if form == 2 else (a for a in arg)
        return getattr(x, k)(it)
    if k in ("filter_packages", "filter_packages_copy", "filter_tags", "filter_tags_copy"):
        return getattr(x, k)(pred_fn(op["arg"]))
    if k in ("filter_packages_tags", "filter_packages_tags_copy"):
        return getattr(x, k)(ptpred_fn(op["arg"]))
    raise ValueError(k)


def run_hist(case):
    from debian import debtags
    DB = debtags.DB
    probes = probes_of(case)
    if any(ch in n for n in probes for ch in (GS, RS, US)):
        return {"driver_error": "a name contains a separator of the snapshot encoding"}
    fired = []
    orig = DB.insert

    def traced(self, pkg, tags):
        if len(pkg) != 1 and any(t not in self.rdb for t in tags):
            fired.append(True)
        return orig(self, pkg, tags)

    DB.insert = traced
    try:
        objs, prev, steps = [], [], []
        for op in case["ops"]:
            del fired[:]
            order = None
            err = None
            if op.get("obj") is not None and op["obj"] >= len(objs):
                # an earlier derivation raised (recorded in its step) and created no object, so the generator's
                # numbering dangles from here on: the history ends here (emit zips operations with steps)
                break
            if op["op"] == "facet_collection":
                order = list(objs[op["obj"]].iter_packages())
            try:
                new = _apply(DB, objs, op)
                if new is not None:
                    objs.append(new)
            except Exception as e:
                err = err_kind(e)
            snaps = [_snap(x, probes) for x in objs]
            delta = [[i, s] for i, s in enumerate(snaps) if i >= len(prev) or prev[i] != s]
            prev = snaps
            st = {"err": err, "trig": bool(fired), "delta": delta}
            if order is not None:
                st["order"] = order
            steps.append(st)
    finally:
        DB.insert = orig
    return {"probes": probes, "steps": steps}


def run_impl(case):
    from debian import debtags
    k = case["kind"]
    if k == "hist":
        return run_hist(case)
    if k == "parse":
        got = list(debtags.parse_tags(iter([case["line"]])))
        if not got:
            return {"parsed": None}
        if len(got) != 1:
            return {"driver_error": "more than one record from one line"}
        return {"parsed": [sorted(got[0][0]), sorted(got[0][1])]}
    if k == "facet":
        x = debtags.DB()
        x.insert("p", {case["tag"]})
        got = sorted(x.facet_collection().tags_of_package("p"))
        if len(got) != 1:
            return {"driver_error": "facet of one tag is not one tag"}
        return {"facet": got[0]}
    if k == "readfns":
        db = debtags.read_tag_database(iter(case["lines"]))
        rdb = debtags.read_tag_database_reversed(iter(case["lines"]))
        rv = debtags.reverse(db)
        can = lambda d: sorted((a, sorted(b)) for a, b in d.items())
        return {"db": can(db), "rdb": can(rdb), "rv": can(rv)}
    raise ValueError(k)


# ---------------------------------------------------------------------------
# Coq emitter

def cq_items(items):
    return cq_list(["(%s, %s)" % (cq_str(k), cq_strs(v)) for k, v in items])


GS, RS, US = "|", ";", "/"


def _chr(n):
    if not 0 <= n < 1000:
        raise ValueError("count out of range")
    return chr(48 + n)


def enc_snap(s):
    """one string per snapshot, see coq/Debtags/Check.v [snap]"""
    ent = lambda items: "".join(RS + k + "".join(US + v for v in vs) for k, vs in items)
    sets = lambda ls: "".join(RS + "".join(US + v for v in vs) for vs in ls)
    bits = lambda bs: "".join("1" if b else "0" for b in bs)
    return GS.join([ent(s["db"]), ent(s["rdb"]), _chr(s["pc"]), _chr(s["tc"]), bits(s["hasp"]), bits(s["hast"]),
                    sets(s["tags"]), sets(s["pkgs"]), "".join(_chr(n) for n in s["card"])])


def pack(text):
    """list of 63-bit integers, seven bytes each (see coq/Debtags/Check.v [snap])"""
    bs = []
    for ch in text:
        c = ord(ch)
        if 1 <= c <= 254:
            bs.append(c)
        else:
            bs += [255, (c >> 18) + 1, ((c >> 12) & 63) + 1, ((c >> 6) & 63) + 1, (c & 63) + 1]
    out = []
    for k in range(0, len(bs), 7):
        v = 0
        for j, b in enumerate(bs[k:k + 7]):
            v |= b << (8 * j)
        out.append(str(v))
    return "[" + ";".join(out) + "]%uint63"


def cq_snap(s):
    return pack(enc_snap(s))


def cq_op(op, step):
    k = op["op"]
    if k == "new":
        return "CNew"
    o = cq_nat(op["obj"])
    if k == "read":
        recs = cq_list(["(%s, %s)" % (cq_strs(p), cq_strs(t)) for p, t in op["recs"]])
        return "(CRead %s %s %s %s)" % (o, cq_strs(op["lines"]), cq_opt(op.get("tf"), cq_pred), recs)
    if k == "insert":
        return "(CInsert %s %s %s)" % (o, cq_str(op["pkg"]), cq_strs(op["tags"]))
    if k == "copy":
        return "(CCopy %s)" % o
    if k == "reverse":
        return "(CReverse %s)" % o
    if k == "reverse_copy":
        return "(CReverseCopy %s)" % o
    if k == "choose_packages":
        return "(CChoose %s %s)" % (o, cq_strs(op["arg"]))
    if k == "choose_packages_copy":
        return "(CChooseCopy %s %s)" % (o, cq_strs(op["arg"]))
    if k == "filter_packages":
        return "(CFilterP %s %s)" % (o, cq_pred(op["arg"]))
    if k == "filter_packages_copy":
        return "(CFilterPCopy %s %s)" % (o, cq_pred(op["arg"]))
    if k == "filter_packages_tags":
        return "(CFilterPT %s %s)" % (o, cq_ptpred(op["arg"]))
    if k == "filter_packages_tags_copy":
        return "(CFilterPTCopy %s %s)" % (o, cq_ptpred(op["arg"]))
    if k == "filter_tags":
        return "(CFilterT %s %s)" % (o, cq_pred(op["arg"]))
    if k == "filter_tags_copy":
        return "(CFilterTCopy %s %s)" % (o, cq_pred(op["arg"]))
    if k == "facet_collection":
        return "(CFacet %s %s)" % (o, cq_strs(step.get("order", [])))
    raise ValueError(k)


def emit(case, obs):
    k = case["kind"]
    if k == "parse":
        p = obs["parsed"]
        return "ParseLeaf %s %s" % (cq_str(case["line"]),
                                    "None" if p is None else "(Some (%s, %s))" % (cq_strs(p[0]), cq_strs(p[1])))
    if k == "facet":
        return "FacetLeaf %s %s" % (cq_str(case["tag"]), cq_str(obs["facet"]))
    if k == "readfns":
        return "ReadFns %s %s %s %s" % (cq_strs(case["lines"]), cq_items(obs["db"]), cq_items(obs["rdb"]),
                                        cq_items(obs["rv"]))
    ops = cq_list([cq_op(op, st) for op, st in zip(case["ops"], obs["steps"])])
    steps = cq_list(["(mkStep %s %s %s)" % (
        cq_opt(st["err"]), cq_bool(st["trig"]),
        cq_list(["(%s, %s)" % (cq_nat(i), cq_snap(s)) for i, s in st["delta"]])) for st in obs["steps"]])
    return "Hist %s\n %s\n %s" % (cq_strs(obs["probes"]), ops, steps)


# ---------------------------------------------------------------------------

def _feature(case):
    kinds = {op["op"] for op in case["ops"]}
    f = []
    if "insert" in kinds:
        f.append("ins")
    if kinds & (set(DERIV) - SHARING - {"facet_collection"}):
        f.append("copying")
    if kinds & SHARING:
        f.append("sharing")
    if "facet_collection" in kinds:
        f.append("facet")
    return "+".join(f) or "read-only"


def classify(case, obs):
    k = case["kind"]
    if k == "hist":
        trig = any(st["trig"] for st in obs["steps"])
        err = any(st["err"] for st in obs["steps"])
        return "hist/%s/%s%s%s" % (case["stream"], _feature(case), "/K1-trigger" if trig else "",
                                   "/raises" if err else "")
    if k == "parse":
        return "parse_tags/%s" % ("no-match" if obs["parsed"] is None else
                                  ("tags" if obs["parsed"][1] else "no-tags"))
    if k == "facet":
        return "facet/%s" % ("changed" if obs["facet"] != case["tag"] else "same")
    return "read-functions"


def nontrivial(case, obs):
    if case["kind"] != "hist":
        return True
    return any(op["op"] != "new" and op["op"] != "read" for op in case["ops"])


def _remove_op(ops, i):
    """ops without ops[i]; if it created an object, everything that uses the object goes too."""
    out, dead, n_obj, remap, idx = [], set(), 0, {}, 0
    for j, op in enumerate(ops):
        is_creator = (op["op"] == "new" or op["op"] in DERIV) and not op.get("noobj")
        src = op.get("obj")
        drop = (j == i) or (src is not None and src in dead)
        if is_creator:
            if drop:
                dead.add(idx)
            else:
                remap[idx] = n_obj
                n_obj += 1
            idx += 1
        if drop:
            continue
        q = dict(op)
        if src is not None:
            if src not in remap:
                return None
            q["obj"] = remap[src]
        out.append(q)
    return out


def _mark_raising(case):
    """run the case to learn which derivations raised (they create no object)."""
    try:
        obs = run_hist(case)
    except Exception:
        return None, None
    if "driver_error" in obs:
        return None, None
    ops = []
    for op, st in zip(case["ops"], obs["steps"]):
        q = dict(op)
        q.pop("noobj", None)
        if st["err"] and (op["op"] in DERIV or op["op"] == "new"):
            q["noobj"] = True
        ops.append(q)
    return ops, obs


def _clean(ops):
    return [{k: v for k, v in op.items() if k != "noobj"} for op in ops]


def _shrink(case):
    if case["kind"] != "hist":
        return
    ops, obs = _mark_raising(case)
    if ops is None:
        return
    trig = [j for j, st in enumerate(obs["steps"]) if st["trig"]]
    mk = lambda o: dict(case, ops=_clean(o)) if o is not None else None
    if len(ops) == 2 and ops[1]["op"] == "insert" and len(ops[1]["tags"]) <= 1:
        return                                  # canonical minimal form
    if trig:
        # 1. the same history without K1: a failure that survives is a different one
        yield mk(ops[:trig[0]])
        o2 = ops
        for j in reversed(trig):
            o2 = _remove_op(o2, j)
        yield mk(o2)
        # 2. K1 on its own
        j = trig[0]
        if ops[j]["op"] == "insert":
            yield mk([{"op": "new"}, {"op": "insert", "obj": 0, "pkg": ops[j]["pkg"], "tags": ops[j]["tags"][:1]}])
    # 3. prefixes, shortest first
    for n in range(1, len(ops)):
        yield mk(ops[:n])
    # 4. single operations removed
    for j in range(len(ops) - 1, 0, -1):
        yield mk(_remove_op(ops, j))
    # 5. smaller reads / inserts / arguments
    for j, op in enumerate(ops):
        if op["op"] == "read":
            for r in range(len(op["recs"])):
                recs = op["recs"][:r] + op["recs"][r + 1:]
                q = dict(op, recs=recs, lines=[", ".join(p) + (": " + ", ".join(t) if t else "") + "\n" for p, t in recs])
                yield mk(ops[:j] + [q] + ops[j + 1:])
            plain = [", ".join(p) + (": " + ", ".join(t) if t else "") + "\n" for p, t in op["recs"]]
            if plain != op["lines"] or op.get("tf"):
                yield mk(ops[:j] + [dict(op, lines=plain, tf=None)] + ops[j + 1:])
            for r, (p, t) in enumerate(op["recs"]):
                for cut in range(len(t)):
                    recs = list(op["recs"])
                    recs[r] = [p, t[:cut] + t[cut + 1:]]
                    q = dict(op, recs=recs, lines=[", ".join(a) + (": " + ", ".join(b) if b else "") + "\n" for a, b in recs])
                    yield mk(ops[:j] + [q] + ops[j + 1:])
        elif op["op"] == "insert":
            for cut in range(len(op["tags"])):
                yield mk(ops[:j] + [dict(op, tags=op["tags"][:cut] + op["tags"][cut + 1:])] + ops[j + 1:])
        elif op["op"].startswith("choose_packages"):
            for cut in range(len(op["arg"])):
                yield mk(ops[:j] + [dict(op, arg=op["arg"][:cut] + op["arg"][cut + 1:])] + ops[j + 1:])


def shrink(case):
    for c in _shrink(case):
        if c is None or not c["ops"] or c["ops"][0]["op"] != "new":
            continue
        try:
            if "driver_error" in run_hist(c):
                continue
        except Exception:
            continue
        yield c


def describe(case, obs):
    if case["kind"] != "hist":
        return {"call": case["kind"], "observed": obs}
    lines = []
    n = 0
    for op, st in zip(case["ops"], obs["steps"]):
        k = op["op"]
        if k == "new":
            s = "x%d = DB()" % n
            n += 1
        elif k == "read":
            s = "x%d.read(%r%s)" % (op["obj"], op["lines"], ", tag_filter=%r" % (op["tf"],) if op.get("tf") else "")
        elif k == "insert":
            s = "x%d.insert(%r, %r)" % (op["obj"], op["pkg"], set(op["tags"]))
        else:
            created = not st["err"]
            s = "%sx%d.%s(%s)" % ("x%d = " % n if created else "", op["obj"], k,
                                  repr(op["arg"]) if "arg" in op else "")
            if created:
                n += 1
        if st["err"]:
            s += "   # raises " + st["err"]
        if st["trig"]:
            s += "   # executes set((pkg)) with len(pkg) != 1  (K1)"
        lines.append(s)
    last = {}
    for st in obs["steps"]:
        for i, s in st["delta"]:
            last[i] = {"db": s["db"], "rdb": s["rdb"]}
    return {"history": lines, "final_objects": {"x%d" % i: v for i, v in sorted(last.items())},
            "specified": "for every object still specified (not sharing sets, by the documentation, with a modified "
                         "collection): p in packages_of_tag(t) <=> t in tags_of_package(p), and every query equals "
                         "the reference relation computed from the operations"}


# ---------------------------------------------------------------------------
# known finding K1

_k1_cache = {}


def known_match(finding, case, obs):
    """K1 only: some step executed the trigger (observed by the DB.insert wrapper),
    and Coq confirms [k1_explained]: the implementation did exactly what the model
    as written predicts, and the model with the one-token repair satisfies the
    property on this history."""
    if finding.get("id") != "K1" or case.get("kind") != "hist":
        return False
    trig = finding.get("trigger", {})
    if trig.get("call_site") != "debtags.py DB.insert":
        return False
    if not any(st["trig"] for st in obs["steps"]):
        return False
    key = core.case_key(core.jsonable(case))
    if key in _k1_cache:
        return _k1_cache[key]
    d = tempfile.mkdtemp(prefix="verif-c20-k1-")
    try:
        p = os.path.join(d, "k1probe.v")
        with open(p, "w", encoding="utf-8") as f:
            f.write("From Coq Require Import String List NArith. Import ListNotations.\n"
                    "From Verif Require Import Lib.Base Debtags.Check.\nFrom Coq Require Import Uint63.\n"
                    "Local Open Scope string_scope.\n"
                    "Eval vm_compute in (k1_explained (%s)).\n" % emit(case, obs))
        rc, out, err = core.coqc(p, out_vo=os.path.join(d, "k1probe.vo"))
        res = rc == 0 and re.search(r"=\s*true\s*:\s*bool", out) is not None
    finally:
        shutil.rmtree(d, ignore_errors=True)
    _k1_cache[key] = res
    return res


# ---------------------------------------------------------------------------
# TIE BY REGENERATION (DESIGN §3.1b).  Three modules are regenerated from lib/debian/debtags.py on every run:
#   coq/Gen/TrDebtags.v        parse_tags, read_tag_database, read_tag_database_reversed, read_tag_database_both_ways,
#                              reverse, output                                        (primitives: coq/Debtags/TrPrims.v)
#   coq/Gen/TrDebtagsDB.v      DB.__init__, read, insert (K1 as written), reverse, copy, reverse_copy, the queries and
#                              iterators                                          (primitives: coq/Debtags/TrHeapPrims.v)
#   coq/Gen/TrDebtagsDerive.v  DB.choose_packages[_copy], filter_packages[_copy], filter_packages_tags[_copy],
#                              filter_tags[_copy], facet_collection, tags_of_packages, packages_of_tags
#                                                                                (primitives: coq/Debtags/TrDerivePrims.v)
# Proofs coq/Debtags/Tie.v, TieDB.v, TieDerive.v; statements coq/Props/C20Tie.v.
#
# Rendering.  A set of str is the model's `sset` (canonical sorted list), a dict {str: set} the model's association list in
# insertion order.  While a set / a dict has ONE name it is a value; the types make the translator check that:
#   _VSET  a set that may have other names (a parameter, a loop variable): may be read, copied, iterated
#   _FSET  a set made where the expression stands (x.copy(), set(..), {.. for ..}): the only thing a dict takes in d[k] = v
#   _VDICT a dict of such sets; _RDICT a dict {str: reference to a set object shared with the source}
# Set and dict objects that are shared between collections live in the model's heap: _SREF / _DREF are references, the heap
# `hp` and the two attributes self.db / self.rdb (references to dict objects) are the state of every method of DB.
# `for x in <set>` runs over the canonical order (trp_set_iter / trp_sref_iter): see Props/C20Tie.v for what is proved
# about other orders.  A local dict stored into the new object (`res.db = db`) is published into the heap there; the
# translator refuses a function that changes it afterwards.
from harness import extract            # noqa: E402
from harness import py2coq as _P       # noqa: E402
import ast as _ast                     # noqa: E402

_LS = ("list", "str")
_VSET = ("coq", "sset")
_FSET = ("coq", "fset")
_VDICT = ("coq", "vdict")
_PRED = ("coq", "strpred")             # a user callback str -> bool (tag_filter, package_filter): pure and total
_LRE = ("coq", "lre")
_LM = ("coq", "lmatch")
_REC = ("tuple", _VSET, _VSET)
_PAT = r"^(.+?)(?::?\s*|:\s+(.+?)\s*)$"       # the pattern of parse_tags that the leaf Model.parse_line models
_FPAT = r"^([^:]+).+"                          # the pattern of facet_collection that the leaf Model.facet models


def _lit(src):
    return ("literal", src, "tt")


def _src(value):                       # the source text of a str constant, as ast.unparse prints it
    return _ast.unparse(_ast.Constant(value=value))


def _mut(coq, args, ret, monadic=False):
    return _P.Call(coq, args, ret, monadic, mutates=True)


def _sub(coq, args, ret, sub=("hp",)):
    c = _P.Call(coq, args, ret)
    c.substate = list(sub)
    return c


# --- module 1: the module-level functions, by value
_f_parse = _P.Fun("tr_parse_tags", "parse_tags", [("input_data", _LS)], _REC, generator=True,
                  locals={"lre": _LRE, "line": "str", "m": ("option", _LM), "pkgs": _VSET, "tags": _VSET})
_f_parse.narrow = True                 # `if not m: continue` narrows the match object
_f_parse.join_defines = True           # `tags` is first assigned in both branches of the if
_LOC = {"db": _VDICT, "dbr": _VDICT, "res": _VDICT, "pkgs": _VSET, "tags": _VSET, "p": "str", "pkg": "str", "tag": "str"}


def _loc(*names):
    return {k: _LOC[k] for k in names}


_print = _P.Call("trp_print2", ["str", "str"], "unit")
_print.stateprim = True                # print(a, b): a primitive on the hidden state "text written to stdout"

TR_MODULE = _P.Module(
    "TrDebtags", "lib/debian/debtags.py",
    funs=[
        _f_parse,
        _P.Fun("tr_read_tag_database", "read_tag_database", [("input_data", _LS)], _VDICT,
               locals=_loc("db", "pkgs", "tags", "p")),
        _P.Fun("tr_read_tag_database_reversed", "read_tag_database_reversed", [("input_data", _LS)], _VDICT,
               locals=_loc("db", "pkgs", "tags", "tag")),
        _P.Fun("tr_read_tag_database_both_ways", "read_tag_database_both_ways",
               [("input_data", _LS), ("tag_filter", ("option", _PRED))], ("tuple", _VDICT, _VDICT),
               locals=_loc("db", "dbr", "pkgs", "tags", "pkg", "tag")),
        _P.Fun("tr_reverse", "reverse", [("db", _VDICT)], _VDICT, locals=_loc("res", "pkg", "tags", "tag")),
        _P.Fun("tr_output", "output", [("db", _VDICT)], "unit", locals=_loc("pkg", "tags"),
               state=[("<stdout>", "s_out", "str")]),
    ],
    calls={
        "re.compile": _P.Call("trp_lre_compile", [_lit(_src(_PAT))], _LRE),
        "<lre>.match": _P.Call("trp_lre_match", [_LRE, "str"], ("option", _LM)),
        "<lmatch>.group": [_P.Call("trp_lm_group1", [_LM, ("literal", "1", "")], "str"),
                           _P.Call("trp_lm_group2", [_LM, ("literal", "2", "")], ("option", "str"))],
        "<str>.split": _P.Call("trp_split_cs", ["str", ("literal", _src(", "), "")], _LS),
        "set": [_P.Call("trp_set_empty", [], _FSET), _P.Call("trp_set_of_list", [_LS], _FSET),
                _P.Call("trp_set_of_set", [_VSET], _FSET), _P.Call("trp_set_of_str", ["str"], _FSET)],
        "<sset>.copy": _P.Call("trp_set_copy", [_VSET], _FSET),
        "<sset>.__iter__": _P.Call("trp_set_iter", [_VSET], _LS),
        "filter": _P.Call("trp_filter", [_PRED, _VSET], _LS),
        "parse_tags": _P.Call("tr_parse_tags", [_LS], ("list", _REC), True),
        "<vdict>.__setitem__": _mut("trp_vd_setitem", [_VDICT, "str", _FSET], "unit"),
        "<vdict>.__contains__": _P.Call("trp_vd_contains", [_VDICT, "str"], "bool"),
        "<vdict>.[].__ior__": _mut("trp_vd_ior", [_VDICT, "str", _VSET], "unit", True),
        "<vdict>.[].add": _mut("trp_vd_item_add", [_VDICT, "str", "str"], "unit", True),
        "<vdict>.items": _P.Call("trp_vd_items", [_VDICT], ("list", ("tuple", "str", _VSET))),
        "print": _print,
        "<str>.join": _P.Call("trp_join_cs", ["str", _VSET], "str"),
    },
    consts={"{}": ("trp_vd_empty", _VDICT)},
    imports=["Debtags.StrSet", "Debtags.Model", "Debtags.TrPrims"])
TR_MODULE.coercions = [(_FSET, _VSET, "%s")]      # a freshly made set may be used where any set is expected — not the converse


@extract.register("TrDebtags")
def _gen_tr(repo):
    return _P.translate_module(repo, TR_MODULE)


# --- module 2: class DB — the heap of set and dict objects is state
_HEAP = ("coq", "heap")
_DREF = ("coq", "dref")
_SREF = ("coq", "sref")
_OBJB = ("coq", "objb")                # a DB object whose two attributes are being assigned (trp_db_blank)
_ST = [("<heap>", "hp", _HEAP), ("self.db", "s_db", _DREF), ("self.rdb", "s_rdb", _DREF)]
_GH = [("hp", _HEAP), ("s_db", _DREF), ("s_rdb", _DREF)]
_ITEMS = ("list", ("tuple", "str", _SREF))


def _wm(coq, name, params, ret, **kw):          # methods that change the heap / the attributes
    return _P.Fun(coq, "DB." + name, params, ret, skip_first=True, state=_ST, **kw)


def _rm(coq, name, params, ret, **kw):          # methods that only read
    return _P.Fun(coq, "DB." + name, params, ret, skip_first=True, ghost=_GH, **kw)


_SET_VD = {"<objb>.@db=": _sub("trp_ob_set_db_vd", [_OBJB, _VDICT], _OBJB),       # a dict of copies: published
           "<objb>.@rdb=": _sub("trp_ob_set_rdb_vd", [_OBJB, _VDICT], _OBJB)}
_f_copy = _wm("tr_db_copy", "copy", [], _OBJB, locals={"res": _OBJB})
_f_rcopy = _wm("tr_db_reverse_copy", "reverse_copy", [], _OBJB, locals={"res": _OBJB})
_f_copy.calls = dict(_SET_VD)
_f_rcopy.calls = dict(_SET_VD)
_f_rev = _rm("tr_db_reverse", "reverse", [], _OBJB, locals={"res": _OBJB})
_f_rev.calls = {"<objb>.@db=": _P.Call("trp_ob_set_db_ref", [_OBJB, _DREF], _OBJB),  # the SAME dict object: shared
                "<objb>.@rdb=": _P.Call("trp_ob_set_rdb_ref", [_OBJB, _DREF], _OBJB)}

_DB_CALLS = {
    "<dref>.__getitem__": _P.Call("trp_hd_getitem hp", [_DREF, "str"], _SREF, True),
    "in self.db": _P.Call("trp_hd_contains hp s_db", ["str"], "bool", True),
    "in self.rdb": _P.Call("trp_hd_contains hp s_rdb", ["str"], "bool", True),
    "<dref>.keys": _P.Call("trp_hd_keys hp", [_DREF], _LS),
    "<dref>.items": _P.Call("trp_hd_items hp", [_DREF], _ITEMS),
    "<sref>.copy": _P.Call("trp_sref_copy hp", [_SREF], _FSET),
    "<sref>.__iter__": _P.Call("trp_sref_iter hp", [_SREF], _LS),
    "<vdict>.__setitem__": _mut("trp_vd_setitem", [_VDICT, "str", _FSET], "unit"),
    "DB": _P.Call("trp_db_blank", [], _OBJB),
}

TR_MODULE_DB = _P.Module(
    "TrDebtagsDB", "lib/debian/debtags.py",
    funs=[
        _wm("tr_db_init", "__init__", [], "unit"),
        _wm("tr_db_read", "read", [("input_data", _LS), ("tag_filter", ("option", _PRED))], "unit"),
        _wm("tr_db_insert", "insert", [("pkg", "str"), ("tags", _VSET)], "unit", locals={"tag": "str"}),
        _f_rev, _f_copy, _f_rcopy,
        _rm("tr_db_has_package", "has_package", [("pkg", "str")], "bool"),
        _rm("tr_db_has_tag", "has_tag", [("tag", "str")], "bool"),
        _rm("tr_db_tags_of_package", "tags_of_package", [("pkg", "str")], _VSET),
        _rm("tr_db_packages_of_tag", "packages_of_tag", [("tag", "str")], _VSET),
        _rm("tr_db_card", "card", [("tag", "str")], "Z"),
        _rm("tr_db_iter_packages", "iter_packages", [], _LS),
        _rm("tr_db_iter_tags", "iter_tags", [], _LS),
        _rm("tr_db_iter_packages_tags", "iter_packages_tags", [], _ITEMS),
        _rm("tr_db_iter_tags_packages", "iter_tags_packages", [], _ITEMS),
        _rm("tr_db_package_count", "package_count", [], "Z"),
        _rm("tr_db_tag_count", "tag_count", [], "Z"),
    ],
    calls=dict(_DB_CALLS, **{
        "<dref>.{}": _sub("trp_hd_new", [], _DREF),
        "read_tag_database_both_ways": _sub("trp_h_read_both", [_LS, ("option", _PRED)], ("tuple", _DREF, _DREF)),
        "<sset>.copy": _P.Call("trp_set_copy", [_VSET], _FSET),
        "<sset>.__iter__": _P.Call("trp_set_iter", [_VSET], _LS),
        # set((pkg)) — the parentheses are not a tuple: the argument is the str, the result the set of its characters (K1)
        "set": [_P.Call("trp_set_empty", [], _FSET), _P.Call("trp_set_of_str", ["str"], _FSET)],
        "<dref>.__setitem__": _sub("trp_hd_setitem_fresh", [_FSET, _DREF, "str"], "unit"),
        "len": [_P.Call("trp_sref_len hp", [_SREF], "Z"), _P.Call("trp_hd_len hp", [_DREF], "Z")],
        "<sref>.add": _sub("trp_sref_add", [_SREF, "str"], "unit"),
        "<vdict>.{for}": _P.Call("trp_vd_of_pairs", [("list", ("tuple", "str", _FSET))], _VDICT),
    }),
    consts={"self.db": ("s_db", _DREF), "self.rdb": ("s_rdb", _DREF)},
    imports=["Debtags.StrSet", "Debtags.Model", "Debtags.TrPrims", "Gen.TrDebtags", "Debtags.TrHeapPrims"])
TR_MODULE_DB.heap = _P.Heap("hp", _HEAP, {})      # (no class with attribute slots: set and dict objects through primitives)
TR_MODULE_DB.coercions = [(_FSET, _VSET, "%s"), (_SREF, _VSET, "(trp_sref_value hp %s)")]
TR_MODULE_DB.ref_types = ("dref", "sref")


@extract.register("TrDebtagsDB")
def _gen_tr_db(repo):
    return _P.translate_module(repo, TR_MODULE_DB)


# --- module 3: the derivations
_RDICT = ("coq", "rdict")
_OBJ = ("coq", "obj")
_PTPRED = ("coq", "ptpred")            # the callback of filter_packages_tags: (package, its set of tags) -> bool
_FRE = ("coq", "fre")
_SHARE_DB = {   # db = {} of SHARED sets; res.db = db (published); res.rdb = reverse(db) (published)
    "<objb>.@db=": _sub("trp_ob_set_db_rd", [_OBJB, _RDICT], _OBJB),
    "<objb>.@rdb=": _sub("trp_ob_set_rdb_vd", [_OBJB, _VDICT], _OBJB),
    "reverse": _P.Call("trp_h_reverse_rd hp", [_RDICT], _VDICT, True)}
_COPY_DB = dict(_SET_VD, reverse=_P.Call("tr_reverse", [_VDICT], _VDICT, True))      # db = {} of copies
_SHARE_RDB = {  # rdb = {}; res.rdb = rdb; res.db = reverse(rdb)
    "<objb>.@rdb=": _sub("trp_ob_set_rdb_rd", [_OBJB, _RDICT], _OBJB),
    "<objb>.@db=": _sub("trp_ob_set_db_vd", [_OBJB, _VDICT], _OBJB),
    "reverse": _P.Call("trp_h_reverse_rd hp", [_RDICT], _VDICT, True)}


def _dm(coq, name, param, dictvar, dty, calls, extra=None):
    loc = {"res": _OBJB, dictvar: dty, "pkg": "str", "tag": "str"}
    loc.update(extra or {})
    f = _wm(coq, name, [param], _OBJB, locals=loc)
    f.calls = dict(calls)
    return f


_UNION = _P.Call("trp_set_union_star", [("list", _VSET)], _FSET, True)
_UNION.star = True                     # set.union(*<generator>)
_f_facet = _wm("tr_db_facet_collection", "facet_collection", [], _OBJ,
               locals={"fcoll": _OBJ, "tofacet": _FRE, "pkg": "str", "tags": _SREF, "ftags": _VSET})
_f_facet.calls = {"DB": _sub("trp_db_new", [], _OBJ)}    # here the new object's own dicts are used: the regenerated __init__

TR_MODULE_DERIVE = _P.Module(
    "TrDebtagsDerive", "lib/debian/debtags.py",
    funs=[
        _dm("tr_db_choose_packages", "choose_packages", ("package_iter", _LS), "db", _RDICT, _SHARE_DB),
        _dm("tr_db_choose_packages_copy", "choose_packages_copy", ("package_iter", _LS), "db", _VDICT, _COPY_DB),
        _dm("tr_db_filter_packages", "filter_packages", ("package_filter", _PRED), "db", _RDICT, _SHARE_DB),
        _dm("tr_db_filter_packages_copy", "filter_packages_copy", ("filter_data", _PRED), "db", _VDICT, _COPY_DB),
        _dm("tr_db_filter_packages_tags", "filter_packages_tags", ("package_tag_filter", _PTPRED), "db", _RDICT,
            _SHARE_DB, {"_": _SREF}),
        _dm("tr_db_filter_packages_tags_copy", "filter_packages_tags_copy", ("package_tag_filter", _PTPRED), "db", _VDICT,
            _COPY_DB, {"_": _SREF}),
        _dm("tr_db_filter_tags", "filter_tags", ("tag_filter", _PRED), "rdb", _RDICT, _SHARE_RDB),
        _dm("tr_db_filter_tags_copy", "filter_tags_copy", ("tag_filter", _PRED), "rdb", _VDICT, _COPY_DB),
        _f_facet,
        _rm("tr_db_tags_of_packages", "tags_of_packages", [("pkgs", _LS)], _VSET, locals={"p": "str"}),
        _rm("tr_db_packages_of_tags", "packages_of_tags", [("tags", _LS)], _VSET, locals={"t": "str"}),
    ],
    calls=dict(_DB_CALLS, **{
        "<rdict>.{}": _P.Call("trp_rd_empty", [], _RDICT),
        "<vdict>.{}": _P.Call("trp_vd_empty", [], _VDICT),
        "<rdict>.__setitem__": _mut("trp_rd_setitem", [_RDICT, "str", _SREF], "unit"),
        "filter": [_P.Call("trp_filter_l", [_PRED, _LS], _LS), _P.Call("trp_filter_items hp", [_PTPRED, _ITEMS], _ITEMS)],
        "re.compile": _P.Call("trp_fre_compile", [_lit(_src(_FPAT))], _FRE),
        "<fre>.sub": _P.Call("trp_fre_sub", [_FRE, _lit(_src("\\1")), "str"], "str"),
        "set": _P.Call("trp_set_of_list", [_LS], _FSET),
        "self.iter_packages_tags": _P.Call("tr_db_iter_packages_tags hp s_db s_rdb", [], _ITEMS, True),
        "<obj>.insert": _sub("trp_obj_insert", [_OBJ, "str", _VSET], "unit"),
        "set.union": _UNION,
        "self.tags_of_package": _P.Call("tr_db_tags_of_package hp s_db s_rdb", ["str"], _VSET, True),
        "self.packages_of_tag": _P.Call("tr_db_packages_of_tag hp s_db s_rdb", ["str"], _VSET, True),
    }),
    consts={"self.db": ("s_db", _DREF), "self.rdb": ("s_rdb", _DREF)},
    imports=["Debtags.StrSet", "Debtags.Model", "Debtags.TrPrims", "Gen.TrDebtags", "Debtags.TrHeapPrims",
             "Gen.TrDebtagsDB", "Debtags.TrDerivePrims"])
TR_MODULE_DERIVE.heap = _P.Heap("hp", _HEAP, {})
TR_MODULE_DERIVE.coercions = [(_FSET, _VSET, "%s")]
TR_MODULE_DERIVE.ref_types = ("dref", "sref", "obj")


@extract.register("TrDebtagsDerive")
def _gen_tr_derive(repo):
    return _P.translate_module(repo, TR_MODULE_DERIVE)


# (registered only while the theorem file is there, so that ./check C20 never breaks on a tree without it)
TIE_FILE = "Props/C20Tie.v" if os.path.exists(os.path.join(
    os.path.dirname(os.path.abspath(__file__)), "..", "..", "coq", "Props", "C20Tie.v")) else None
