"""C19 — update_file converges to the published content and never corrupts the local file.

One case = a RECIPE (history, index format, one index mutation, patch/full-file
faults, file-system fault schedule, local copy).  build_world(case) turns the recipe
deterministically into a file:// mirror (Index, gzip'd patches, gzip'd full file) plus
the view of that mirror the Coq model needs (index lines, what a gunzip of every
published file yields, digests of every content the harness knows).
"""
import difflib
import errno
import gzip
import hashlib
import io
import os
import re
import shutil
import tempfile

from harness.core import cq_bool, cq_list, cq_opt, err_kind


def cq_str(s):
    """Literal understood by Lib/Dec.v [dec]; as harness.extract.coq_string, except that LF and TAB
    are written raw (Coq string literals may contain them, [dec] passes them through), which
    keeps the case files — whose elaboration is what costs — a third smaller."""
    out = []
    for ch in s:
        c = ord(ch)
        if (32 <= c < 127 and c not in (34, 92)) or c in (9, 10):
            out.append(ch)
        else:
            out.append("\\%06x" % c)
    return '"' + "".join(out) + '"'


def cq_strs(ss):
    return cq_list([cq_str(x) for x in ss])

ID = "C19"
CHECK_MODULE = "Pdiff.UpdateCheck"
PROPS_FILE = "Props/C19.v"
# update_file applies patches through patches_from_ed_script and patch_lines: regenerated and tied in C18's tie file
TIE_FILE = "Props/C18Tie.v"
ANCHORS = [("lib/debian/debian_support.py",
            ["update_file", "download_file", "download_gunzip_lines", "replace_file",
             "read_lines_sha1", "read_lines_sha256", "new_sha1", "new_sha256", "PackageFile",
             "patches_from_ed_script", "patch_lines", "_patch_re_raw", "_patch_re"])]
BUDGET = {"quick": 1500, "thorough": 16000}
SHARD = 125
EXTRA = bool(os.environ.get("VERIF_C19_EXTRA"))      # opt-in: inputs outside the claimed domain (see ASSUMPTIONS)

RULE = ("random histories v0..vn (n = 0..4, lines over a small vocabulary so that lines and whole versions repeat) "
        "published as a file:// mirror: gzip'd ed patches from the harness's own generator (difflib alignment), "
        "Index with SHA1 and/or SHA256 fields in every field order, one or several paragraphs, extra fields, "
        "varying column separators, full file .gz; for EVERY history the local copy is put at every v_i, at a foreign "
        "content and absent; one fault recipe per case: none | index mutation (absent, 9 unparseable forms, empty, "
        "no -Current, wrong column count in -Current/-History/-Patches, VT inside an entry, lower-case field names, "
        "patch without recorded hash, wrong hashes, duplicated -History) | published patch corrupted (line dropped, "
        "truncated, changed, emptied, garbage appended), gzip stream truncated or bit-flipped, patch missing | full "
        "file missing/truncated | fault schedule over open/write_i/close/rename (+ unlink) injected by wrapping "
        "builtins.open and os.rename/os.unlink in the harness process | combinations.  Separate leaf streams: "
        "PackageFile on rendered/mutated/garbage index texts (live class), re.split(r'\\s+').  "
        "non-trivial = an update case where something is at stake (local not current, or a fault/mutation present)")
TRUSTED = [
    "model coq/Pdiff/Update.v is a hand transcription of update_file, download_file, replace_file and "
    "PackageFile.__iter__ (regex leaves re_field / re_continuation / r'\\s+' hand-written); tied to the code only by this correspondence",
    "NOT modelled, supplied as environment by the harness: urllib (file:// only), gzip and the text layer "
    "(what download_gunzip_lines yields for each published file is computed by the harness with its own gzip/TextIOWrapper call), "
    "tempfile handling inside download_gunzip_lines",
    "NOT modelled: the real file system under a fault.  The model assumes a failed open/write/close/rename leaves both "
    "slots as they were except that completed writes are in '.new', that rename is atomic, that os.path.exists never fails; "
    "faults are injected by the harness BEFORE the real call, which realises exactly this assumption",
    "NOT modelled: process death (between rename and return, or anywhere else): the property's quantifier is fault sequences, not crash points",
    "the hash is uninterpreted in the theorems (Section variable H); in the correspondence it is a lookup table of "
    "hashlib digests of every content the harness created, unknown contents get a digest no index token can equal",
]
ASSUMPTIONS = [
    "contents are UTF-8 text without CR; every line of a published version ends in LF (ed scripts cannot carry an "
    "unterminated line); a foreign local file may lack the final LF",
    "a local file or an Index that is not valid UTF-8 raises UnicodeDecodeError out of update_file instead of "
    "triggering the full download: outside the claimed domain, generated only with VERIF_C19_EXTRA=1 (reported, not fixed)",
    "patch names and index tokens contain no URL metacharacters (% ? # /)",
    "SHA-1/SHA-256 collision freedom, as explicit hypotheses of the theorems (H is universally quantified): "
    "no_collision = the digest separates the local content from the n+1 published versions (boolean); the fault "
    "theorems that conclude 'returned = vn' also assume that no other content has the digest of vn; "
    "C19_update_fault_safe (local = returned or local unchanged, no .new) assumes nothing about the hash",
    "no '.new' file exists before the call; unlink of '.new' fails only where the schedule says so (theorems: never)",
]

VOCAB = ["a\n", "b\n", "c\n", "\n", " x\n", "Package: p\n", "1a\n", "2,3d\n", "..\n", "é z\n", "w\n", "s/.//\n",
         # a dot followed by blanks is content, not the terminator; characters that str.splitlines() treats as line
         # boundaries but a file's readlines() does not
         ". \n", ".\t\n", " .\n", ". .\n", "x\x0cy\n", "p\x0bq\n", "u\u2028v\n", "e\x85f\n", "g\x1ch\n", "h\x1d\x1ei\n",
         "\u2029\n", "\x0c\n"]
FOREIGN_EXTRA = ["zz\n", "a", "q q\n", "\u2028k\n"]


# ---------------------------------------------------------------------------
# ed scripts (the harness's own generator)

def _cmd(pos, d, i):
    if not d:
        return ["%da\n" % pos] + i + [".\n"]
    addr = "%d" % (pos + 1) if len(d) == 1 else "%d,%d" % (pos + 1, pos + len(d))
    if not i:
        return [addr + "d\n"]
    return [addr + "c\n"] + i + [".\n"]


def ed_script(old, new):
    sm = difflib.SequenceMatcher(None, old, new, autojunk=False)
    cmds = [_cmd(i1, old[i1:i2], new[j1:j2]) for tag, i1, i2, j1, j2 in sm.get_opcodes() if tag != "equal"]
    out = []
    for c in reversed(cmds):
        out += c
    return out


# ---------------------------------------------------------------------------
# digests

def _digests(lines):
    data = "".join(lines).encode("utf-8")
    return hashlib.sha1(data).hexdigest(), hashlib.sha256(data).hexdigest()


def _lf_lines(text):
    """text-mode readlines() for text without CR: split after every LF only."""
    parts = text.split("\n")
    out = [p + "\n" for p in parts[:-1]]
    if parts[-1]:
        out.append(parts[-1])
    return out


def _gz(lines):
    buf = io.BytesIO()
    with gzip.GzipFile(fileobj=buf, mode="wb", mtime=0) as g:
        g.write("".join(lines).encode("utf-8"))
    return buf.getvalue()


def _gunzip_view(data):
    """What a text-mode read of the gzip stream yields: ('ok', lines) | ('err', kind)."""
    if data is None:
        return ("err", "IOError")
    try:
        # the same call pattern as download_gunzip_lines (chunked text-mode read: a decode error in an
        # early chunk surfaces before the CRC check at the end of the stream)
        with gzip.open(io.BytesIO(data), "rt", encoding="utf-8") as g:
            lines = g.readlines()
        return ("ok", lines)
    except Exception as e:      # noqa: BLE001
        return ("err", err_kind(e))


# ---------------------------------------------------------------------------
# building the world from a recipe

UNPARSEABLE_ALONE = [
    "\nSHA1-Current: x 1\n",                 # leading blank line
    " leading continuation\n",
    "SHA1-Current: x 1\n\n\nSHA1-History:\n",  # two blank lines
]
UNPARSEABLE_SUFFIX = [                        # appended to a well-formed index
    "garbage without colon\n",
    "S: one-letter name\n",
    "\n\nX-After: two blank lines\n",
    "\r\n",                                   # CR LF "blank" line
    "\x0b\n",                                 # VT-only line
    "   ",                                    # whitespace-only last line without LF
    "SHA1 Current: x 1\n",
    ": no name\n",
    "9ab: digit first\n",
]

IDX_INTACT, IDX_UNUSABLE, IDX_LYING = 0, 1, 2
MUT_CLASS = {
    None: IDX_INTACT, "blank_entries": IDX_INTACT, "trailing_ws": IDX_INTACT,
    "absent": IDX_UNUSABLE, "unparseable": IDX_UNUSABLE, "empty": IDX_UNUSABLE, "no_current": IDX_UNUSABLE,
    "current_cols": IDX_UNUSABLE, "hist_cols": IDX_UNUSABLE, "patch_cols": IDX_UNUSABLE, "vt_entry": IDX_UNUSABLE,
    "lower_names": IDX_UNUSABLE, "drop_patch_row": IDX_UNUSABLE, "only_other": IDX_UNUSABLE,
    "current_cont": IDX_UNUSABLE,
    "wrong_current": IDX_LYING, "wrong_patch_hash": IDX_LYING, "wrong_hist_hash": IDX_LYING,
    "dup_history": IDX_LYING, "nonutf8": IDX_LYING, "hist_swapped_cols": IDX_LYING,
}


class World:
    pass


def patch_names(n):
    return ["T-%02d.%02d" % (j + 1, 7 * (j + 3) % 60) for j in range(n)]


def build_world(case):
    w = World()
    hist = case["hist"]
    n = len(hist) - 1
    idx = case["idx"]
    mut = idx.get("mut") or {}
    mtype = mut.get("type")
    known = {}                       # content -> (sha1, sha256)

    def dg(lines, kind):
        c = "".join(lines)
        if c not in known:
            known[c] = _digests(lines)
        return known[c][0 if kind == "SHA1" else 1]

    names = patch_names(n)
    patches = [ed_script(hist[j], hist[j + 1]) for j in range(n)]
    for v in hist:
        dg(v, "SHA1")
    for p in patches:
        dg(p, "SHA1")
    if case["local"] is not None:
        dg(case["local"], "SHA1")
    other = ["other\n", "content\n"]
    dg(other, "SHA1")

    # --- published files
    files = {}                       # name -> gz bytes
    for j in range(n):
        content = patches[j]
        pf = (case.get("pfault") or {}).get(str(j))
        data = _gz(content)
        if pf:
            t, a = pf["type"], pf.get("arg", 0)
            if t == "missing":
                data = None
            elif t == "gztrunc":
                data = data[:max(1, min(len(data) - 1, a % len(data)))]
            elif t == "gzflip":
                k = 10 + a % max(1, len(data) - 10) if len(data) > 10 else a % len(data)
                data = data[:k] + bytes([data[k] ^ (1 + a % 255)]) + data[k + 1:]
            else:
                c = list(content)
                if t == "drop_last" and c:
                    c = c[:-1]
                elif t == "drop_line" and c:
                    del c[a % len(c)]
                elif t == "change" and c:
                    k = a % len(c)
                    c[k] = ("9" + c[k]) if not c[k].startswith("9") else c[k][1:]
                elif t == "empty":
                    c = []
                elif t == "append":
                    c = c + ["garbage\n"]
                elif t == "other_patch":
                    c = ["1a\n", "intruder\n", ".\n"]
                if c == content:
                    c = content + ["0a\n", "x\n", ".\n"]
                dg(c, "SHA1")
                data = _gz(c)
        if data is not None:
            files[names[j]] = data
    w.files = files
    ff = case.get("full_fault")
    full = _gz(hist[-1])
    if ff == "missing":
        full = None
    elif ff == "gztrunc":
        full = full[:len(full) - 4]
    w.full = full

    # --- the index
    kinds = idx["kinds"]
    sep = idx.get("sep", " ")
    fields = []                      # (name, [row tokens...]) ; rows rendered one per line
    for K in kinds:
        cur = [dg(hist[-1], K), str(len("".join(hist[-1]).encode("utf-8")))]
        hrows = [[dg(hist[j], K), str(len("".join(hist[j]).encode("utf-8"))), names[j]] for j in range(n)]
        prows = [[dg(patches[j], K), str(len("".join(patches[j]).encode("utf-8"))), names[j]] for j in range(n)]
        a = mut.get("arg", 0)
        if mtype == "no_current":
            cur = None
        elif mtype == "current_cols":
            cur = [cur[:1], cur + ["extra"], cur + ["1", "2"], []][a % 4]
        elif mtype == "hist_cols" and hrows:
            j = a % len(hrows)
            hrows[j] = [hrows[j][:2], hrows[j] + ["extra"], hrows[j][:1], hrows[j][1:]][(a // 7) % 4]
        elif mtype == "patch_cols" and prows:
            j = a % len(prows)
            prows[j] = [prows[j][:2], prows[j] + ["extra"], prows[j][:1], prows[j][1:]][(a // 7) % 4]
        elif mtype == "drop_patch_row" and prows:
            del prows[a % len(prows)]
        elif mtype == "wrong_current":
            cur[0] = dg(other, K) if a % 2 else dg(hist[a % len(hist)], K)
        elif mtype == "wrong_patch_hash" and prows:
            prows[a % len(prows)][0] = dg(other, K)
        elif mtype == "wrong_hist_hash" and hrows:
            hrows[a % len(hrows)][0] = dg(other, K)
        elif mtype == "hist_swapped_cols" and hrows:
            j = a % len(hrows)
            hrows[j] = [hrows[j][2], hrows[j][1], hrows[j][0]]
        per = {"Current": ("cur", cur), "History": ("rows", hrows), "Patches": ("rows", prows)}
        for f in idx["order"]:
            kind, val = per[f]
            if val is None:
                continue
            fields.append((K + "-" + f, kind, val))
            if mtype == "dup_history" and f == "History":
                fields.append((K + "-" + f, kind, val))
    for pos, name, value in idx.get("extra", []):
        fields.insert(min(pos, len(fields)), (name, "raw", value))

    def render_field(name, kind, val, k):
        if mtype == "lower_names":
            name = name.lower()
        if kind == "raw":
            return "%s: %s\n" % (name, val)
        if kind == "cur":
            if mtype == "current_cont":
                return "%s: %s\n %s\n" % (name, sep.join(val), sep.join(val))
            return "%s:%s%s\n" % (name, " " if val else "", sep.join(val))
        rows = [sep.join(r) for r in val]
        if mtype == "vt_entry" and rows:
            j = mut.get("arg", 0) % len(rows)
            rows[j] = rows[j].replace(sep, "\x0b", 1)
        out = ""
        if idx.get("lead_nl", True) or not rows:
            out = "%s:\n" % name
        else:
            out = "%s: %s\n" % (name, rows[0])
            rows = rows[1:]
        for r in rows:
            if mtype == "blank_entries":
                out += " .\n"
            out += " " + r + ("  \t" if mtype == "trailing_ws" else "") + "\n"
        return out

    text = ""
    for k, (name, kind, val) in enumerate(fields):
        text += render_field(name, kind, val, k)
        if k in idx.get("breaks", []) and k + 1 < len(fields):
            text += "\n"
    if idx.get("final_blank"):
        text += "\n"
    data = text.encode("utf-8")
    if mtype == "absent":
        data = None
    elif mtype == "unparseable":
        a = mut.get("arg", 0)
        if a % 4 == 0:
            data = UNPARSEABLE_ALONE[(a // 4) % len(UNPARSEABLE_ALONE)].encode("utf-8")
        else:
            data = (text + UNPARSEABLE_SUFFIX[(a // 4) % len(UNPARSEABLE_SUFFIX)]).encode("utf-8")
    elif mtype == "empty":
        data = b""
    elif mtype == "only_other":
        data = b"Canonical-Path: x\nX-Other: y\n z\n"
    elif mtype == "nonutf8":
        data = data + b"X-Bad: \xff\n"
    w.index = data
    # which published files really differ from what the history says (a bit flip in a
    # gzip header field may be harmless)
    w.pfaults = [j for j in range(n) if _gunzip_view(files.get(names[j])) != ("ok", patches[j])]
    w.full_fault = _gunzip_view(full) != ("ok", hist[-1])
    w.known = known
    w.names = names
    w.patches = patches
    w.idx_class = MUT_CLASS[mtype]
    return w


def _index_lines(data):
    """readline() on the byte stream, each line decoded on its own (None = not UTF-8)."""
    if data is None:
        return None
    out = []
    for raw in re.findall(rb"[^\n]*\n|[^\n]+", data):
        try:
            out.append(raw.decode("utf-8"))
        except UnicodeDecodeError:
            out.append(None)
    return out


# ---------------------------------------------------------------------------
# fault injection (in the harness process; no hook in the repository)

class _Injector:
    """Counts the file-system effects on local + '.new' in execution order and fails
    the ones the schedule marks."""

    def __init__(self, new_path, eff, unlink_fails):
        self.new_path = new_path
        self.eff = eff
        self.unlink_fails = unlink_fails
        self.count = 0
        self.log = []

    def effect(self, what):
        k = self.count
        self.count += 1
        self.log.append(what)
        if k < len(self.eff) and self.eff[k]:
            raise OSError(errno.EIO, "injected fault at effect %d (%s)" % (k, what))


class _FaultyFile:
    def __init__(self, real, inj):
        self._real = real
        self._inj = inj

    def write(self, s):
        self._inj.effect("write")
        return self._real.write(s)

    def close(self):
        try:
            self._inj.effect("close")
        finally:
            self._real.close()

    def __enter__(self):
        return self

    def __exit__(self, *a):
        self.close()

    def __getattr__(self, name):
        return getattr(self._real, name)


def _with_faults(inj, thunk):
    import builtins
    real_open, real_rename, real_unlink = builtins.open, os.rename, os.unlink

    def f_open(file, mode="r", *a, **kw):
        if isinstance(file, str) and file == inj.new_path and "w" in mode:
            inj.effect("open")
            return _FaultyFile(real_open(file, mode, *a, **kw), inj)
        return real_open(file, mode, *a, **kw)

    def f_rename(src, dst, *a, **kw):
        if src == inj.new_path:
            inj.effect("rename")
        return real_rename(src, dst, *a, **kw)

    def f_unlink(path, *a, **kw):
        if path == inj.new_path:
            inj.log.append("unlink")
            if inj.unlink_fails:
                raise OSError(errno.EIO, "injected unlink fault")
        return real_unlink(path, *a, **kw)

    builtins.open, os.rename, os.unlink = f_open, f_rename, f_unlink
    try:
        return thunk()
    finally:
        builtins.open, os.rename, os.unlink = real_open, real_rename, real_unlink


# ---------------------------------------------------------------------------
# driver

def _run_update(case):
    from debian import debian_support
    w = build_world(case)
    d = tempfile.mkdtemp(prefix="verif-c19-")
    try:
        mirror = os.path.join(d, "mirror")
        os.makedirs(os.path.join(mirror, "F.diff"))
        if w.full is not None:
            with open(os.path.join(mirror, "F.gz"), "wb") as f:
                f.write(w.full)
        if w.index is not None:
            with open(os.path.join(mirror, "F.diff", "Index"), "wb") as f:
                f.write(w.index)
        for name, data in w.files.items():
            with open(os.path.join(mirror, "F.diff", name + ".gz"), "wb") as f:
                f.write(data)
        os.makedirs(os.path.join(d, "local"))
        local = os.path.join(d, "local", "F")
        if case["local"] is not None:
            with open(local, "wb") as f:
                f.write("".join(case["local"]).encode("utf-8"))
        inj = _Injector(local + ".new", case.get("eff") or [], bool(case.get("unlink")))
        try:
            lines = _with_faults(inj, lambda: debian_support.update_file("file://" + mirror + "/F", local))
            res = {"ok": list(lines)}
        except Exception as e:      # noqa: BLE001
            res = {"err": err_kind(e)}
        after = None
        if os.path.exists(local):
            with open(local, "rb") as f:
                after = f.read().decode("utf-8", "surrogateescape")
        return {"res": res, "local_after": after, "new_after": os.path.exists(local + ".new"),
                "effects": "".join(x[0] for x in inj.log)}
    finally:
        shutil.rmtree(d, ignore_errors=True)


def _run_pf(case):
    from debian import debian_support
    data = case["data"].encode("latin-1")
    try:
        paras = list(debian_support.PackageFile("index", io.BytesIO(data)))
        return {"ok": [[[k, v] for k, v in p] for p in paras]}
    except Exception as e:      # noqa: BLE001
        return {"err": err_kind(e)}


def run_impl(case):
    if case["kind"] == "update":
        return _run_update(case)
    if case["kind"] == "pf":
        return _run_pf(case)
    return {"parts": re.split(r"\s+", case["s"])}


# ---------------------------------------------------------------------------
# Coq emitter

def _res(view):
    return "(Ok %s)" % cq_strs(view[1]) if view[0] == "ok" else "(Err %s)" % view[1]


_MODS = []


def _mods():
    if _MODS:
        return _MODS[0]

    def has(m):
        try:
            __import__(m)
            return True
        except ImportError:
            return False
    _MODS.append([has("_sha1"), has("_sha256"), has("_sha2")])
    return _MODS[0]


def _alias_lines(lines, known):
    """Replace every digest the harness knows by its short alias ~1~i / ~2~i (i = pool position)."""
    out = []
    for l in lines:
        if l is not None:
            for i, (d1, d256) in enumerate(known.values()):
                l = l.replace(d256, "~2~%d" % i).replace(d1, "~1~%d" % i)
        out.append(l)
    return out


def emit(case, obs):
    if case["kind"] == "split":
        return "CSplit %s %s" % (cq_str(case["s"]), cq_strs(obs["parts"]))
    if case["kind"] == "pf":
        lines = _index_lines(case["data"].encode("latin-1"))
        ls = cq_list([cq_opt(x, cq_str) for x in lines])
        if "ok" in obs:
            o = "(Ok %s)" % cq_list([cq_list(["(%s, %s)" % (cq_str(k), cq_str(v)) for k, v in p]) for p in obs["ok"]])
        else:
            o = "(Err %s)" % obs["err"]
        return "CPf %s %s" % (ls, o)
    w = build_world(case)
    m = _mods()
    contents = list(w.known)                       # insertion order = pool order
    pool = [_lf_lines(c) for c in contents]

    def ref(lines):
        return "(R %d)" % pool.index(lines) if lines in pool else "(L %s)" % cq_strs(lines)

    def cref(content):
        return "(R %d)" % contents.index(content) if content in w.known else "(L %s)" % cq_strs([content])

    def res(view):
        return "(Ok %s)" % ref(view[1]) if view[0] == "ok" else "(Err %s)" % view[1]

    il = _index_lines(w.index)
    index = cq_opt(il, lambda ls: cq_list([cq_opt(x, cq_str) for x in _alias_lines(ls, w.known)]))
    patches = cq_list(["(%s, %s)" % (cq_str(nm), res(_gunzip_view(data))) for nm, data in w.files.items()])
    r = obs["res"]
    o = "(Ok %s)" % ref(r["ok"]) if "ok" in r else "(Err %s)" % r["err"]
    return ("CU (mku %s %s %s\n %s\n %s\n %s\n %s\n %s\n %s %s\n %s %d%%N %s %s\n %s %s %s)" % (
        cq_bool(m[0]), cq_bool(m[1]), cq_bool(m[2]),
        cq_list([cq_strs(p) for p in pool]),
        cq_opt(case["local"], ref), index, patches, res(_gunzip_view(w.full)),
        cq_list([cq_bool(b) for b in (case.get("eff") or [])]), cq_bool(bool(case.get("unlink"))),
        cq_list(["%d" % pool.index(v) for v in case["hist"]]), w.idx_class,
        cq_list(["%d" % j for j in w.pfaults]), cq_bool(w.full_fault),
        o, cq_opt(obs["local_after"], cref), cq_bool(obs["new_after"])))


# ---------------------------------------------------------------------------
# generator

def _rand_lines(rng, lo, hi, vocab=VOCAB):
    return [rng.choice(vocab) for _ in range(rng.randint(lo, hi))]


def _edit(rng, v):
    v = list(v)
    for _ in range(rng.choice([1, 1, 2, 3])):
        r = rng.random()
        pos = rng.randint(0, len(v))
        if r < 0.4 or not v:
            v[pos:pos] = _rand_lines(rng, 1, 2)
        elif r < 0.7:
            del v[pos:pos + rng.randint(1, 2)]
        else:
            v[pos:pos + rng.randint(1, 2)] = _rand_lines(rng, 1, 2)
    return v


def _rand_history(rng):
    n = rng.choice([0, 1, 1, 2, 2, 3, 3, 4])
    hist = [_rand_lines(rng, 0, 5)]
    for _ in range(n):
        r = rng.random()
        if r < 0.08:
            hist.append(list(hist[-1]))                       # empty patch
        elif r < 0.2 and len(hist) >= 2:
            hist.append(list(hist[rng.randrange(len(hist) - 1)]))   # the content returns to an earlier state
        elif r < 0.25:
            hist.append([])
        else:
            hist.append(_edit(rng, hist[-1]))
    return hist


ORDERS = [["Current", "History", "Patches"], ["Current", "Patches", "History"], ["History", "Current", "Patches"],
          ["History", "Patches", "Current"], ["Patches", "Current", "History"], ["Patches", "History", "Current"]]
EXTRA_FIELDS = [("SHA1-Download", ""), ("X-Patch-Precedence", "merged"), ("Canonical-Path", "dists/sid/main/F"),
                ("X-Unmerged-SHA1-History", "abc 12 T-1"), ("SHA256-Download", "zz 1 n.gz"), ("Md5-Current", "x 1")]


def _rand_idx(rng):
    idx = {"kinds": rng.choice([["SHA1"], ["SHA1"], ["SHA256"], ["SHA256"], ["SHA1", "SHA256"], ["SHA256", "SHA1"]]),
           "order": rng.choice(ORDERS), "sep": rng.choice([" ", " ", "  ", "\t", "    "]),
           "lead_nl": rng.random() < 0.8, "final_blank": rng.random() < 0.3}
    if rng.random() < 0.4:
        idx["extra"] = [[rng.randint(0, 6)] + list(rng.choice(EXTRA_FIELDS)) for _ in range(rng.randint(1, 2))]
    if rng.random() < 0.25:
        idx["breaks"] = sorted({rng.randint(0, 5) for _ in range(rng.randint(1, 2))})
    return idx


IDX_MUTS = ["absent", "unparseable", "unparseable", "empty", "no_current", "current_cols", "current_cols", "hist_cols",
            "patch_cols", "vt_entry", "lower_names", "drop_patch_row", "drop_patch_row", "only_other", "current_cont",
            "wrong_current", "wrong_patch_hash", "wrong_hist_hash", "dup_history", "hist_swapped_cols",
            "blank_entries", "trailing_ws"]
PATCH_FAULTS = ["missing", "gztrunc", "gzflip", "drop_last", "drop_line", "change", "empty", "append", "other_patch"]


def _rand_eff(rng, nlines):
    m = nlines + 3
    eff = [False] * m
    r = rng.random()
    if r < 0.3:
        eff[m - 1] = True                   # the final rename
    elif r < 0.4:
        eff[0] = True                       # open
    elif r < 0.5:
        eff[m - 2] = True                   # close
    elif nlines:
        eff[1 + rng.randrange(nlines)] = True   # the i-th write
    else:
        eff[rng.randrange(m)] = True
    if rng.random() < 0.15:
        eff[rng.randrange(m)] = True
    if rng.random() < 0.1:
        eff = eff + [True]                  # beyond the last effect: never reached
    while eff and not eff[-1]:
        eff.pop()
    return eff


def _fault_recipe(rng, hist, local_is_current):
    """-> dict of fault keys; one main fault class per case, sometimes combined."""
    n = len(hist) - 1
    out = {}
    r = rng.random()
    if r < 0.3:
        return out
    if r < 0.58:
        t = rng.choice(IDX_MUTS)
        if EXTRA and rng.random() < 0.1:
            t = "nonutf8"
        out["mut"] = {"type": t, "arg": rng.randrange(10000)}
        if rng.random() < 0.8:
            return out
    if r < 0.78 or (out and rng.random() < 0.5):
        if n:
            out["pfault"] = {str(rng.randrange(n)): {"type": rng.choice(PATCH_FAULTS), "arg": rng.randrange(10000)}}
            if rng.random() < 0.15:
                out["pfault"][str(rng.randrange(n))] = {"type": rng.choice(PATCH_FAULTS), "arg": rng.randrange(10000)}
        elif rng.random() < 0.5:
            out["full_fault"] = rng.choice(["missing", "gztrunc"])
        if rng.random() < 0.8:
            return out
    if rng.random() < 0.08:
        out["full_fault"] = rng.choice(["missing", "gztrunc"])
    out["eff"] = _rand_eff(rng, len(hist[-1]))
    if rng.random() < 0.12:
        out["unlink"] = True
    return out


def _update_cases(rng):
    """All local points of one random history."""
    hist = _rand_history(rng)
    n = len(hist) - 1
    base_idx = _rand_idx(rng)
    locals_ = [list(v) for v in hist]
    foreign = _rand_lines(rng, 0, 4, VOCAB + FOREIGN_EXTRA)
    if _lf_lines("".join(foreign)) in hist:
        foreign = ["zz\n"] + foreign
    foreign = _lf_lines("".join(foreign))        # what readlines() will return
    locals_ += [foreign, None]
    for loc in locals_:
        idx = dict(base_idx) if rng.random() < 0.7 else _rand_idx(rng)
        f = _fault_recipe(rng, hist, loc == hist[-1])
        if "mut" in f:
            idx["mut"] = f.pop("mut")
        case = {"kind": "update", "hist": hist, "local": loc, "idx": idx}
        case.update(f)
        yield case


def _pf_case(rng):
    r = rng.random()
    if r < 0.5:
        hist = _rand_history(rng)
        idx = _rand_idx(rng)
        if rng.random() < 0.6:
            idx["mut"] = {"type": rng.choice(IDX_MUTS + ["nonutf8"]), "arg": rng.randrange(10000)}
        data = build_world({"kind": "update", "hist": hist, "local": None, "idx": idx}).index or b""
        data = re.sub(rb"[0-9a-f]{40,64}", lambda m: m.group(0)[:6], data)      # the parser does not care
        if rng.random() < 0.3 and data:
            k = rng.randrange(len(data))
            data = data[:k] + rng.choice([b"\n", b" ", b":", b"\t", b".", b"\r", b"\x0b", b"\xc2\xa0", b"\xff", b"-"]) + data[k + rng.randint(0, 1):]
    else:
        alpha = ["A", "b", "9", "-", "_", ":", " ", "\t", "\n", "\n", ".", "\r", "\x0b", "\x1c", "\u00a0", "\u2003", "x", "é"]
        data = "".join(rng.choice(alpha) for _ in range(rng.randint(0, 14))).encode("utf-8")
        if rng.random() < 0.5:
            data = b"Ab:" + data
    return {"kind": "pf", "data": data.decode("latin-1")}


def _split_case(rng):
    alpha = ["a", "b", " ", " ", "\t", "\n", "\x0b", "\x1c", "\x1f", "\u00a0", "\u2003", "\u200b", "\u3000", "\x85", "é"]
    return {"kind": "split", "s": "".join(rng.choice(alpha) for _ in range(rng.randint(0, 9)))}


def generate(rng, n, tier):
    n_leaf = n // 6
    made = 0
    while made < n - n_leaf:
        for c in _update_cases(rng):
            yield c
            made += 1
    for k in range(n_leaf):
        yield _pf_case(rng) if k % 3 else _split_case(rng)


def from_json(j):
    return j


# ---------------------------------------------------------------------------
# reporting helpers

def _local_label(case):
    if case["local"] is None:
        return "absent"
    if case["local"] == case["hist"][-1]:
        return "current"
    if case["local"] in case["hist"]:
        return "old"
    return "foreign"


def _fault_label(case):
    out = []
    mut = (case["idx"].get("mut") or {}).get("type")
    if mut:
        out.append("idx:" + mut)
    for j, pf in sorted((case.get("pfault") or {}).items()):
        out.append("patch:" + pf["type"])
    if case.get("full_fault"):
        out.append("full:" + case["full_fault"])
    eff = case.get("eff") or []
    if any(eff):
        m = len(case["hist"][-1]) + 3
        k = eff.index(True)
        out.append("fs:" + ("open" if k == 0 else "rename" if k == m - 1 else "close" if k == m - 2
                            else "write" if k < m else "beyond"))
    if case.get("unlink"):
        out.append("unlink")
    return "+".join(out) or "nofault"


def classify(case, obs):
    if case["kind"] == "pf":
        return "leaf:PackageFile/%s" % ("ok" if "ok" in obs else obs["err"])
    if case["kind"] == "split":
        return "leaf:re.split"
    res = obs["res"]
    kinds = case["idx"]["kinds"]
    return "%s/%s/%s/%s" % (kinds[0] if len(kinds) == 1 else "both", _local_label(case), _fault_label(case),
                            "ok" if "ok" in res else res["err"])


def nontrivial(case, obs):
    if case["kind"] != "update":
        return False
    return _local_label(case) != "current" or _fault_label(case) != "nofault"


def extra_evidence(items):
    eff = {}
    for c, o in items:
        if c["kind"] == "update":
            t = re.sub(r"w+", "w+", o.get("effects", "")) or "-"      # o=open w=write c=close r=rename u=unlink
            eff[t] = eff.get(t, 0) + 1
    return {"effect_traces": eff}


def shrink(case):
    if case["kind"] == "pf":
        d = case["data"]
        for i in range(len(d)):
            yield dict(case, data=d[:i] + d[i + 1:])
        return
    if case["kind"] == "split":
        s = case["s"]
        for i in range(len(s)):
            yield dict(case, s=s[:i] + s[i + 1:])
        return
    # drop whole faults first
    for key in ("pfault", "full_fault", "eff", "unlink"):
        if case.get(key):
            c = dict(case)
            c.pop(key)
            yield c
    idx = case["idx"]
    if idx.get("mut"):
        yield dict(case, idx={k: v for k, v in idx.items() if k != "mut"})
    for key in ("extra", "breaks", "final_blank"):
        if idx.get(key):
            yield dict(case, idx={k: v for k, v in idx.items() if k != key})
    if len(idx["kinds"]) > 1:
        for K in idx["kinds"]:
            yield dict(case, idx=dict(idx, kinds=[K]))
    if idx.get("sep", " ") != " ":
        yield dict(case, idx=dict(idx, sep=" "))
    if idx["order"] != ORDERS[0]:
        yield dict(case, idx=dict(idx, order=ORDERS[0]))
    hist = case["hist"]
    # shorten the history from either end (faults refer to positions: drop them)
    if len(hist) > 1 and not case.get("pfault"):
        yield dict(case, hist=hist[1:])
        yield dict(case, hist=hist[:-1])
    # shorten versions
    for j, v in enumerate(hist):
        for i in range(len(v)):
            yield dict(case, hist=hist[:j] + [v[:i] + v[i + 1:]] + hist[j + 1:])
    if case["local"]:
        loc = case["local"]
        for i in range(len(loc)):
            yield dict(case, local=loc[:i] + loc[i + 1:])
    eff = case.get("eff") or []
    for i, b in enumerate(eff):
        if b and sum(eff) > 1:
            yield dict(case, eff=eff[:i] + [False] + eff[i + 1:])


def describe(case, obs):
    if case["kind"] != "update":
        return {"leaf": case["kind"], "input": case, "observed": obs}
    w = build_world(case)
    return {
        "call": "update_file('file://<mirror>/F', '<dir>/F') against a mirror built from the history",
        "history": case["hist"], "local_before": case["local"], "local_is": _local_label(case),
        "index_bytes": None if w.index is None else w.index.decode("latin-1"),
        "published_patches": {nm: _gunzip_view(d) for nm, d in w.files.items()},
        "faults": _fault_label(case), "fault_schedule(open,write*,close,rename)": case.get("eff"),
        "observed": obs,
        "specified": "returned lines == local file == history[-1]; or, when a fault is hit, an exception with the "
                     "local file exactly as before and no '.new' left",
    }
