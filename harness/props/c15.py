"""C15 — Changelog parsing is total and strictness-consistent; str() output is a normal form."""
from harness import core
from harness.core import cq_N, cq_bool, cq_list, cq_opt
from harness.props import clcommon as cl

ID = "C15"
CHECK_MODULE = "Changelog.Check"
PROPS_FILE = "Props/C15.v"
# the printer (ChangeBlock._format / Changelog._format / __str__), add_change and add_trailing_line are regenerated from
# the source and tied to the model in coq/Props/C04Tie.v (spec: harness/props/clcommon.py TR_BLOCK / TR_MODULE)
TIE_FILE = "Props/C04Tie.v"
ANCHORS = [("lib/debian/changelog.py",
            ["parse_changelog", "_format", "_parse_error", "new_block", "add_change", "__init__",
             "topline", "blankline", "changere", "endline", "endline_nodetails", "keyvalue", "value_re",
             "emacs_variables", "vim_variables", "cvs_keyword", "comments", "more_comments",
             "old_format_re1", "old_format_re2", "old_format_re3", "old_format_re4",
             "old_format_re5", "old_format_re6", "old_format_re7", "old_format_re8"])]
BUDGET = {"quick": 1500, "thorough": 20000}
SHARD = 250
SHARD_IMPORTS = cl.SHARD_IMPORTS
RULE = ("two thirds: texts obtained from grammar-generated well-formed changelogs (clcommon.gen_doc) by 0-4 line edits: "
        "insert / delete / duplicate / replace / swap lines, inserted lines drawn from headers (good, and with missing or "
        "malformed key=value parts, repeated keys, ';' inside the version), trailers (two-space, one-space, three-space, "
        "without date, ' --', ' -- '), editor mode lines (emacs, vim), cvs keywords, '# ' and '/* */' comments, one marker "
        "for each of old_format_re1..8, unindented and one-space-indented text, blank and white-space-only lines, plus "
        "single-character edits of a line; also the empty and blank texts; each text given as str, UTF-8 bytes, list of "
        "lines (with and without LF) or an open file; allow_empty_author on and off; max_blocks None (mostly), 1, 2 or 3; "
        "the constructor is run lenient and strict, and str() of the lenient result is parsed again.  One third: editing "
        "scripts of 1-5 calls (new_block with any subset of arguments, add_change, assignment to package / version / "
        "distributions / urgency / author / date) on Changelog() or on a parsed well-formed or mutated changelog, with "
        "values inside and outside their documented domains; str() of the result is parsed again.  A few regex-leaf "
        "cases.  non-trivial = the lenient parse produced a block, or the script ran at least one call")
TRUSTED = ["tie by regeneration (coq/Props/C04Tie.v): parse_changelog / _parse_error / __init__ / ChangeBlock._format / "
           "Changelog._format / __str__ / add_change / add_trailing_line are regenerated from the source (harness/py2coq.py) and "
           "proved equal to the model for all inputs; trusted there: the translator, coq/Lib/Tr.v, the primitives of "
           "coq/Changelog/TrPrims.v and TrPrimsParse.v (regex leaves = the model's leaves, str/list/dict methods, "
           "ChangeBlock() = empty_block, attribute stores as record updates, warnings as kinds) and the types in clcommon.py",
           "model coq/Changelog/Model.v is a hand transcription of Changelog.parse_changelog / _format / new_block / "
           "add_change / the attribute setters (seven regex leaves included); tied to the code only by this correspondence",
           "the thirteen junk patterns (emacs/vim/cvs/comments/old_format_re1-8) are not modelled: per-case "
           "line->flags tables are computed by the harness from the live compiled patterns (the theorems hold for "
           "every instance of these classifiers)",
           "coq/Gen/ClChars.v character classes enumerated by the running interpreter from the class texts in the source",
           "case literals: harness encoder clcommon.cq_lit and decoder coq/Changelog/Lit.v declit (compared with "
           "coq/Lib/Dec.v on sample texts on every C04 run)"]
ASSUMPTIONS = ["UTF-8 decoding of bytes input is the inverse of encoding (bytes form is modelled as the str)",
               "text-file iteration is modelled for CR-free content only; list-of-lines inputs carry no CR and no inner LF "
               "(they stand for texts, as the property's quantifier says)",
               "set_version(v) is exercised only with strings debian_support.Version accepts (C14's subject)",
               "max_blocks=0 is not generated: with it the constructor returns before any block, and a non-blank leading "
               "line then formats to a text whose parse has one (empty) block; max_blocks is not part of C15's quantifier",
               "normal form is claimed for editing calls whose values are in their documented domains "
               "(coq/Changelog/Spec.v new_block_ok, wf_author, wf_date_str, change_line, ...)"]

JUNK_LINES = ["Local variables:", ";; Local variables:", ";;  local VARIABLES: x", "vim: set sw=2:", "VIM:x",
              "$Id: changelog 1 $", "$Log: x$ y", "# comment", "#nocomment", "/* a comment */", "/* unterminated",
              "Mon Jan  1 00:00:00 2001 Joe <j@x>", "Mon Jan 1 0:0:0 UTC 2001 Joe (j@x)", "Mon Jan 1, 2001 Joe (j@x)",
              "Mon Jan 12 2001  Joe  <j@x>", "pkg (1.0)", "pkg (1.0);", "pkg (1.0) unstable", "pkg 1.0 Debian 1",
              "pkg-1.0 Debian 1", "Changes from version 1.0 to 1.1:", "Changes for pkg-1.0:", "Changes for pkg-1.0",
              "Old Changelog:", "old changelog:  ", "foo:", "1:foo", "word", "w.o+r~d-1:  ",
              # text that means something to %-formatting, str.format and regex replacement templates
              "100% junk", "use %s here", "%d %(x)s %%", "{0} {} {x}", "back\\1 \\g<0>", "100%"]
OTHER_LINES = ["garbage here", "x y", " one space indented", "\tTab indented", " --", " -- ", " --  \t", "--", " --x",
               " -- Joe <j@x>", " -- Joe <j@x> Mon, 01 Jan 2001 00:00:00 +0000", " -- Joe <j@x>   Mon, 01 Jan 2001 00:00:00 +0000",
               " -- Joe <j@x>  Mon, 01 Jan 2001 00:00:00", " -- <>  1 J 2001 1:00:00 +0000", " -- Joe <j@x>  Mon, 01 Jan 2001 00:00:00 +0000  ",
               " -- Joe <j@x> <k@y>  Mon,  1 Jan 2001 0:00:00 -0100", " -- Joe  Mon, 01 Jan 2001 00:00:00 +0000",
               "", "", " ", "  ", "\x0c", "\xa0 ",
               "p (1;2) u; urgency=low", "p (1.0) unstable; urgency=low, urgency=high", "p (1.0) unstable; urgency=",
               "p (1.0) unstable;", "p (1.0) unstable; foo", "p (1.0) unstable; k=v", "p (1.0) unstable; urgency=l.w",
               "p (1.0) unstable; urgency=low x, K=1, k=2", "p (1.0) unstable; urgency=low;x=1", "p (1.0) unstable; Urgency=LOW, URGENCY=high",
               "p (1.0) a b  c; urgency=low ,  x = 1 ", "P (1) U; URGENCY=HIGH", "p (1) u; urgency=low\tc, binary-only=yes",
               "p (1) u; urgency=low,,x=1,", "p (1) u ; urgency=low", "p (1)u; urgency=low", "p  (1) u; urgency=low",
               "p (1) u; urgency=low, ſ=1, K=2, k=3", "漢 (1) u; urgency=medium (really)", "p (1) u;x=1,urgency=high  c  "]
EDIT_ALPH = [" ", ";", ",", "=", "(", ")", "<", ">", "-", "a", "1", ":", "\t", "#", "\x0c", " ", "\xe9"]


def _header(rng):
    b = cl.gen_block(rng, small=True)
    return cl.header_of(b)


def _trailer(rng):
    b = cl.gen_block(rng, small=True)
    return cl.trailer_of(b)


def _new_line(rng):
    r = rng.random()
    if r < 0.3:
        return "junk", rng.choice(JUNK_LINES)
    if r < 0.65:
        return "other", rng.choice(OTHER_LINES)
    if r < 0.78:
        return "header", _header(rng)
    if r < 0.9:
        return "trailer", _trailer(rng)
    return "change", cl.gen_change_line(rng)


def mutate_lines(rng, lines):
    """0-4 line edits; returns (lines, [kinds])"""
    ls = list(lines)
    kinds = []
    for _ in range(rng.choice([0, 1, 1, 1, 2, 2, 3, 4])):
        r = rng.random()
        i = rng.randint(0, len(ls))
        if r < 0.4 or not ls:
            k, l = _new_line(rng)
            ls.insert(i, l)
            kinds.append("ins-" + k)
        elif r < 0.6:
            del ls[min(i, len(ls) - 1)]
            kinds.append("del")
        elif r < 0.72:
            j = min(i, len(ls) - 1)
            ls.insert(j, ls[j])
            kinds.append("dup")
        elif r < 0.82:
            k, l = _new_line(rng)
            ls[min(i, len(ls) - 1)] = l
            kinds.append("repl-" + k)
        elif r < 0.88 and len(ls) >= 2:
            j = rng.randint(0, len(ls) - 2)
            ls[j], ls[j + 1] = ls[j + 1], ls[j]
            kinds.append("swap")
        else:
            j = min(i, len(ls) - 1)
            l = list(ls[j])
            p = rng.randint(0, len(l))
            q = rng.random()
            if q < 0.4 and l:
                del l[min(p, len(l) - 1)]
            elif q < 0.8:
                l.insert(p, rng.choice(EDIT_ALPH))
            elif l:
                l[min(p, len(l) - 1)] = rng.choice(EDIT_ALPH)
            ls[j] = "".join(l)
            kinds.append("chr")
    return ls, kinds


def _mut_text(rng):
    r = rng.random()
    if r < 0.03:
        return rng.choice(["", "\n", "  \n\t\n", " ", "\x0c\n\xa0"]), ["blank"]
    small = rng.random() < 0.75
    doc = cl.gen_doc(rng, max_blocks=2 if small else 4, small=small)
    ls, kinds = mutate_lines(rng, cl.doc_lines(doc))
    text = "".join(l + "\n" for l in ls)
    q = rng.random()
    if q < 0.05 and text:
        text = text[:-1]                       # no final newline
        kinds.append("nofinal")
    elif q < 0.09:
        text = text.replace("\n", "\r\n")      # CRLF text (str / bytes only)
        kinds.append("crlf")
    elif q < 0.13:
        # every line terminator drawn separately: LF, CRLF, bare CR, doubled CR before LF (unix2dos twice), LF CR;
        # possibly a last line ended by a bare CR
        parts = text.split("\n")
        text = "".join(pt + rng.choice(["\n", "\r\n", "\r", "\r\r\n", "\n", "\r\n", "\n\r"]) for pt in parts[:-1]) + parts[-1]
        if rng.random() < 0.3 and text.endswith("\n"):
            text = text[:-1].rstrip("\r") + "\r"
        kinds.append("mixedeol")
    return text, kinds


def _input(rng, text):
    if "\r" in text:
        return {"form": rng.choice(["str", "str", "bytes"]), "text": text}
    return cl.input_forms(rng, text)


def _mut_case(rng):
    text, kinds = _mut_text(rng)
    return {"kind": "mut", "inp": _input(rng, text), "allow": rng.random() < 0.4,
            "maxb": rng.choice([None] * 8 + [1, 2, 3]), "mut": kinds,
            "pre": rng.choice(cl.PRE_TEXTS) if rng.random() < 0.06 else None}


# --- editing scripts

def _opt(rng, p, f):
    return f() if rng.random() < p else None


def _dom_author(rng):
    n, m = cl.gen_name_mail(rng)
    return "%s <%s>" % (n, m)


def _odd(rng):
    return rng.choice(["", " ", "a b", "x;y", "1,2", "q\nr", "(", "漢", " lead", "trail ", "k=v", "-- a <b>  c"])


def gen_new_block(rng):
    full = rng.random() < 0.6
    p = 0.95 if full else 0.5
    bad = rng.random() < 0.2            # one value outside its domain
    b = cl.gen_block(rng, small=True)
    args = {
        "package": _opt(rng, p, lambda: b["package"]),
        "version": _opt(rng, p, lambda: b["version"]),
        "dists": _opt(rng, p, lambda: " ".join(b["dists"])),
        "urgency": _opt(rng, 0.6, lambda: rng.choice([b["urgency"], b["urgency"], ""])),
        "comment": _opt(rng, 0.3, lambda: rng.choice([b["comment"], ""])),
        "changes": _opt(rng, 0.7, lambda: list(b["changes"])),
        "author": _opt(rng, p, lambda: cl.author_of(b)),
        "date": _opt(rng, p, lambda: b["date"]),
        "pairs": _opt(rng, 0.3, lambda: [list(x) for x in b["pairs"]]),
    }
    if bad:
        k = rng.choice(["package", "version", "dists", "urgency", "comment", "author", "date", "changes", "pairs"])
        if k == "changes":
            args[k] = [rng.choice(["no indent", " one", "  a\n  b", "x"])]
        elif k == "pairs":
            args[k] = [[rng.choice(["k", "urgency", "a b", ""]), _odd(rng)]]
        else:
            args[k] = _odd(rng)
    return {"op": "new_block", "args": args}


READS = ["version", "versions", "full_version", "upstream_version", "getitem0", "block_version", "package", "author"]


def gen_op(rng):
    r = rng.random()
    if r < 0.1:
        # reading never changes the object (no counterpart in the model's script)
        return {"op": "read", "what": rng.choice(READS)}
    if r < 0.4:
        return gen_new_block(rng)
    if r < 0.6:
        q = rng.random()
        if q < 0.75:
            s = cl.gen_change_line(rng)
        else:
            s = rng.choice(["no indent", " one", "  a\n  b", "", "  * x\r", " -- a <b>  Mon, 01 Jan 2001 00:00:00 +0000"])
        return {"op": "add_change", "s": s}
    a = rng.choice(["package", "version", "dists", "urgency", "author", "date"])
    dom = rng.random() < 0.8
    if a == "version":
        v = cl.gen_version(rng)        # set_version goes through Version(): only valid strings (C14's subject)
    elif not dom:
        v = _odd(rng)
    elif a == "package":
        v = cl.gen_package(rng)
    elif a == "dists":
        v = " ".join(cl.gen_dist(rng) for _ in range(rng.choice([1, 1, 2])))
    elif a == "urgency":
        v = rng.choice(["low", "medium", "HIGH", "x-1"])
    elif a == "author":
        v = _dom_author(rng)
    else:
        v = cl.gen_date(rng)
    return {"op": "set", "attr": a, "v": v}


def _edit_case(rng):
    r = rng.random()
    if r < 0.3:
        start = None
    else:
        if r < 0.75:
            text = cl.render_doc(cl.gen_doc(rng, max_blocks=2, small=True))
        else:
            text, _ = _mut_text(rng)
        start = _input(rng, text)
    ops = [gen_op(rng) for _ in range(rng.choice([1, 1, 2, 2, 3, 4, 5]))]
    if rng.random() < 0.1:
        # "bump the version": look at the version, then assign a new one
        ops = [{"op": "read", "what": rng.choice(READS[:6])},
               {"op": "set", "attr": "version", "v": cl.gen_version(rng)}] + ops[:2]
    if start is None and rng.random() < 0.85 and ops[0]["op"] != "new_block":
        ops.insert(0, gen_new_block(rng))
    return {"kind": "edit", "start": start, "ops": ops}


def generate(rng, n, tier):
    n_leaf = n // 12
    n_edit = n // 3
    n_mut = n - n_leaf - n_edit
    for _ in range(n_mut):
        yield _mut_case(rng)
    for _ in range(n_edit):
        yield _edit_case(rng)
    for c in cl.gen_leaf_cases(rng, n_leaf, extra_seeds=[(0, l) for l in OTHER_LINES if l.startswith("p (")]
                               + [(3, l) for l in OTHER_LINES if l.startswith(" --")]
                               + [(4, l) for l in OTHER_LINES if l.startswith(" --")]):
        yield c


def from_json(j):
    return j


def _read(c, what):
    try:
        if what == "version":
            return c.version
        if what == "versions":
            return c.versions
        if what == "full_version":
            return c.full_version
        if what == "upstream_version":
            return c.upstream_version
        if what == "getitem0":
            return c[0].version
        if what == "block_version":
            return [b.version for b in c]
        if what == "package":
            return c.package
        return c.author
    except Exception:
        return None


def _apply_op(c, op):
    if op["op"] == "read":
        _read(c, op["what"])
        return
    if op["op"] == "new_block":
        a = op["args"]
        kw = {}
        for k, name in (("package", "package"), ("version", "version"), ("dists", "distributions"),
                        ("urgency", "urgency"), ("comment", "urgency_comment"), ("author", "author"), ("date", "date")):
            if a[k] is not None:
                kw[name] = a[k]
        if a["changes"] is not None:
            kw["changes"] = list(a["changes"])
        if a["pairs"] is not None:
            kw["other_pairs"] = {k: v for k, v in a["pairs"]}
        c.new_block(**kw)
    elif op["op"] == "add_change":
        c.add_change(op["s"])
    else:
        a, v = op["attr"], op["v"]
        if a == "package":
            c.package = v
        elif a == "version":
            c.version = v
        elif a == "dists":
            c.distributions = v
        elif a == "urgency":
            c.urgency = v
        elif a == "author":
            c.author = v
        else:
            c.date = v


def run_impl(case):
    if case["kind"] == "leaf":
        return {"groups": cl.leaf_groups(case["leaf"], case["s"])}
    if case["kind"] == "mut":
        len_r, _ = cl.construct(case["inp"], strict=False, allow=case["allow"], maxb=case["maxb"], pre=case.get("pre"))
        str_r, _ = cl.construct(case["inp"], strict=True, allow=case["allow"], maxb=case["maxb"], pre=case.get("pre"))
        return {"lenient": len_r, "strict": str_r, "re": cl.reparse_of(len_r, case["allow"])}
    # edit
    from debian import changelog
    nwarn = 0
    if case["start"] is None:
        c = changelog.Changelog()
    else:
        r, c = cl.construct(case["start"], strict=False, allow=False, maxb=None)
        if c is None:
            return {"o": r, "re": None}
        nwarn = r["ok"]["warnings"]
    for op in case["ops"]:
        try:
            _apply_op(c, op)
        except Exception as e:
            return {"o": {"err": core.err_kind(e)}, "re": None}
    o = {"ok": cl.observe(c, nwarn)}
    return {"o": o, "re": cl.reparse_of(o, False)}


def _dedup_pairs(ps):
    """dict(pairs) as the driver builds it, in insertion order"""
    d = {}
    for k, v in ps:
        d[k] = v
    return [[k, v] for k, v in d.items()]


def _cq_op(op, L):
    if op["op"] == "new_block":
        a = op["args"]
        o = lambda k: cq_opt(a[k], L)
        return "(LNewBlock %s %s %s %s %s %s %s %s %s)" % (
            o("package"), o("version"), o("dists"), o("urgency"), o("comment"),
            cq_opt(a["changes"], lambda x: cl.cq_lits(x, L)), o("author"), o("date"),
            cq_opt(a["pairs"], lambda x: cl.cq_pairs(_dedup_pairs(x), L)))
    if op["op"] == "add_change":
        return "(LAddChange %s)" % L(op["s"])
    attr = {"package": "Changelog.Model.APackage", "version": "Changelog.Model.AVersion", "dists": "Changelog.Model.ADists",
            "urgency": "Changelog.Model.AUrgency",
            "author": "Changelog.Model.AAuthor", "date": "Changelog.Model.ADate"}[op["attr"]]
    return "(LSetAttr %s %s)" % (attr, L(op["v"]))


def _op_texts(ops):
    out = []
    for op in ops:
        if op["op"] == "add_change":
            out.append(op["s"])
        elif op["op"] == "new_block":
            out += list(op["args"]["changes"] or [])
    return out


def emit(case, obs):
    if case["kind"] == "leaf":
        return cl.emit_leaf(case, obs)
    if case["kind"] == "mut":
        tbl = cl.junk_table(cl.case_lines(case["inp"], obs["lenient"], obs["strict"], obs["re"]))

        def build(L):
            return "CMut %s %s %s %s %s %s %s" % (
                cl.cq_input(case["inp"], L), cq_bool(case["allow"]), cq_opt(case["maxb"], cq_N), cl.cq_tbl(tbl, L),
                cl.cq_res(obs["lenient"], L), cl.cq_res(obs["strict"], L), cq_opt(obs["re"], lambda r: cl.cq_res(r, L)))
        return cl.with_lits(build)
    lines = cl.case_lines(case["start"], obs["o"], obs["re"])
    for t in _op_texts(case["ops"]):
        lines |= cl.all_lines(t)
    tbl = cl.junk_table(lines)

    def build(L):
        return "CEdit %s %s %s %s %s" % (
            cq_opt(case["start"], lambda i: cl.cq_input(i, L)), cl.cq_tbl(tbl, L),
            cq_list([_cq_op(op, L) for op in case["ops"] if op["op"] != "read"]), cl.cq_res(obs["o"], L),
            cq_opt(obs["re"], lambda r: cl.cq_res(r, L)))
    return cl.with_lits(build)


def classify(case, obs):
    if case["kind"] == "leaf":
        return "leaf/%s/%s" % (cl.LEAF_NAMES[case["leaf"]], "match" if obs["groups"] is not None else "nomatch")
    if case["kind"] == "mut":
        le, st = obs["lenient"], obs["strict"]
        w = "raised:" + le["err"] if "err" in le else ("warn" if le["ok"]["warnings"] else "clean")
        s = st["err"] if "err" in st else "ok"
        f = "fmt-ok" if ("ok" in le and "ok" in le["ok"]["str"]) else "fmt-err"
        m = case["mut"][0] if case["mut"] else "none"
        return "mut/%s/%s/%s/strict-%s/%s/%s%s%s" % (m, case["inp"]["form"], w, s, f,
                                                     "allow" if case["allow"] else "noallow",
                                                     "" if case["maxb"] is None else "/maxb",
                                                     "" if case.get("pre") is None else "/reparse")
    o = obs["o"]
    start = "empty" if case["start"] is None else "parsed"
    kinds = "+".join(sorted(set(op["op"] if op["op"] != "set" else "set-" + op["attr"] for op in case["ops"])))
    for i, op in enumerate(case["ops"]):
        if op["op"] == "read" and any(o["op"] == "set" and o["attr"] == "version" for o in case["ops"][i + 1:]):
            kinds += "/read-then-set-version"
            break
    if "err" in o:
        return "edit/%s/%s/raised:%s" % (start, kinds, o["err"])
    return "edit/%s/%s/%s" % (start, kinds, "fmt-ok" if "ok" in o["ok"]["str"] else "fmt-err")


def nontrivial(case, obs):
    if case["kind"] == "leaf":
        return obs["groups"] is not None
    if case["kind"] == "mut":
        return "ok" in obs["lenient"] and bool(obs["lenient"]["ok"]["blocks"])
    return "ok" in obs["o"]


def _lines_of(inp):
    if inp["form"] == "lines":
        return [l.rstrip("\n") for l in inp["lines"]]
    t = inp["text"].replace("\r\n", "\n")
    ls = t.split("\n")
    if ls and ls[-1] == "":
        ls.pop()
    return ls


def _shrink_input(inp):
    ls = _lines_of(inp)
    if inp["form"] != "str":
        yield {"form": "str", "text": "".join(l + "\n" for l in ls)}
    for i in range(len(ls)):
        yield {"form": "str", "text": "".join(l + "\n" for l in ls[:i] + ls[i + 1:])}
    for i, l in enumerate(ls):
        if len(l) > 12:
            for a, b in ((0, len(l) // 2), (len(l) // 2, len(l))):
                yield {"form": "str", "text": "".join(x + "\n" for x in ls[:i] + [l[:a] + l[b:]] + ls[i + 1:])}


def shrink(case):
    if case["kind"] == "leaf":
        s = case["s"]
        for i in range(len(s)):
            yield dict(case, s=s[:i] + s[i + 1:])
        return
    if case["kind"] == "mut":
        if case.get("pre") is not None:
            yield dict(case, pre=None)
        if case["maxb"] is not None:
            yield dict(case, maxb=None)
        if case["allow"]:
            yield dict(case, allow=False)
        for inp in _shrink_input(case["inp"]):
            yield dict(case, inp=inp)
        return
    ops = case["ops"]
    for i in range(len(ops)):
        yield dict(case, ops=ops[:i] + ops[i + 1:])
    if case["start"] is not None:
        yield dict(case, start=None)
        for inp in _shrink_input(case["start"]):
            yield dict(case, start=inp)
    for i, op in enumerate(ops):
        if op["op"] == "new_block":
            for k, v in op["args"].items():
                if v is not None:
                    yield dict(case, ops=ops[:i] + [dict(op, args=dict(op["args"], **{k: None}))] + ops[i + 1:])


def describe(case, obs):
    if case["kind"] == "leaf":
        return {"leaf": cl.LEAF_NAMES[case["leaf"]], "subject": case["s"], "groups": obs["groups"]}
    if case["kind"] == "mut":
        return {"call": "Changelog(<%s>, allow_empty_author=%s, max_blocks=%s) with strict=False and strict=True; "
                        "then Changelog(str(lenient result), allow_empty_author=%s)"
                        % (case["inp"]["form"], case["allow"], case["maxb"], case["allow"]),
                "input": case["inp"],
                "specified": "lenient does not raise; strict raises ChangelogParseError iff lenient warned, otherwise the "
                             "same blocks; if str() succeeds, parsing it gives the same blocks and the same str()",
                "observed": obs}
    return {"call": "Changelog(%s); %s; str(); Changelog(str())" % ("<start>" if case["start"] else "", case["ops"]),
            "start": case["start"],
            "specified": "for calls with values in their documented domains: if str() succeeds, parsing it gives the same "
                         "blocks (package, version, distributions, urgency, changes, author, date) and the same str()",
            "observed": obs}


def known_match(finding, case, obs):
    """K2 only (if the integrator lists it): a block parsed at EOF without a trailer (_no_trailer) was afterwards
    given an author or a date, which str() does not write."""
    if finding.get("id") != "K2" or case.get("kind") != "edit":
        return False
    o = obs.get("o", {})
    if "ok" not in o:
        return False
    return any(b["no_trailer"] and (b["author"] is not None or b["date"] is not None) for b in o["ok"]["blocks"])
