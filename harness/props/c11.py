"""C11 — list views of a field read the exact values and write back only what changed.

Public API driven: parse_deb822_file(...), paragraph.get_kvpair_element(name),
kvpair.interpret_as(LIST_SPACE_SEPARATED_INTERPRETATION | LIST_COMMA_SEPARATED_INTERPRETATION) used as a
context manager, iteration, append / remove / replace / iter_value_references (+ .value, .value = x,
.remove()) / append_separator / append_newline / append_comment, file.dump(), and a fresh parse + fresh
interpretation of the dump.  The model (coq/Repro/ListView.v) works on the text of the field's value
element, which the driver takes from the implementation's own parse together with the text before and
after the field.
"""
import itertools
import re

from harness.core import cq_bool, cq_list, cq_opt, cq_str, cq_strs, err_kind, cq_N, cq_nat

ID = "C11"
CHECK_MODULE = "Repro.ListCheck"
PROPS_FILE = "Props/C11.v"
ANCHORS = [
    ("lib/debian/_deb822_repro/tokens.py",
     ["_value_line_tokenizer", "whitespace_split_tokenizer", "comma_split_tokenizer",
      "_RE_WHITESPACE_SEPARATED_WORD_LIST", "_RE_COMMA_SEPARATED_WORD_LIST", "_RE_WHITESPACE_LINE",
      "Deb822SpaceSeparatorToken", "Deb822CommaToken", "Deb822ValueToken", "Deb822CommentToken",
      "Deb822ValueContinuationToken", "Deb822NewlineAfterValueToken", "Deb822WhitespaceToken",
      "Deb822SemanticallySignificantWhiteSpace"]),
    ("lib/debian/_deb822_repro/parsing.py",
     ["ValueReference", "Deb822ParsedTokenList", "GenericContentBasedInterpretation", "ListInterpretation",
      "_parser_to_value_factory", "_parse_whitespace_list_value", "_parse_comma_list_value", "_is_comma_token",
      "_parsed_value_render_factory", "LIST_SPACE_SEPARATED_INTERPRETATION",
      "LIST_COMMA_SEPARATED_INTERPRETATION", "Deb822ParsedValueElement", "_format_comment"]),
    ("lib/debian/_deb822_repro/_util.py", ["len_check_iterator", "BufferingIterator"]),
    ("lib/debian/_util.py", ["LinkedList", "LinkedListNode"]),
]
BUDGET = {"quick": 2000, "thorough": 24000}
SHARD = 200
RULE = ("documents pre + NAME ':' value + post; value = lead + values joined by separators + trail, drawn from: "
        "within-line whitespace (SP, TAB, NBSP, EM SPACE, runs), line breaks with SP/TAB continuation and 0-2 "
        "comment lines before the continuation, commas with/without surrounding whitespace, doubled and trailing "
        "separators, blank first line ('F: \\n a'), first value starting with '#', values with inner blanks / "
        "line breaks (comma lists), CRLF documents, unterminated last line; a separate stream with line "
        "boundaries other than LF (FF, VT, CR, NEL, LS, FS) and with empty values (outside the property's domain: "
        "only the correspondence is demanded there); x both interpretations x operation sequences of length 0-7 "
        "(0 = open and close without change) over append / remove / replace / snapshot of references / "
        "ref.value / ref.value = x / ref.remove() / append_separator / append_newline / append_comment, and - in about "
        "8% of the edit sessions - reformat_when_finished() at any position of the operation list, on values with "
        "0-3 comment lines before the first value, a blank first line and comment lines between the values (the "
        "write-back then goes through formatter.one_value_per_line_trailing_separator), "
        "arguments mostly present values and good new values, sometimes absent values, '', blanks, values with "
        "separators, line breaks, stale or out-of-range references.  Leaf cases: the two finditer patterns "
        "against the live compiled objects (bounded-exhaustive over {a , SP TAB # NBSP} + random), the live "
        "tokenizer functions on whole value texts, parse_deb822_file on 'NAME:content' against the model's "
        "re-parse recogniser, ListSpec.split_spec against the harness's own splitting oracle.  "
        "non-trivial = a view case whose field has a value or whose operation list is non-empty, or a leaf "
        "case with a non-empty input")
TRUSTED = ["model coq/Repro/ListView.v is a hand transcription of the list-view code (regex leaves ws_finditer / "
           "comma_finditer for _RE_WHITESPACE_SEPARATED_WORD_LIST / _RE_COMMA_SEPARATED_WORD_LIST under finditer, "
           "incl. the empty-match/must-advance rule); tied to the code by this correspondence and, for the control flow of "
           "the three tokenizer functions and of the Deb822ParsedTokenList / ValueReference methods, by regeneration "
           "(coq/Props/C11Tie.v: equalities resp. refinement theorems over C09's regenerated LinkedList); the regex leaves, "
           "the value factory as a whole, interpret (__init__ + stream parsers) and _update_field stay hand-modelled",
           "the re-parse inside _update_field is modelled by a recogniser of 'NAME:content' (ListView.reparse), "
           "compared with parse_deb822_file on its own (CReparse cases) and through every edited session",
           "generator laziness is collapsed (the tokenizer's assert fires on the first pull; every other failure "
           "of the token pipeline is a ValueError)",
           "a ValueReference resolves exactly while its node is linked (CPython reference counting frees an "
           "unlinked node at once); RuntimeError is compared as kind OtherError"]
ASSUMPTIONS = ["\\s of a str pattern = str.isspace() = the whitespace of str.strip()/str.split() "
               "(coq/Gen/PyChars.v, generated from the running interpreter)",
               "property domain (ListSpec.value_ok): the value text has content, no line boundary of "
               "str.splitlines() other than LF (CR included: for CRLF documents only the correspondence is "
               "demanded), continuation lines start with SP, TAB or '#' and are not "
               "blank (what the deb822 parser guarantees); outside it holds is not demanded, agree is",
               "every session reads list(view) right after opening the view and after every successful operation "
               "(Deb822ParsedValueElement caches convert_to_text() and convert_to_text_without_comments() in ONE "
               "slot, so what a multi-token comma value renders as depends on which was called first; the model "
               "records it per element: parsed elements comment-free, elements made by the value factory with "
               "their comment lines)",
               "the edit read-back theorems (3, 5 whitespace lists; 6, 7 comma lists) cover append / remove / replace "
               "and the value-reference operations with good new values (ListSpec.good_value) on value texts that "
               "do not end inside a comment (ListSpec.closed_value); append_separator / append_newline / "
               "append_comment and other new values are covered by the correspondence and by holds only",
               "field names are ASCII names accepted by _RE_FIELD_LINE (taken from the implementation's parse)",
               "asserts are enabled (python without -O): an empty value read through a list view raises AssertionError"]

from_json = lambda j: j

# ---------------------------------------------------------------------------
# the harness's own oracle (no /repo code): what a list view must read

_LINE_RE = re.compile(r"[^\n]*\n|[^\n]+")


def lf_lines(text):
    return _LINE_RE.findall(text)


def oracle_split(comma, v):
    ls = lf_lines(v)
    kept = [l for i, l in enumerate(ls) if i == 0 or not l.startswith("#")]
    t = "".join(kept)
    if comma:
        return [p.strip() for p in t.split(",") if p.strip()]
    return t.split()


# ---------------------------------------------------------------------------
# generator

INLINE_WS = [" ", " ", " ", "  ", "\t", " \t", "\xa0", "\u2003", "   "]
WORDS_SP = ["a", "b", "c", "foo", "bar", "#x", "a:b", "x=1", "\xe9", "b,c", ",", "a#", "1.0-2"]
WORDS_CM = ["a", "b", "c", "foo", "b c", "#x", "x  y", "a:b", "\xe9 f", "foo (>= 1)", "a#b", "c\td"]
COMMENT_LINES = ["# c\n", "#\n", "#x, y\n", "# a b\n", "#,\n"]
EXOTIC = ["\x0c", "\r", "\x0b", "\x85", "\u2028", "\x1c", "\x1d", "\x1e", "\u2029"]
NAMES = ["F", "Depends", "X-List", "f", "Build-Depends-Indep", "a1"]
PRES = ["", "", "A: 1\n", "# top\n\nA: 1\n", "A: 1\n# about the list\n", "P: 1\n\nA: x\n y\n",
        "A: 1\n# c1\n# c2\n", "\n", "A:\n b\n"]
POSTS = ["", "", "Z: 9\n", "\nQ: r\n", "# end\n", "Z: 9", "Z:\n a,\n b\n", "\n\n", "Z: 9\n\n# tail\nQ: r\n",
         "# x\nZ: 9\n"]


def _ws(rng, allow_empty=False):
    if allow_empty and rng.random() < 0.4:
        return ""
    return rng.choice(INLINE_WS)


def _linebreak(rng):
    """LF + optional comment lines + continuation character (+ optional extra whitespace)"""
    s = (_ws(rng) if rng.random() < 0.15 else "") + "\n"
    r = rng.random()
    if r < 0.3:
        s += rng.choice(COMMENT_LINES)
        if rng.random() < 0.3:
            s += rng.choice(COMMENT_LINES)
    s += rng.choice([" ", " ", " ", "\t", "\t"])
    if rng.random() < 0.3:
        s += _ws(rng)
    return s


def _sep(rng, comma):
    r = rng.random()
    if not comma:
        if r < 0.6:
            return _ws(rng)
        return _linebreak(rng)
    if r < 0.35:
        return rng.choice([",", ", ", ", ", " , ", " ,", ",  ", ",\t"])
    if r < 0.5:
        return rng.choice([",,", ", ,", ",, ", " , , "])
    if r < 0.75:
        return "," + _linebreak(rng)
    if r < 0.85:
        return _linebreak(rng) + "," + _ws(rng, True)
    if r < 0.93:
        return _linebreak(rng)            # no comma: one value over two lines
    return "," + _linebreak(rng) + "," + _ws(rng, True)


def gen_value(rng, comma, may_omit_final_lf):
    n = rng.choice([0, 1, 1, 2, 2, 2, 3, 3, 4, 5])
    words = [rng.choice(WORDS_CM if comma else WORDS_SP) for _ in range(n)]
    lead = rng.choice(["", " ", " ", " ", "  ", "\t", "\n ", " \n ", " \n\t", "\n# c\n ", " \n#\n# d\n\t "])
    if comma and rng.random() < 0.15:
        lead += rng.choice([",", ", ", " , "])
    trail = rng.choice(["", "", "", " ", "  ", "\t"])
    if comma and rng.random() < 0.35:
        trail = rng.choice([",", " ,", ", ", ",,", ",\t"])
    parts = [lead]
    for i, w in enumerate(words):
        parts.append(w)
        if i < n - 1:
            parts.append(_sep(rng, comma))
    parts.append(trail)
    v = "".join(parts)
    if not (may_omit_final_lf and rng.random() < 0.3):
        v += "\n"
    return v


def _good_new(rng, comma):
    return rng.choice(WORDS_CM if comma else WORDS_SP) if rng.random() < 0.7 else rng.choice(["n1", "n2", "zz", "#h"])


def _bad_new(rng, comma):
    return rng.choice(["", " ", "a b" if not comma else "a,b", " a", "a ", "a\n", "a\nb", "a\n b", "\n", "#c",
                       "a\x0cb", ",", "a\n\n b", "\t", "a, b", "x\n# c\n y", "\xa0"])


def gen_ops(rng, comma, vals):
    if rng.random() < 0.15:
        return []
    cur = list(vals)
    refs = None
    ops = []
    for _ in range(rng.choice([1, 1, 2, 2, 3, 3, 4, 5, 7])):
        r = rng.random()
        new = _good_new(rng, comma) if rng.random() < 0.85 else _bad_new(rng, comma)
        present = rng.choice(cur) if cur and rng.random() < 0.88 else rng.choice(["nope", "", "a", "b c"])
        if r < 0.24:
            ops.append(["append", new])
            cur.append(new)
        elif r < 0.44:
            ops.append(["remove", present])
            if present in cur:
                cur.remove(present)
        elif r < 0.58:
            ops.append(["replace", present, new])
            if present in cur:
                cur[cur.index(present)] = new
        elif r < 0.66 or (refs is None and r < 0.9):
            ops.append(["snap"])
            refs = len(cur)
        elif r < 0.70:
            ops.append(["refget", rng.randrange(0, (refs or 0) + 1)])
        elif r < 0.78:
            ops.append(["refset", rng.randrange(0, (refs or 0) + 1), new])
        elif r < 0.88:
            ops.append(["refremove", rng.randrange(0, (refs or 0) + 1)])
        elif r < 0.92:
            ops.append(["sep", rng.random() < 0.5])
        elif r < 0.95:
            ops.append(["newline"])
        else:
            ops.append(["comment", rng.choice(["note", "# n", "", "x \n", "a\nb", " y"])])
    return ops


def gen_reformat_value(rng, comma):
    """A value for a reformatting session: 0-3 comment lines before the first value (the first line is then
    blank), a blank first line, comment lines between the values, one or several values per line."""
    n = rng.choice([1, 2, 2, 3, 3, 4])
    words = [rng.choice(WORDS_CM if comma else WORDS_SP) for _ in range(n)]
    lead_comments = rng.choice([0, 0, 1, 2, 2, 3])
    blank_first = lead_comments > 0 or rng.random() < 0.3
    v = (rng.choice(["", " ", "  "]) + "\n") if blank_first else " "
    for i in range(lead_comments):
        v += rng.choice(["# toolchain\n", "#\n", "# (keep sorted)\n", "#x\n"])
    if blank_first:
        v += rng.choice([" ", "\t", "  "])
    for i, w in enumerate(words):
        v += w
        if i < n - 1:
            r = rng.random()
            sep = "," if comma else ""
            if r < 0.45:
                v += sep + " "
            elif r < 0.8:
                v += sep + "\n" + rng.choice([" ", "\t"])
            else:
                v += sep + "\n" + "".join(rng.choice(["# between\n", "#\n"]) for _ in range(rng.choice([1, 2]))) + " "
    if comma and rng.random() < 0.3:
        v += ","
    return v + "\n"


def gen_reformat(rng, comma, pre, name, post):
    """An edit session (direct edits and edits through references, good new values mostly) with a
    reformat_when_finished() request at any position of the operation list."""
    value = gen_reformat_value(rng, comma)
    vals = oracle_split(comma, value)
    ops = [o for o in gen_ops(rng, comma, vals) if o[0] not in ("sep", "newline", "comment")]
    if not any(o[0] in ("append", "remove", "replace", "refset", "refremove") for o in ops):
        ops.append(["append", _good_new(rng, comma)])
    ops.insert(rng.randrange(0, len(ops) + 1), ["reformat"])
    return {"t": "view", "comma": comma, "pre": pre, "name": name, "value": value, "post": post, "ops": ops,
            "tag": "reformat"}


def gen_view(rng):
    comma = rng.random() < 0.5
    pre = rng.choice(PRES)
    post = rng.choice(POSTS)
    name = rng.choice(NAMES)
    value = gen_value(rng, comma, post == "")
    r = rng.random()
    tag = "plain"
    if r < 0.06:
        i = rng.randrange(0, max(1, len(value)))
        value = value[:i] + rng.choice(EXOTIC) + value[i:]
        tag = "exotic"
    elif r < 0.10:
        value = rng.choice(["\n", " \n", "", "\t\n", "  "]) if post == "" or True else value
        if post != "" and not value.endswith("\n"):
            value += "\n"
        tag = "empty"
    elif r < 0.15:
        pre, value, post = (x.replace("\n", "\r\n") for x in (pre, value, post))
        tag = "crlf"
    ops = gen_ops(rng, comma, oracle_split(comma, value))
    if ops and tag == "plain" and rng.random() < 0.08:
        return gen_reformat(rng, comma, pre, name, post)
    case = {"t": "view", "comma": comma, "pre": pre, "name": name, "value": value, "post": post, "ops": ops,
            "tag": tag}
    if tag == "plain" and rng.random() < 0.08:
        case["earlier"] = rng.randrange(10)
    return case


LEAF_ALPHA = ["a", ",", " ", "\t", "#", "\xa0"]


def gen_leaves(rng, n, tier):
    """regex leaves, live tokenizers, re-parse recogniser, spec oracle"""
    out = []
    maxlen = 4 if tier == "thorough" else 3      # 2*(6^0+..+6^4) = 3110 / 2*259 = 518 leaf cases
    for L in range(0, maxlen + 1):
        for tup in itertools.product(LEAF_ALPHA, repeat=L):
            s = "".join(tup)
            out.append({"t": "leafws", "line": s})
            out.append({"t": "leafcomma", "line": s})
    k = max(40, n // 16)
    for _ in range(k):
        comma = rng.random() < 0.5
        v = gen_value(rng, comma, True)
        if rng.random() < 0.3 and v:
            i = rng.randrange(0, len(v))
            v = v[:i] + rng.choice(EXOTIC + [",", " ", "\n", "#", "\n\n", "\r\n"]) + v[i:]
        out.append({"t": "tok", "comma": comma, "v": v})
        line = v.replace("\n", rng.choice([" ", ",", ""]))
        out.append({"t": "leafcomma" if comma else "leafws", "line": line})
        out.append({"t": "spec", "comma": comma, "v": v})
        out.append({"t": "spec", "comma": not comma, "v": v})
    for _ in range(k):
        comma = rng.random() < 0.5
        c = gen_value(rng, comma, False)
        r = rng.random()
        if r < 0.5:
            i = rng.randrange(0, len(c))
            c = c[:i] + rng.choice(["\n", "\n\n", " \n", "\nb: c\n", "\nF: x\n", "\nf: x\n", "\n# c\n", "\nx\n",
                                    "\x0c", "\r", "\n \n", "\n\t\n b\n", "\n#\n\n", "\u2028"]) + c[i:]
        if rng.random() < 0.1:
            c = c.rstrip("\n")
        out.append({"t": "reparse", "name": rng.choice(NAMES), "content": c})
    return out


def generate(rng, n, tier):
    leaves = gen_leaves(rng, n, tier)
    for c in leaves:
        yield c
    for _ in range(max(0, n - len(leaves))):
        yield gen_view(rng)


# ---------------------------------------------------------------------------
# implementation driver

TOKEN_CLASSES = {"Deb822ValueToken": 0, "Deb822SpaceSeparatorToken": 1, "Deb822WhitespaceToken": 2,
                 "Deb822CommaToken": 3, "Deb822CommentToken": 4, "Deb822ValueContinuationToken": 5,
                 "Deb822NewlineAfterValueToken": 6}


def _interp(comma):
    from debian._deb822_repro import parsing
    return parsing.LIST_COMMA_SEPARATED_INTERPRETATION if comma else parsing.LIST_SPACE_SEPARATED_INTERPRETATION


def _find_kvpair(f, name):
    for p in f:
        if p.contains_kvpair_element(name):
            return p.get_kvpair_element(name)
    return None


def _read(kv, comma):
    try:
        return {"ok": list(kv.interpret_as(_interp(comma)))}
    except Exception as e:
        return {"err": err_kind(e)}


EARLIER_VALUES = [" old1 old2\n", " a, b,\n c\n", " x\n", "\n one\n two\n", " p q r s\n"]


def run_view(case):
    from debian._deb822_repro.parsing import parse_deb822_file
    comma = case["comma"]
    doc = case["pre"] + case["name"] + ":" + case["value"] + case["post"]
    try:
        f = parse_deb822_file(lf_lines(doc))
        kv = _find_kvpair(f, case["name"])
    except Exception as e:
        return {"skip": "document does not parse: " + err_kind(e)}
    if kv is None:
        return {"skip": "field not found"}
    # the field as the implementation sees it
    toks = list(f.iter_tokens())
    idx = [i for i, t in enumerate(toks) if t is kv.field_token]
    if len(idx) != 1:
        return {"skip": "field token not found"}
    pre = "".join(t.text for t in toks[:idx[0]])
    name = str(kv.field_name)
    value = kv.value_element.convert_to_text()
    if not doc.startswith(pre + name + ":" + value):
        return {"skip": "token texts do not reproduce the document"}
    post = doc[len(pre) + len(name) + 1 + len(value):]
    if case.get("earlier") is not None:
        # EARLIER USE of the very same field object: the field first held another value, was read (and edited)
        # through both list interpretations, and was then given the value under test through the public
        # kvpair.value_element setter (what an undo/restore does).  Everything observed below must be as if the
        # document had been parsed with the value under test.  (pre/post are the parsed ones, so that the two
        # documents differ in the value element only.)
        try:
            ev = EARLIER_VALUES[case["earlier"] % len(EARLIER_VALUES)]
            if not value.endswith("\n"):
                ev = ev.rstrip("\n")
            f0 = parse_deb822_file(lf_lines(pre + name + ":" + ev + post))
            kv0 = _find_kvpair(f0, case["name"])
            if kv0 is not None and kv0.value_element.convert_to_text() == ev:
                for cm in (comma, not comma, comma):
                    try:
                        with kv0.interpret_as(_interp(cm)) as tl0:
                            list(tl0)
                            if case["earlier"] % 2:
                                tl0.append("earlier-edit")
                    except Exception:
                        pass
                kv0.value_element = kv.value_element
                f, kv = f0, kv0
        except Exception as e:
            return {"skip": "earlier-use step failed: " + err_kind(e)}
    obs = {"pre": pre, "name": name, "value": value, "post": post, "ops": [], "close": None}
    try:
        view = kv.interpret_as(_interp(comma))
    except Exception as e:
        obs["read"] = {"err": err_kind(e)}
        view = None
    if view is not None:
        refs = []
        try:
            with view as tl:
                obs["read"] = {"ok": list(tl)}
                for op in case["ops"]:
                    got = None
                    try:
                        k = op[0]
                        if k == "append":
                            tl.append(op[1])
                        elif k == "remove":
                            tl.remove(op[1])
                        elif k == "replace":
                            tl.replace(op[1], op[2])
                        elif k == "snap":
                            refs = list(tl.iter_value_references())
                        elif k == "refget":
                            got = refs[op[1]].value
                        elif k == "refset":
                            r = refs[op[1]]
                            r.value = op[2]
                        elif k == "refremove":
                            r = refs[op[1]]
                            r.remove()
                        elif k == "sep":
                            tl.append_separator(space_after_separator=op[1])
                        elif k == "newline":
                            tl.append_newline()
                        elif k == "comment":
                            tl.append_comment(op[1])
                        elif k == "reformat":
                            tl.reformat_when_finished()
                        else:
                            raise RuntimeError("unknown op")
                        obs["ops"].append({"ok": list(tl), "got": got})
                    except Exception as e:
                        obs["ops"].append({"err": err_kind(e)})
                    finally:
                        r = None
        except Exception as e:
            obs["close"] = err_kind(e)
        refs = None
    dump = f.dump()
    obs["dump"] = dump
    obs["again"] = _read(kv, comma)
    try:
        f2 = parse_deb822_file(lf_lines(dump), accept_files_with_error_tokens=True,
                               accept_files_with_duplicated_fields=True)
        obs["valid"] = f2.find_first_error_element() is None
        kv2 = _find_kvpair(f2, name)
        obs["reread"] = _read(kv2, comma) if kv2 is not None else {"err": "KeyError"}
    except Exception as e:
        obs["valid"] = False
        obs["reread"] = {"err": err_kind(e)}
    return obs


def run_impl(case):
    from debian._deb822_repro import tokens as T
    t = case["t"]
    if t == "view":
        return run_view(case)
    if t == "leafws":
        ms = [[g or "" for g in m.groups()] for m in T._RE_WHITESPACE_SEPARATED_WORD_LIST.finditer(case["line"])]
        return {"ms": ms}
    if t == "leafcomma":
        ms = []
        for m in T._RE_COMMA_SEPARATED_WORD_LIST.finditer(case["line"]):
            sbc, comma, sbw, word, saw = m.groups()
            ms.append([sbc or "", bool(comma), sbw or "", word or "", saw or ""])
        return {"ms": ms}
    if t == "tok":
        fn = T.comma_split_tokenizer if case["comma"] else T.whitespace_split_tokenizer
        try:
            out = []
            for tk in fn(case["v"]):
                out.append([TOKEN_CLASSES[type(tk).__name__], tk.text])
            return {"ok": out}
        except Exception as e:
            return {"err": err_kind(e)}
    if t == "reparse":
        from debian._deb822_repro.parsing import parse_deb822_file
        text = case["name"] + ":" + case["content"]
        try:
            f = parse_deb822_file(iter(text.splitlines(keepends=True)))
            if f.find_first_error_element():
                return {"err": "ValueError"}
            p = next(iter(f))
            return {"ok": p.get_kvpair_element(case["name"]).value_element.convert_to_text()}
        except Exception as e:
            return {"err": err_kind(e)}
    if t == "spec":
        return {"oracle": oracle_split(case["comma"], case["v"])}
    raise RuntimeError("unknown case type")


# ---------------------------------------------------------------------------
# Coq emitter

def _res_strs(r):
    return "(Ok %s)" % cq_strs(r["ok"]) if "ok" in r else "(Err %s)" % r["err"]


def _op(op):
    k = op[0]
    if k == "append":
        return "PAppend %s" % cq_str(op[1])
    if k == "remove":
        return "PRemove %s" % cq_str(op[1])
    if k == "replace":
        return "PReplace %s %s" % (cq_str(op[1]), cq_str(op[2]))
    if k == "snap":
        return "PSnap"
    if k == "refget":
        return "PRefGet %s" % cq_nat(op[1])
    if k == "refset":
        return "PRefSet %s %s" % (cq_nat(op[1]), cq_str(op[2]))
    if k == "refremove":
        return "PRefRemove %s" % cq_nat(op[1])
    if k == "sep":
        return "PSep %s" % cq_bool(op[1])
    if k == "newline":
        return "PNewline"
    if k == "comment":
        return "PComment %s" % cq_str(op[1])
    if k == "reformat":
        return "PReformat"
    raise ValueError(k)


def emit(case, obs):
    t = case["t"]
    if t == "view":
        if "skip" in obs:
            return "CSkip"
        oo = []
        for o in obs["ops"]:
            if "ok" in o:
                oo.append("ODone %s %s" % (cq_strs(o["ok"]), cq_opt(o["got"], cq_str)))
            else:
                oo.append("OFailed %s" % o["err"])
        return "CView %s %s %s %s %s %s %s %s %s %s %s %s %s" % (
            cq_bool(case["comma"]), cq_str(obs["pre"]), cq_str(obs["name"]), cq_str(obs["value"]),
            cq_str(obs["post"]), cq_list([_op(o) for o in case["ops"]]), _res_strs(obs["read"]),
            cq_list(oo), cq_opt(obs["close"]), cq_str(obs["dump"]), cq_bool(obs["valid"]),
            _res_strs(obs["reread"]), _res_strs(obs["again"]))
    if t == "leafws":
        return "CLeafWs %s %s" % (cq_str(case["line"]),
                                  cq_list(["(%s, %s, %s)" % tuple(cq_str(g) for g in m) for m in obs["ms"]]))
    if t == "leafcomma":
        return "CLeafComma %s %s" % (cq_str(case["line"]), cq_list(
            ["(%s, %s, %s, %s, %s)" % (cq_str(m[0]), cq_bool(m[1]), cq_str(m[2]), cq_str(m[3]), cq_str(m[4]))
             for m in obs["ms"]]))
    if t == "tok":
        if "ok" in obs:
            o = "(Ok %s)" % cq_list(["(%s, %s)" % (cq_N(k), cq_str(s)) for k, s in obs["ok"]])
        else:
            o = "(Err %s)" % obs["err"]
        return "CTok %s %s %s" % (cq_bool(case["comma"]), cq_str(case["v"]), o)
    if t == "reparse":
        o = "(Ok %s)" % cq_str(obs["ok"]) if "ok" in obs else "(Err %s)" % obs["err"]
        return "CReparse %s %s %s" % (cq_str(case["name"]), cq_str(case["content"]), o)
    if t == "spec":
        return "CSpec %s %s %s" % (cq_bool(case["comma"]), cq_str(case["v"]), cq_strs(obs["oracle"]))
    raise ValueError(t)


# ---------------------------------------------------------------------------

def _layout(value):
    ls = lf_lines(value)
    tags = ["multi" if len(ls) > 1 else "single"]
    if any(l.startswith("#") for l in ls[1:]):
        tags.append("com")
    if ls and not ls[0].strip() and len(ls) > 1:
        tags.append("blank1")
    if value.lstrip(" \t").startswith("#") and ls and ls[0].strip():
        tags.append("hash1")
    if any(c in value for c in EXOTIC if c != "\r") or re.search(r"\r(?!\n)", value):
        tags.append("exotic")
    elif "\r\n" in value:
        tags.append("crlf")
    if not value.strip():
        tags.append("empty")
    if not value.endswith("\n"):
        tags.append("nolf")
    return "+".join(tags)


def classify(case, obs):
    t = case["t"]
    if t != "view":
        if t == "reparse":
            return "reparse/" + ("ok" if "ok" in obs else obs["err"])
        if t == "tok":
            return "tok/%s/%s" % ("comma" if case["comma"] else "space", "ok" if "ok" in obs else obs["err"])
        return t
    if "skip" in obs:
        return "view/skip"
    kinds = sorted(set(o[0] for o in case["ops"]))
    if not kinds:
        opc = "noop"
    elif any(k.startswith("ref") and k != "reformat" for k in kinds):
        opc = "refs"
    elif any(k in ("sep", "newline", "comment") for k in kinds):
        opc = "extra"
    else:
        opc = "direct"
    nerr = sum(1 for o in obs["ops"] if "err" in o)
    if "reformat" in kinds:
        lead = 0
        for l in lf_lines(obs["value"])[1:]:
            if not l.startswith("#"):
                break
            lead += 1
        opc += "+reformat(lead#%d)" % min(lead, 3)
    return "view/%s/%s/%s%s/read:%s/close:%s" % (
        "comma" if case["comma"] else "space", _layout(obs["value"]), opc, "+refused" if nerr else "",
        "ok" if "ok" in obs["read"] else obs["read"]["err"], obs["close"] or "ok")


def nontrivial(case, obs):
    t = case["t"]
    if t == "view":
        return "skip" not in obs and (bool(case["ops"]) or bool(obs["value"].strip()))
    return bool(case.get("line") or case.get("v") or case.get("content"))


def shrink(case):
    if case["t"] != "view":
        key = {"leafws": "line", "leafcomma": "line", "tok": "v", "reparse": "content", "spec": "v"}[case["t"]]
        s = case[key]
        for i in range(len(s)):
            yield dict(case, **{key: s[:i] + s[i + 1:]})
        return
    ops = case["ops"]
    for i in range(len(ops)):
        yield dict(case, ops=ops[:i] + ops[i + 1:])
    if case["pre"]:
        yield dict(case, pre="")
    if case["post"]:
        yield dict(case, post="", value=case["value"] if case["value"].endswith("\n") else case["value"])
        yield dict(case, post="Z: 9\n")
    if case["name"] != "F":
        yield dict(case, name="F")
    v = case["value"]
    for i in range(len(v)):
        yield dict(case, value=v[:i] + v[i + 1:])
    for i, o in enumerate(ops):
        for j in range(1, len(o)):
            if isinstance(o[j], str) and len(o[j]) > 1:
                for c in range(len(o[j])):
                    yield dict(case, ops=ops[:i] + [o[:j] + [o[j][:c] + o[j][c + 1:]] + o[j + 1:]] + ops[i + 1:])
            if isinstance(o[j], int) and not isinstance(o[j], bool) and o[j] > 0:
                yield dict(case, ops=ops[:i] + [o[:j] + [o[j] - 1] + o[j + 1:]] + ops[i + 1:])


def neighbours(case, rng):
    if case["t"] != "view":
        return
    for _ in range(40):
        c = dict(case)
        c["ops"] = gen_ops(rng, case["comma"], oracle_split(case["comma"], case["value"]))
        yield c
    yield dict(case, comma=not case["comma"])


def describe(case, obs):
    if case["t"] != "view":
        return {"leaf": case, "observed": obs}
    return {"call": "parse_deb822_file(lines(pre + name + ':' + value + post)); kvpair = paragraph.get_kvpair_element(name); "
                    "with kvpair.interpret_as(LIST_%s_SEPARATED_INTERPRETATION) as view: read list(view), apply ops; "
                    "then file.dump(), fresh parse and fresh interpretation"
                    % ("COMMA" if case["comma"] else "SPACE"),
            "document": case["pre"] + case["name"] + ":" + case["value"] + case["post"],
            "field": case["name"], "ops": case["ops"],
            "specified_read": oracle_split(case["comma"], obs.get("value", case["value"])) if "skip" not in obs else None,
            "observed": obs,
            "specified": "values read == split of the value text on the separator (comment lines dropped, trimmed, "
                         "no empty items); no-change close leaves the document byte-identical; after edits the "
                         "re-read list == the edited list, text before/after the field byte-identical, the dump "
                         "parses without error element; a refused write-back leaves the document unchanged"}


# ---------------------------------------------------------------------------
# TIE BY REGENERATION (harness/py2coq.py).  Stage 1 — the value tokenizers of lib/debian/_deb822_repro/tokens.py:
# whitespace_split_tokenizer / comma_split_tokenizer (generators over the finditer matches of the two word-list patterns;
# the regex leaves are the model's ws_finditer / comma_groups) and the decorator's inner function
# _value_line_tokenizer.impl (line splitting, the assert, comment lines, continuation markers, the newline token; the
# decorated function `func` is a leading parameter of the regenerated closure) are regenerated into coq/Gen/TrListTok.v on
# every run.  coq/Repro/ListTie.v proves them equal, for ALL texts, to the model's ws_line_tokens / comma_line_tokens /
# tokenize (Repro/ListView.v — what `agree` runs and Props/C11.v is about), errors included, and that no token
# constructor ever raises; statements in coq/Props/C11Tie.v.
from harness import extract            # noqa: E402
from harness import py2coq as _P       # noqa: E402

_T_TOK = ("coq", "tok")
_T_WSM = ("coq", "trp_wsmatch")
_T_CM = ("coq", "cgroups")
_T_LINEFN = ("coq", "(str -> result (list tok))")
_T_LF = ("literal", "'\\n'", "tt")
_T_HASH = ("literal", "'#'", "tt")
_T_STRS = ("list", "str")


def _t_tok(kind):
    # Cls(text): Deb822Token.__init__ + _verify_token_text of the class (C01's Token.mk_token), then the model's Tok
    return _P.Call("trp_mk_tok %s" % kind, ["str"], _T_TOK, True)


def _t_kw(call, names):
    call.kw = list(names)
    return call


_f_ws = _P.Fun("tr_whitespace_split_tokenizer", "whitespace_split_tokenizer", [("v", "str")], _T_TOK,
               locals={"match": _T_WSM, "space_before": "str", "word": "str", "space_after": "str"}, generator=True)
# groups that may be None: the two of the second alternative and the optional word
_f_comma = _P.Fun("tr_comma_split_tokenizer", "comma_split_tokenizer", [("v", "str")], _T_TOK,
                  locals={"match": _T_CM, "space_before_comma": ("option", "str"), "comma": ("option", "str"),
                          "space_before_word": "str", "word": ("option", "str"), "space_after_word": "str"},
                  generator=True)
_f_comma.narrow = True
_f_impl = _P.Fun("tr_value_line_tokenizer_impl", "_value_line_tokenizer.impl", [("v", "str")], _T_TOK,
                 locals={"first_line": "bool", "line": "str", "has_newline": "bool",
                         "continuation_line_marker": ("option", "char")},
                 generator=True, ghost=[("func", _T_LINEFN)])
_f_impl.narrow = True

TR_MODULE = _P.Module(
    "TrListTok", "lib/debian/_deb822_repro/tokens.py",
    funs=[_f_ws, _f_comma, _f_impl],
    calls={
        "<str>.strip": _P.Call("trp_strip", ["str"], "str"),
        "<str>.splitlines": _t_kw(_P.Call("trp_splitlines_keepends", ["str", ("literal", "True", "tt")], _T_STRS),
                                  [None, "keepends"]),
        "<str>.startswith": _P.Call("trp_startswith_hash", ["str", _T_HASH], "bool"),
        "<str>.endswith": _P.Call("trp_endswith_lf", ["str", _T_LF], "bool"),
        "sys.intern": _P.Call("trp_intern", ["str"], "str"),
        "_RE_WHITESPACE_LINE.match": _P.Call("trp_ws_line_match", ["str"], "bool"),
        "_RE_WHITESPACE_SEPARATED_WORD_LIST.finditer": _P.Call("trp_ws_finditer", ["str"], ("list", _T_WSM), True),
        "_RE_COMMA_SEPARATED_WORD_LIST.finditer": _P.Call("trp_comma_finditer", ["str"], ("list", _T_CM), True),
        "<trp_wsmatch>.groups": _P.Call("trp_ws_groups", [_T_WSM], ("tuple", "str", "str", "str")),
        "<cgroups>.groups": _P.Call("trp_comma_groups", [_T_CM],
                                    ("tuple", ("option", "str"), ("option", "str"), "str", ("option", "str"), "str")),
        "func": _P.Call("func", ["str"], ("list", _T_TOK), True),
        "Deb822SpaceSeparatorToken": _t_tok("KSep"),
        "Deb822WhitespaceToken": _t_tok("KWs"),
        "Deb822ValueToken": _t_tok("KVal"),
        "Deb822CommentToken": _t_tok("KCom"),
        "Deb822ValueContinuationToken": _t_tok("KCont"),
        "Deb822CommaToken": _P.Call("trp_comma_tok", [], _T_TOK, True),
        "Deb822NewlineAfterValueToken": _P.Call("trp_newline_tok", [], _T_TOK, True),
    },
    imports=["Repro.ListView", "Repro.ListTrPrims"],
    regexes=[("_RE_WHITESPACE_LINE", r'^\s+$')])

# Code that the primitives of coq/Repro/ListTrPrims.v stand for and that the translator does not see, asserted as source
# text (sha256 of ast.unparse, 16 hex digits): a change fails the translation closed.
_T_ASSERTED_TOK = {"lib/debian/_deb822_repro/tokens.py": {
    "Deb822Token.__init__": "b42fc316658e478a",                     # trp_mk_tok: Token.mk_token
    "Deb822Token._verify_token_text": "85734d0d17e89cbc",
    "Deb822Token.is_whitespace": "c7129c8b7ffdd245", "Deb822Token.is_comment": "08dee44c21e24a8a",
    "Deb822WhitespaceToken.is_whitespace": "c89920c30d35eed6", "Deb822CommentToken.is_comment": "229e3b5a7cf67dec",
    "Deb822CommaToken.__init__": "95c229fc455ca49c",                # trp_comma_tok
    "Deb822NewlineAfterValueToken.__init__": "d0406d4f1b04e318"}}   # trp_newline_tok
# the class of every token the tokenizers build: (bases, methods defined in the class body)
_T_TOKEN_CLASSES = {
    "Deb822WhitespaceToken": (["Deb822Token"], ["is_whitespace"]),
    "Deb822SemanticallySignificantWhiteSpace": (["Deb822WhitespaceToken"], []),
    "Deb822NewlineAfterValueToken": (["Deb822SemanticallySignificantWhiteSpace"], ["__init__"]),
    "Deb822ValueContinuationToken": (["Deb822SemanticallySignificantWhiteSpace"], []),
    "Deb822SpaceSeparatorToken": (["Deb822SemanticallySignificantWhiteSpace"], []),
    "Deb822CommentToken": (["Deb822Token"], ["is_comment"]),
    "Deb822SeparatorToken": (["Deb822Token"], []),
    "Deb822CommaToken": (["Deb822SeparatorToken"], ["__init__"]),
    "Deb822ValueToken": (["Deb822Token"], [])}


def _t_assert_sources(repo, table):
    import ast
    import hashlib
    for rel, defs in table.items():
        tree = extract._parse(repo, rel)
        for qual, sha in defs.items():
            got = hashlib.sha256(ast.unparse(_P.find_def(tree, qual)).encode()).hexdigest()[:16]
            if got != sha:
                raise extract.ExtractError("%s (%s) changed: a primitive of coq/Repro/ListTrPrims.v models the "
                                           "previous text" % (qual, rel))


@extract.register("TrListTok")
def _gen_tr_tok(repo):
    import ast
    _t_assert_sources(repo, _T_ASSERTED_TOK)
    tree = extract._parse(repo, "lib/debian/_deb822_repro/tokens.py")
    # the decorator is `def impl(v): …; return impl` over its parameter `func`, and both tokenizers carry exactly it
    deco = _P.find_def(tree, "_value_line_tokenizer")
    if [a.arg for a in deco.args.args] != ["func"] or len(deco.body) != 2 \
            or not isinstance(deco.body[0], ast.FunctionDef) or deco.body[0].name != "impl" \
            or deco.body[0].decorator_list or ast.unparse(deco.body[1]) != "return impl":
        raise extract.ExtractError("_value_line_tokenizer is no longer `def impl(v): …; return impl`")
    for q in ("whitespace_split_tokenizer", "comma_split_tokenizer"):
        if [ast.unparse(d) for d in _P.find_def(tree, q).decorator_list] != ["_value_line_tokenizer"]:
            raise extract.ExtractError("%s is no longer decorated with exactly @_value_line_tokenizer" % q)
    classes = {n.name: n for n in tree.body if isinstance(n, ast.ClassDef)}
    for cls, (bases, meths) in _T_TOKEN_CLASSES.items():
        n = classes.get(cls)
        if n is None or [ast.unparse(b) for b in n.bases] != bases \
                or [m.name for m in n.body if isinstance(m, ast.FunctionDef)] != meths:
            raise extract.ExtractError("token class %s changed its bases or methods: trp_mk_tok models the previous class" % cls)
    return _P.translate_module(repo, TR_MODULE)


# ---------------------------------------------------------------------------
# Stage 2 — the methods of Deb822ParsedTokenList and ValueReference (lib/debian/_deb822_repro/parsing.py), regenerated into
# coq/Gen/TrListView.v on every run (METHOD + HEAP MODE).  self._token_list is a debian/_util.py LinkedList, which C09 already
# regenerates (coq/Gen/TrLinkedList.v): nothing of that is translated again — the list object is the record of its attributes
# and its methods are C09's regenerated functions run on (heap, record) through C10's adapters (coq/Repro/StructTrPrims.v:
# ll_run / ll_read).  A token or element is a reference into a store of the model's items (coq/Repro/ListViewTrPrims.v).
# coq/Repro/ListViewTie.v proves, for every state that REPRESENTS a view of the model (the linked structure holds the
# references of the items in order — up to the stale _size that _remove_node leaves behind —, the store maps each reference to
# its item, the two attributes agree), that each regenerated method ends in a state that represents the result of the model
# operation that `agree` runs through run_session / step (Repro/ListView.v), with the same exception kind and, after an
# exception, the state the model says; statements in coq/Props/C11Tie.v.
_T_HEAP = ("coq", "heap")
_T_IT = ("coq", "teref")
_T_ITS = ("coq", "testore")
_T_LL = ("coq", "llobj")
_T_REF = ("ref", "LinkedListNode")
_T_OREF = ("option", _T_REF)
_T_K = ("coq", "lkind")
_T_CLS = ("coq", "trp_cls")
_T_VREF = ("coq", "vref")
_T_LF = ("literal", "'\\n'", "tt")
_V_S = [("<heap>", "hp", _T_HEAP), ("<tokens and elements>", "its", _T_ITS), ("self._token_list", "s_ll", _T_LL),
        ("self._changed", "s_changed", "bool"), ("self.__continuation_line_char", "s_cont", ("option", "str"))]
_V_K = [("k", _T_K)]
_V_G = _V_K + [(v, t) for _, v, t in _V_S]
_V_V = [v for _, v, _ in _V_S]
_V_GV = "k hp its s_ll s_changed s_cont"
_PTL = "Deb822ParsedTokenList."


def _t_sub(coq, args, ret, sub, monadic=False):
    c = _P.Call(coq, args, ret, monadic)
    c.substate = list(sub)
    return c


def _v_w(coq, name, params, ret, **kw):
    return _P.Fun(coq, _PTL + name, params, ret, skip_first=True, state=_V_S, ghost=_V_K, **kw)


def _v_r(coq, name, params, ret, **kw):
    return _P.Fun(coq, _PTL + name, params, ret, skip_first=True, ghost=_V_G, **kw)


def _t_newtok(kind):
    return _t_sub("trp_new_tok %s" % kind, ["str"], _T_IT, ["its"])


_f_cont = _v_w("tr_v_continuation_line_char", "_continuation_line_char", [], ("option", "str"),
               locals={"char": ("option", "str"), "token": _T_IT})
_f_cont.narrow = True
_f_append_value = _v_w("tr_v_append_value", "append_value", [("vt", _T_IT)], "unit",
                       locals={"value_parts": _T_LL, "needs_separator": "bool", "stype": _T_CLS, "vtype": _T_CLS, "t": _T_IT})
_f_append_value.alias_state = {"value_parts": "self._token_list"}
_f_remove_node = _v_w("tr_v_remove_node", "_remove_node", [("node_to_remove", _T_REF)], "unit",
                      locals={"vtype": _T_CLS, "first_value_on_lhs": _T_OREF, "first_value_on_rhs": _T_OREF,
                              "comment_before_previous_value": "bool", "comment_before_next_value": "bool",
                              "past_node": _T_REF, "past_token": _T_IT, "future_node": _T_REF, "future_token": _T_IT,
                              "delete_lhs_of_node": "bool", "first_remain_lhs": _T_OREF, "first_remain_rhs": _T_OREF})
_f_remove_node.join_defines = True

_f_remove = _v_w("tr_v_remove", "remove", [("value", "str")], "unit",
                 locals={"vtype": _T_CLS, "node": _T_REF, "node_to_remove": _T_REF})
_f_remove.join_defines = True      # node_to_remove is bound before the only `break`; the else-block raises

_T_WREF = ("coq", "wref")
_R_S = _V_S + [("self._node", "r_node", ("option", _T_WREF))]
_R_G = _V_G + [("r_node", ("option", _T_WREF))]
_R_CALLS = {
    "self._node": _P.Call("trp_vref_deref hp s_ll r_node", [], _T_OREF),       # calling the weak reference
    "self._resolve_node": _P.Call("tr_r_resolve_node k hp its s_ll s_changed s_cont r_node", [], _T_REF, True),
    "self._removal_handler": _t_sub("tr_v_remove_node k", [_T_REF], "unit", _V_V),      # = view._remove_node
    "self._mutation_notifier": _t_sub("tr_v_mark_changed k", [], "unit", _V_V),          # = view._mark_changed
}


def _r_fun(coq, qual, params, ret, write, **kw):
    f = _P.Fun(coq, "ValueReference." + qual, params, ret, skip_first=True,
               state=_R_S if write else None, ghost=_V_K if write else _R_G, **kw)
    f.calls = dict(_R_CALLS)
    return f


_r_resolve = _r_fun("tr_r_resolve_node", "_resolve_node", [], _T_REF, False, locals={"node": _T_OREF})
_r_resolve.narrow = True

TR_MODULE_VIEW = _P.Module(
    "TrListView", "lib/debian/_deb822_repro/parsing.py",
    funs=[
        _v_r("tr_v_value_parts", "value_parts", [], _T_IT, generator=True, locals={"v": _T_IT}),
        _v_r("tr_v_iter", "__iter__", [], "str", generator=True, locals={"v": _T_IT}),
        _v_w("tr_v_mark_changed", "_mark_changed", [], "unit"),
        _v_r("tr_v_previous_is_newline", "_previous_is_newline", [], "bool", locals={"tail": ("option", _T_IT)}),
        _v_w("tr_v_append_newline", "append_newline", [], "unit"),
        _f_cont,
        _v_w("tr_v_append_cont_if_necessary", "_append_continuation_line_token_if_necessary", [], "unit",
             locals={"tail": ("option", _T_IT)}),
        _v_w("tr_v_append_separator", "append_separator", [("space_after_separator", "bool")], "unit",
             locals={"separator_token": _T_IT}),
        _f_append_value,
        _v_w("tr_v_append", "append", [("value", "str")], "unit", locals={"vt": _T_IT}),
        _v_w("tr_v_append_comment", "append_comment", [("comment_text", "str")], "unit",
             locals={"tail": ("option", _T_IT), "comment_token": _T_IT}),
        _v_w("tr_v_replace", "replace", [("orig_value", "str"), ("new_value", "str")], "unit",
             locals={"vtype": _T_CLS, "node": _T_REF}),
        _f_remove_node,
        _f_remove,
        _v_r("tr_v_iter_value_references", "iter_value_references", [], _T_VREF, generator=True, locals={"n": _T_REF}),
        _r_resolve,
        _r_fun("tr_r_value_get", "value@getter", [], "str", False),
        _r_fun("tr_r_value_set", "value@setter", [("new_value", "str")], "unit", True),
        _r_fun("tr_r_remove", "remove", [], "unit", True),
    ],
    calls={
        "isinstance": _P.Call("trp_isinstance k its", [_T_IT, _T_CLS], "bool"),
        "self._render": _P.Call("trp_render its", [_T_IT], "str", True),
        "self._value_factory": _t_sub("trp_value_factory k", ["str"], _T_IT, ["its"]),
        "self._default_separator_factory": _t_sub("trp_new_separator k", [], _T_IT, ["its"]),
        "self.value_parts": _P.Call("tr_v_value_parts " + _V_GV, [], ("list", _T_IT), True),
        "Deb822ParsedTokenList.value_parts": _P.Call("tr_v_value_parts " + _V_GV, [], ("list", _T_IT), True),
        "Deb822ParsedTokenList._continuation_line_char": _t_sub("tr_v_continuation_line_char k", [], ("option", "str"), _V_V),
        "self._previous_is_newline": _P.Call("tr_v_previous_is_newline " + _V_GV, [], "bool", True),
        "self.append_newline": _t_sub("tr_v_append_newline k", [], "unit", _V_V),
        "self._append_continuation_line_token_if_necessary": _t_sub("tr_v_append_cont_if_necessary k", [], "unit", _V_V),
        "self.append_separator": _t_sub("(fun hp_ its_ ll_ ch_ co_ => tr_v_append_separator k hp_ its_ ll_ ch_ co_ true)", [], "unit", _V_V),
        "self.append_value": _t_sub("tr_v_append_value k", [_T_IT], "unit", _V_V),
        "self._remove_node": _t_sub("tr_v_remove_node k", [_T_REF], "unit", _V_V),
        "self._token_list.append": _t_sub("trp_ll_append", [_T_IT], _T_REF, ["hp", "s_ll"]),
        "self._token_list.clear": _t_sub("trp_ll_clear", [], "unit", ["hp", "s_ll"]),
        "self._token_list.iter_nodes": _P.Call("trp_ll_iter_nodes hp s_ll", [], ("list", _T_REF), True),
        "value_parts.append": _t_sub("trp_ll_append", [_T_IT], _T_REF, ["hp", "s_ll"]),
        "reversed": _P.Call("trp_ll_reversed hp", [_T_LL], ("list", _T_IT), True),
        "<llobj>.__iter__": _P.Call("trp_ll_iter hp", [_T_LL], ("list", _T_IT), True),
        "<llobj>.__bool__": _P.Call("trp_ll_bool", [_T_LL], "bool"),
        "<llobj>.@head_node=": _P.Call("trp_ll_set_head", [_T_LL, _T_OREF], _T_LL),
        "<llobj>.@tail_node=": _P.Call("trp_ll_set_tail", [_T_LL, _T_OREF], _T_LL),
        "<llobj>.@tail": _P.Call("trp_ll_tail_value hp", [_T_LL], ("option", _T_IT), True),
        "<teref>.convert_to_text": _P.Call("trp_te_text its", [_T_IT], "str", True),
        "<teref>.@text": _P.Call("trp_te_text its", [_T_IT], "str", True),
        "<teref>.@is_whitespace": _P.Call("trp_te_is_whitespace its", [_T_IT], "bool", True),
        "<teref>.@is_comment": _P.Call("trp_te_is_comment its", [_T_IT], "bool", True),
        "<str>.endswith": _P.Call("trp_endswith_lf", ["str", _T_LF], "bool"),
        "_format_comment": _P.Call("format_comment", ["str"], "str", True),
        "Deb822WhitespaceToken": _t_newtok("KWs"),
        "Deb822ValueContinuationToken": _t_sub("trp_new_cont_tok", [("option", "str")], _T_IT, ["its"]),
        "Deb822CommentToken": _t_newtok("KCom"),
        "Deb822NewlineAfterValueToken": _t_sub("trp_new_newline_tok", [], _T_IT, ["its"]),
        "<LinkedListNode>.iter_previous": _t_kw(_P.Call("trp_iter_previous_skip hp", [_T_REF, ("literal", "True", "")],
                                                        ("list", _T_REF), True), [None, "skip_current"]),
        "<LinkedListNode>.iter_next": _t_kw(_P.Call("trp_iter_next_skip hp", [_T_REF, ("literal", "True", "")],
                                                    ("list", _T_REF), True), [None, "skip_current"]),
        "LinkedListNode.link_nodes": _t_sub("tr_link_nodes", [_T_OREF, _T_OREF], "unit", ["hp"]),
        "cast": [_P.Call("", [("literal", "'LinkedListNode[VE]'", ""), _T_REF], _T_REF),
                 _P.Call("", [("literal", "'LinkedListNode[TokenOrElement]'", ""), _T_REF], _T_REF)],
        "ValueReference": _P.Call("trp_new_vref", [_T_REF, ("literal", "self._render", ""), ("literal", "self._value_factory", ""),
                                                   ("literal", "self._remove_node", ""), ("literal", "self._mark_changed", "")],
                                  _T_VREF),
    },
    consts={"self._token_list": ("s_ll", _T_LL), "self._vtype": ("trp_VTYPE", _T_CLS), "self._stype": ("trp_STYPE", _T_CLS),
            "Deb822ValueContinuationToken": ("trp_CONT", _T_CLS), "Deb822Token": ("trp_TOKEN", _T_CLS),
            "self._mutation_notifier": ("trp_notifier", ("option", "unit")), "self._node": ("r_node", ("option", _T_WREF))},
    imports=["Dict.Common", "Dict.Heap", "Dict.TrPrims", "Gen.TrLinkedList", "Repro.StructTrPrims", "Repro.ListView",
             "Repro.ListTrPrims", "Repro.ListViewTrPrims"])
TR_MODULE_VIEW.heap = _P.Heap("hp", _T_HEAP, {
    "LinkedListNode": _P.HeapClass("id", fields={"value": (_T_IT, "trp_get_value", "trp_set_value"),
                                                 "next_node": (_T_OREF, "trp_get_next", "trp_set_next")},
                                   props={"previous_node": (_P.Call("tr_node_get_prev hp", [_T_REF], _T_OREF, True), None)},
                                   eqb="Pos.eqb", opt_eqb="oid_eqb")},
    assume="trp_assume_some")
TR_MODULE_VIEW.properties = {"self.value_parts": "Deb822ParsedTokenList.value_parts",
                             "self._continuation_line_char": "Deb822ParsedTokenList._continuation_line_char"}

# Code that the primitives of coq/Repro/ListViewTrPrims.v stand for and that the translator does not see, asserted as source
# text (sha256 of ast.unparse, 16 hex digits): a change fails the translation closed.
_T_ASSERTED_VIEW = {
    "lib/debian/_deb822_repro/parsing.py": {
        "ValueReference.__init__": "f1c09b9952c834b6",                      # trp_new_vref: the _node slot; the four callables
        "Deb822ParsedTokenList.__init__": "fab831a54e5bd802",               # which attribute holds what
        "_parser_to_value_factory": "244f868cc1d9c786",                     # trp_value_factory: the model's value_factory
        "_format_comment": "8bf7f48fd4cef07f",                              # format_comment
        "_parsed_value_render_factory": "bcd37b2fb6412142",                 # trp_render: render
        "ListInterpretation.__init__": "af6b5d3c9f684d86",
        "ListInterpretation._high_level_interpretation": "db984ba679c37954",
        "Deb822ParsedValueElement.__init__": "6920a5591bb635a9",
        "Deb822ParsedValueElement.convert_to_text": "5a2459dafa76e383",     # trp_te_text / the shared text cache of render
        "Deb822ParsedValueElement.convert_to_text_without_comments": "058d1cfed6f5ace2"},
    "lib/debian/_deb822_repro/tokens.py": {
        "Deb822Token.text": "3263261f1980a331", "Deb822Token.convert_to_text": "b57de50fd9f0b785",
        "Deb822Token.is_whitespace": "c7129c8b7ffdd245", "Deb822Token.is_comment": "08dee44c21e24a8a",
        "Deb822WhitespaceToken.is_whitespace": "c89920c30d35eed6", "Deb822CommentToken.is_comment": "229e3b5a7cf67dec"},
    "lib/debian/_util.py": {
        "LinkedListNode.iter_previous": "2360658220a87cde",                 # trp_iter_previous_skip
        "LinkedListNode.iter_next": "9aab30369d4c1aa6",                     # trp_iter_next_skip (over C09's regenerated loop)
        "LinkedList.__reversed__": "074912c392c70ceb"}}                     # trp_ll_reversed (C10)
# the two interpretations: vtype / stype / default separator / render factory (trp_VTYPE, trp_STYPE, trp_new_separator)
_T_ASSERTED_CONSTS = {"LIST_SPACE_SEPARATED_INTERPRETATION": "3771f2fad1ebafc2",
                      "LIST_COMMA_SEPARATED_INTERPRETATION": "1d68e9fbc2a07baf"}


@extract.register("TrListView")
def _gen_tr_view(repo):
    import ast
    import hashlib
    _t_assert_sources(repo, _T_ASSERTED_VIEW)
    tree = extract._parse(repo, "lib/debian/_deb822_repro/parsing.py")
    for name, sha in _T_ASSERTED_CONSTS.items():
        if hashlib.sha256(ast.unparse(_P.find_value(tree, name)).encode()).hexdigest()[:16] != sha:
            raise extract.ExtractError("%s changed: the class tests and the separator factory of "
                                       "coq/Repro/ListViewTrPrims.v model the previous definition" % name)
    return _P.translate_module(repo, TR_MODULE_VIEW)


import os as _os    # noqa: E402
# (registered only while the theorem file is there, so that ./check C11 never breaks on a tree without it)
TIE_FILE = "Props/C11Tie.v" if _os.path.exists(_os.path.join(
    _os.path.dirname(_os.path.abspath(__file__)), "..", "..", "coq", "Props", "C11Tie.v")) else None
