"""C09 — Deb822 mappings stay ordered, case-insensitive, case-preserving in any history.

Histories of operations on Deb822 paragraphs (debian.deb822.Deb822 over
debian._util.OrderedSet / LinkedList), compared frame by frame with the pointer-level
model coq/Dict/Heap.v (agree) and with the association-list reference coq/Dict/Spec.v (holds).
"""
from harness.core import cq_bool, cq_list, cq_nat, cq_str, cq_strs, err_kind

ID = "C09"
CHECK_MODULE = "Dict.Check"
PROPS_FILE = "Props/C09.v"
ANCHORS = [
    ("lib/debian/_util.py",
     ["LinkedListNode", "LinkedList", "OrderedSet", "_CaseInsensitiveString", "_strI",
      "resolve_ref", "default_field_sort_key"]),
    ("lib/debian/deb822.py",
     ["Deb822Dict", "validate_input", "_dump_format", "_dump_str", "dump", "_internal_parser",
      "_skip_useless_lines", "split_gpg_and_payload", "gpg_stripped_paragraph",
      "_key_part", "_single", "_multi", "_multidata", "_AutoDecoder"]),
]
BUDGET = {"quick": 1200, "thorough": 15000}
SHARD = 100
SHARD_IMPORTS = "From Verif Require Import Dict.Common."
RULE = ("histories of 1-40 operations (set, get, del, in, len, list, order_first/last/before/after incl. "
        "self-reference in another case and missing keys, sort_fields with key = default / len / constant / a rank "
        "table / reverse-lexicographic (ties are frequent), copy, dump, dump+reparse) over the keys "
        "A a B b Cc cC D (a tenth of the histories: keys with non-ASCII cased letters, str.lower taken from the "
        "interpreter), addressed to any paragraph created so far (the start paragraph, its copies, copies of "
        "copies, re-parsed dumps), starting from Deb822(), Deb822(dict) or Deb822(text); single-line values plus a "
        "few multi-line and invalid ones; after every operation: its result or exception kind, list(d), the values, "
        "len(d), k in d for every key, d.dump() of the paragraph operated on, and the items of EVERY paragraph. "
        "every case must lie in the declared domain of the theorems (Check.case_in_domain, part of agree). "
        "non-trivial = at least one successful mutation")
TRUSTED = [
    "model coq/Dict/Heap.v is a hand transcription of LinkedListNode/LinkedList/OrderedSet/_CaseInsensitiveString, "
    "Deb822Dict, Deb822.__setitem__/validate_input, _dump_format and the plain-text line loop of _internal_parser; "
    "tied to the code by this correspondence — and, for the pointer level (LinkedListNode, LinkedList, OrderedSet: "
    "link/unlink, append, insert, remove_node, iteration, add, remove, the four re-orderings), since the tie by "
    "regeneration (coq/Props/C09Tie.v) each model operation is PROVED equal, on all heaps, to the method regenerated "
    "from the source (coq/Gen/TrLinkedList.v); still tied by the correspondence only: Deb822Dict and everything above "
    "it, _strI hashing/equality as lower-cased text, the slots of a node as heap cells, weak references as ids",
    "for the tie: harness/py2coq.py's rendering of each construct (HEAP MODE: objects with identity as references into "
    "a threaded heap, attribute reads/writes as heap primitives, allocation, `is`, calls on part of the state, callable "
    "values, try/except Exception/raise, generators as the lists they yield) and the types given in TR_MODULE; "
    "coq/Dict/TrPrims.v (each primitive defined from the model's own heap function); coq/Lib/Tr.v",
    "str.lower() of the running interpreter for keys with non-ASCII letters (carried in each case); "
    "ASCII lower-casing otherwise (coq/Lib/PyStr.v ascii_lower)",
    "the compact encoding of the observed frames (harness/props/c09.py _compact, asserted loss-free against its Python "
    "twin _expand on every case; decoded in Coq by coq/Dict/Check.v decode_frames) and the byte-string literals "
    "(escaped form of core.cq_str with raw line feeds, decoded by Lib.Dec.dec)",
    "Python dict semantics for __table/__dict (keys hashed and compared through _strI.str_lower) as an "
    "association list keyed by the lower-cased key (coq/Dict/Common.v)",
]
ASSUMPTIONS = [
    "weak references (LinkedListNode._previous_node) are modelled as ordinary node ids: every node of a list is "
    "strongly reachable from head_node through next_node, so the weak reference is never dead when followed",
    "garbage collection is not modelled: unlinked nodes stay in the model heap, unreachable",
    "values are str; _parsed (apt_pkg TagSection backing) is None; encoding utf-8; no `fields` filter; default strictness",
    "domain of the history theorems (coq/Dict/Check.v case_in_domain, a boolean condition on the inputs that is part "
    "of `agree`, so every case of a passing run is inside it): the start values pass validate_input, a parsed start's "
    "text parses to the listed fields, and every dump+reparse is applied to a paragraph on which dump-then-parse is the "
    "identity (a theorem for plain field names and single-line values without surrounding blanks, Props/C09.v no. 5; "
    "checked per case otherwise); the full parser is C02's, the model's parser covers plain-text paragraphs without "
    "PGP armour",
    "sort_fields(key=...) is exercised with the closed family of key functions of coq/Dict/Common.v sortkey (default "
    "None, len, constant, the rank table {'package': 0, 'b': 0, 'description': 2, 'd': 2} default 1 on the lower-cased "
    "name, [-ord(c) for c in name.lower()]); key values are modelled as integer lists compared lexicographically",
]

KEYS = ["A", "a", "B", "b", "Cc", "cC", "D"]
# cased non-ASCII letters, incl. one whose lower() has two code points and one title-case letter
UKEYS = ["\u00c9", "\u00e9", "\u0130", "i\u0307", "\u01c5", "\u01c6", "\u03a3", "\u03c3", "\u03c2", "A", "a"]
VALUES = ["1", "2", "x", "x y", "", "v:w", "#h", "\u00e9\u4e16", "-", "a  b", "0", "z."]
MULTI = ["a\n b", "\n c", "p\n q\n\tr"]
INVALID = ["a\n", "a\nb", "a\n\n b", "\n"]


def _ascii_lower(s):
    return "".join(chr(ord(c) + 32) if "A" <= c <= "Z" else c for c in s)


def _value(rng):
    r = rng.random()
    if r < 0.90:
        return rng.choice(VALUES)
    if r < 0.95:
        return rng.choice(MULTI)
    return rng.choice(INVALID)


def _text_from(rng, its):
    lines = []
    if rng.random() < 0.2:
        lines += [""] * rng.randint(1, 2)
    if rng.random() < 0.2:
        lines.append("# comment")
    for k, v in its:
        first, *rest = v.split("\n")
        style = rng.random()
        if first == "":
            lines.append(k + (":" if style < 0.7 else ": " if style < 0.85 else " :"))
        elif style < 0.6:
            lines.append("%s: %s" % (k, first))
        elif style < 0.75:
            lines.append("%s:%s" % (k, first))
        elif style < 0.9:
            lines.append("%s:   %s  " % (k, first))
        else:
            lines.append("%s :\t%s" % (k, first))
        lines += rest
        if rng.random() < 0.08:
            lines.append("#" + rng.choice(["", " c", "A: 1"]))
    text = "\n".join(lines)
    r = rng.random()
    if r < 0.7:
        text += "\n"
    elif r < 0.85 and its:
        text += "\n\nD: second paragraph\n"
    return text


def _start(rng, keys):
    r = rng.random()
    if r < 0.3:
        return {"kind": "empty"}
    n = rng.randint(0, 6)
    if r < 0.65:
        ks = []
        for _ in range(n):
            k = rng.choice(keys)
            if k not in ks:
                ks.append(k)
        return {"kind": "dict", "items": [[k, rng.choice(VALUES + MULTI[:1])] for k in ks]}
    its = [[rng.choice(keys), rng.choice(VALUES + MULTI[:2])] for _ in range(n)]
    return {"kind": "parsed", "items": its, "text": _text_from(rng, its)}


OPS = [("set", 24), ("get", 7), ("del", 10), ("in", 4), ("len", 2), ("iter", 3), ("first", 7), ("last", 7),
       ("before", 10), ("after", 10), ("sort", 7), ("copy", 4), ("reparse", 4), ("dump", 2)]

# the closed family of key functions sort_fields(key=...) is driven with (coq/Dict/Common.v sortkey / sort_key)
RANK = {"package": 0, "b": 0, "description": 2, "d": 2}
SORT_KEYS = {
    "default": None,
    "len": len,
    "const": lambda f: 0,
    "rank": lambda f: RANK.get(f.lower(), 1),
    "revlex": lambda f: [-ord(c) for c in f.lower()],
}
SORT_KEY_COQ = {"default": "KDefault", "len": "KLen", "const": "KConst", "rank": "KRank", "revlex": "KRevLex"}
SORT_KEY_WEIGHTS = [("default", 30), ("len", 20), ("const", 15), ("rank", 20), ("revlex", 15)]


def _gen_case(rng, maxlen=40):
    """One history.  The reference list model (below, independent of /repo) is run alongside,
    only to know which keys are probably present so that most re-orderings succeed."""
    uni = rng.random() < 0.1
    keys = UKEYS if uni else KEYS
    start = _start(rng, keys)
    n = rng.randint(1, maxlen) if rng.random() < 0.8 else rng.randint(1, 6)
    ops = []
    sim = [_RefDict(start.get("items", []))]
    names, weights = zip(*OPS)

    def pick(d, want_present):
        present = list(d)
        if present and rng.random() < want_present:
            k = rng.choice(present)
            # the same field, often spelled in the other case
            alts = [a for a in keys if a.lower() == k.lower()]
            return rng.choice(alts) if rng.random() < 0.5 else k
        return rng.choice(keys)

    for _ in range(n):
        kind = rng.choices(names, weights)[0]
        r = rng.random()
        nobj = len(sim)
        o = nobj - 1 if r < 0.4 else 0 if r < 0.6 else rng.randrange(nobj)
        d = sim[o]
        op = {"op": kind, "o": o}
        if kind in ("get", "del", "first", "last", "before", "after"):
            op["k"] = pick(d, 0.7)
        elif kind in ("set", "in"):
            op["k"] = pick(d, 0.3)
        if kind == "set":
            op["v"] = _value(rng)
        if kind == "sort":
            op["key"] = rng.choices([n for n, _ in SORT_KEY_WEIGHTS], [w for _, w in SORT_KEY_WEIGHTS])[0]
        if kind in ("before", "after"):
            if rng.random() < 0.07:
                op["r"] = op["k"].swapcase() if rng.random() < 0.6 else op["k"]
            else:
                other = [a for a in d if a.lower() != op["k"].lower()]
                if other and rng.random() < 0.8:
                    op["r"] = rng.choice(other)
                    if rng.random() < 0.4:
                        op["r"] = rng.choice([a for a in keys if a.lower() == op["r"].lower()])
                else:
                    op["r"] = rng.choice(keys)
        if kind in ("copy", "reparse") and nobj >= 5:
            continue
        ops.append(op)
        try:
            if kind == "reparse":
                sim.append(d.copy())
            elif kind == "set" and op["v"] in INVALID:
                pass
            else:
                _apply(None, sim, op)
        except (KeyError, ValueError):
            pass
    return {"alpha": list(keys), "start": start, "ops": ops}


def generate(rng, n, tier):
    for _ in range(n):
        yield _gen_case(rng)


def from_json(j):
    return j


# ---------------------------------------------------------------------------
# implementation driver

def _val(v):
    return v if isinstance(v, str) else "<non-str %r>" % (v,)


def _items(d):
    try:
        return {"ok": [[_val(k), _val(d[k])] for k in list(d)]}
    except Exception as e:
        return {"err": err_kind(e)}


def _view(d, alpha):
    try:
        keys = list(d)
        vals = [d[k] for k in keys]
        return {"ok": {"items": [[_val(k), _val(v)] for k, v in zip(keys, vals)], "len": len(d),
                       "in": [bool(k in d) for k in alpha], "dump": _val(d.dump())}}
    except Exception as e:
        return {"err": err_kind(e)}


def _apply(Deb822, objs, op):
    """Returns the canonical result; appends to objs for copy / reparse."""
    kind = op["op"]
    d = objs[op["o"]]
    if kind == "set":
        d[op["k"]] = op["v"]
    elif kind == "get":
        return {"str": _val(d[op["k"]])}
    elif kind == "del":
        del d[op["k"]]
    elif kind == "in":
        return {"bool": bool(op["k"] in d)}
    elif kind == "len":
        return {"nat": len(d)}
    elif kind == "iter":
        return {"keys": [_val(k) for k in list(d)]}
    elif kind == "first":
        d.order_first(op["k"])
    elif kind == "last":
        d.order_last(op["k"])
    elif kind == "before":
        d.order_before(op["k"], op["r"])
    elif kind == "after":
        d.order_after(op["k"], op["r"])
    elif kind == "sort":
        f = SORT_KEYS[op.get("key", "default")]
        if f is None:
            d.sort_fields()
        else:
            d.sort_fields(key=f)
    elif kind == "copy":
        c = d.copy()
        objs.append(c)
    elif kind == "reparse":
        c = Deb822(d.dump())
        objs.append(c)
    elif kind == "dump":
        return {"str": _val(d.dump())}
    else:
        raise RuntimeError("unknown op %r" % kind)
    return {"none": True}


def _frame(out, objs, vi, alpha):
    return {"out": out,
            "view": _view(objs[vi], alpha) if 0 <= vi < len(objs) else {"err": "IndexError"},
            "all": [_items(d) for d in objs]}


def _run(make, case):
    alpha = case["alpha"]
    objs, frames = [], []
    st = case["start"]
    try:
        objs.append(make(st))
        out = {"none": True}
    except Exception as e:
        out = {"err": err_kind(e)}
    frames.append(_frame(out, objs, 0, alpha))
    for op in case["ops"]:
        nb = len(objs)
        if not 0 <= op["o"] < nb:
            out = {"err": "IndexError"}
        else:
            try:
                out = _apply(make.cls, objs, op)
            except Exception as e:
                out = {"err": err_kind(e)}
        vi = nb if (op["op"] in ("copy", "reparse") and len(objs) > nb) else op["o"]
        frames.append(_frame(out, objs, vi, alpha))
    return {"frames": frames}


class _MakeImpl:
    def __init__(self):
        from debian.deb822 import Deb822
        self.cls = Deb822

    def __call__(self, st):
        if st["kind"] == "empty":
            return self.cls()
        if st["kind"] == "dict":
            return self.cls(dict((k, v) for k, v in st["items"]))
        return self.cls(st["text"])


def run_impl(case):
    return _run(_MakeImpl(), case)


# ---------------------------------------------------------------------------
# Coq emitter

def _s(x):
    """a text literal of a case file: a byte-string literal (coq/Dict/Check.v bstr) in the escaped form of cq_str"""
    # a line feed is written raw (1 byte instead of the 7 of its escape); Lib.Dec.dec maps any byte other than
    # a backslash to itself
    return cq_str(x).replace("\\00000a", "\n") + "%bs"


def _strs(xs):
    return cq_list([_s(x) for x in xs])


def _pairs(its):
    return cq_list(["(%s, %s)" % (_s(k), _s(v)) for k, v in its])


def _emit_op(op):
    k, o = op["op"], cq_nat(op["o"])
    if k == "set":
        return "XSet %s %s %s" % (o, _s(op["k"]), _s(op["v"]))
    if k in ("before", "after"):
        return "%s %s %s %s" % ("XBefore" if k == "before" else "XAfter", o, _s(op["k"]), _s(op["r"]))
    one = {"get": "XGet", "del": "XDel", "in": "XIn", "first": "XFirst", "last": "XLast"}
    if k in one:
        return "%s %s %s" % (one[k], o, _s(op["k"]))
    if k == "sort":
        return "XSort %s %s" % (o, SORT_KEY_COQ[op.get("key", "default")])
    zero = {"len": "XLen", "iter": "XIter", "copy": "XCopy", "reparse": "XReparse", "dump": "XDump"}
    return "%s %s" % (zero[k], o)


def _emit_out(out):
    if "none" in out:
        return "YNone"
    if "str" in out:
        return "(YStr %s)" % _s(out["str"])
    if "bool" in out:
        return "(YBool %s)" % cq_bool(out["bool"])
    if "nat" in out:
        return "(YNat %s)" % cq_nat(out["nat"])
    if "keys" in out:
        return "(YKeys %s)" % _strs(out["keys"])
    return "(YErr %s)" % out["err"]


def _compact(frames):
    """Compact form of the observed frames (coq/Dict/Check.v decode_frames): only the paragraphs whose items differ
    from the previous frame (or are new) are kept; a view equal to the previous frame's becomes None; view items equal
    to an entry of the frame's `all` become a reference; the membership answers become a bit mask."""
    out, prev_all, prev_view = [], [], None
    for f in frames:
        v = f["view"]
        if prev_view is not None and v == prev_view:
            view = None
        elif "ok" in v:
            w = v["ok"]
            same = [j for j, x in enumerate(f["all"]) if "ok" in x and x["ok"] == w["items"]]
            view = {"ok": {"items": ("same", same[0]) if same else ("list", w["items"]), "len": w["len"],
                           "mask": sum(1 << i for i, b in enumerate(w["in"]) if b), "dump": w["dump"]}}
        else:
            view = {"err": v["err"]}
        upd = [(j, x) for j, x in enumerate(f["all"]) if not (j < len(prev_all) and prev_all[j] == x)]
        out.append({"out": f["out"], "view": view, "n": len(f["all"]), "upd": upd})
        prev_all, prev_view = f["all"], v
    return out


def _expand(compact, nalpha):
    """Python twin of Check.decode_frames; used only to assert that _compact loses nothing."""
    frames, prev_all, prev_view = [], [], None
    for c in compact:
        upd = dict(c["upd"])
        al = [upd[j] if j in upd else prev_all[j] for j in range(c["n"])]
        v = c["view"]
        if v is None:
            view = prev_view
        elif "err" in v:
            view = {"err": v["err"]}
        else:
            w = v["ok"]
            kind, arg = w["items"]
            view = {"ok": {"items": al[arg]["ok"] if kind == "same" else arg, "len": w["len"],
                           "in": [bool(w["mask"] >> i & 1) for i in range(nalpha)], "dump": w["dump"]}}
        frames.append({"out": c["out"], "view": view, "all": al})
        prev_all, prev_view = al, view
    return frames


def _emit_compact(c):
    v = c["view"]
    if v is None:
        view = "None"
    elif "err" in v:
        view = "(Some (Err %s))" % v["err"]
    else:
        w = v["ok"]
        kind, arg = w["items"]
        items = "(ISame %s)" % cq_nat(arg) if kind == "same" else "(IList %s)" % _pairs(arg)
        view = "(Some (Ok (mkV %s %s %d%%N %s)))" % (items, cq_nat(w["len"]), w["mask"], _s(w["dump"]))
    upd = ["(%s, %s)" % (cq_nat(j), "Ok %s" % _pairs(x["ok"]) if "ok" in x else "Err %s" % x["err"])
           for j, x in c["upd"]]
    return "mkF %s %s %s %s" % (_emit_out(c["out"]), view, cq_nat(c["n"]), cq_list(upd))


def _emit_frames(frames, nalpha):
    compact = _compact(frames)
    if _expand(compact, nalpha) != frames:
        raise RuntimeError("C09 emitter: compact frame encoding does not expand to the observation")
    return [_emit_compact(c) for c in compact]


def _case_keys(case):
    ks = set(case["alpha"])
    st = case["start"]
    for k, _ in st.get("items", []):
        ks.add(k)
    for op in case["ops"]:
        for f in ("k", "r"):
            if f in op:
                ks.add(op[f])
    return sorted(ks)


def emit(case, obs):
    st = case["start"]
    if st["kind"] == "empty":
        start = "ZEmpty"
    elif st["kind"] == "dict":
        start = "(ZDict %s)" % _pairs(st["items"])
    else:
        start = "(ZParsed %s %s)" % (_s(st["text"]), _pairs(st["items"]))
    lower = [(k, k.lower()) for k in _case_keys(case) if k.lower() != _ascii_lower(k)]
    return "mk %s %s %s\n %s\n %s" % (
        _pairs(lower), _strs(case["alpha"]), start,
        cq_list([_emit_op(op) for op in case["ops"]]),
        cq_list(_emit_frames(obs["frames"], len(case["alpha"]))))


# ---------------------------------------------------------------------------

MUTATORS = ("set", "del", "first", "last", "before", "after", "sort", "copy", "reparse")


def _is_ascii_case(case):
    return all(ord(c) < 128 for k in _case_keys(case) for c in k)


def classify(case, obs):
    n = len(case["ops"])
    errs = sorted({f["out"]["err"] for f in obs["frames"] if "err" in f["out"]})
    return "%s/%s/len%s/%s" % (case["start"]["kind"], "ascii" if _is_ascii_case(case) else "non-ascii",
                               "1-5" if n <= 5 else "6-20" if n <= 20 else "21-40",
                               "+".join(e[:-5] for e in errs) or "noerr")


def nontrivial(case, obs):
    return any(op["op"] in MUTATORS and "none" in f["out"]
               for op, f in zip(case["ops"], obs["frames"][1:]))


def extra_evidence(items):
    hist = {}
    nobj = {}
    for case, obs in items:
        for op, f in zip(case["ops"], obs["frames"][1:]):
            name = op["op"] if op["op"] != "sort" else "sort[%s]" % op.get("key", "default")
            k = "%s:%s" % (name, f["out"].get("err", "ok"))
            hist[k] = hist.get(k, 0) + 1
        n = len(obs["frames"][-1]["all"])
        nobj[str(n)] = nobj.get(str(n), 0) + 1
    return {"operation_outcomes": hist, "paragraph_objects_per_history": nobj,
            "operations_total": sum(hist.values())}


def _renumber(ops):
    """Keep object indices meaningful after operations were removed."""
    out, nobj = [], 1
    for op in ops:
        op = dict(op)
        if op["o"] >= nobj:
            op["o"] = 0
        if op["op"] in ("copy", "reparse"):
            nobj += 1
        out.append(op)
    return out


def shrink(case):
    ops = case["ops"]
    n = len(ops)
    for cut in (n // 2, n // 4):
        if cut:
            yield dict(case, ops=_renumber(ops[:n - cut]))
            yield dict(case, ops=_renumber(ops[cut:]))
    for i in range(n - 1, -1, -1):
        yield dict(case, ops=_renumber(ops[:i] + ops[i + 1:]))
    st = case["start"]
    if st["kind"] != "empty":
        yield dict(case, start={"kind": "empty"})
        its = st["items"]
        for i in range(len(its)):
            sub = its[:i] + its[i + 1:]
            if st["kind"] == "dict":
                yield dict(case, start={"kind": "dict", "items": sub})
            else:
                yield dict(case, start={"kind": "parsed", "items": sub,
                                        "text": "".join("%s: %s\n" % (k, v) if v else "%s:\n" % k for k, v in sub)})
    for i, op in enumerate(ops):
        if op.get("v") not in (None, "1"):
            yield dict(case, ops=ops[:i] + [dict(op, v="1")] + ops[i + 1:])


def neighbours(case, rng):
    ops = case["ops"]
    for i in range(1, len(ops) + 1):
        yield dict(case, ops=ops[:i])
    for _ in range(60):
        if len(ops) >= 2:
            i = rng.randrange(len(ops) - 1)
            sw = ops[:i] + [ops[i + 1], ops[i]] + ops[i + 2:]
            yield dict(case, ops=_renumber(sw))
    for _ in range(60):
        c = _gen_case(rng, 12)
        yield dict(c, start=case["start"], alpha=case["alpha"]) if _is_ascii_case(c) == _is_ascii_case(case) else c


def describe(case, obs):
    bad = None
    return {"call": "objs=[Deb822(start)]; then each op on objs[o]; copy/reparse append a new paragraph",
            "start": case["start"], "ops": case["ops"],
            "final_items_of_every_paragraph": obs["frames"][-1]["all"] if obs.get("frames") else bad,
            "results": [f["out"] for f in obs.get("frames", [])],
            "specified": "after every operation, list(d), values, len, membership and dump() of every paragraph equal "
                         "those of an association list with case-insensitive lookup (first spelling kept); missing "
                         "key -> KeyError, re-ordering relative to itself -> ValueError, mapping unchanged"}


# ---------------------------------------------------------------------------
# Spec-side validation: coq/Dict/Spec.v against an independent Python list model
# (nothing below imports /repo).

class _RefDict:
    """Insertion-ordered, case-insensitive, case-preserving mapping as a plain list."""

    def __init__(self, its=()):
        self.l = []
        for k, v in its:
            self[k] = v

    def _find(self, k):
        for i, (k2, _) in enumerate(self.l):
            if k2.lower() == k.lower():
                return i
        return None

    def _need(self, k):
        i = self._find(k)
        if i is None:
            raise KeyError(k)
        return i

    def __iter__(self):
        return iter([k for k, _ in self.l])

    def __len__(self):
        return len(self.l)

    def __contains__(self, k):
        return self._find(k) is not None

    def __getitem__(self, k):
        return self.l[self._need(k)][1]

    def __setitem__(self, k, v):
        i = self._find(k)
        if i is None:
            self.l.append((k, v))
        else:
            self.l[i] = (self.l[i][0], v)

    def __delitem__(self, k):
        del self.l[self._need(k)]

    def order_first(self, k):
        self.l.insert(0, self.l.pop(self._need(k)))

    def order_last(self, k):
        self.l.append(self.l.pop(self._need(k)))

    def _rel(self, k, r, off):
        if k.lower() == r.lower():
            raise ValueError("relative to itself")
        self._need(r)
        i = self._need(k)           # both lookups before any change
        p = self.l.pop(i)
        self.l.insert(self._need(r) + off, p)

    def order_before(self, k, r):
        self._rel(k, r, 0)

    def order_after(self, k, r):
        self._rel(k, r, 1)

    def sort_fields(self, key=None):
        f = key if key is not None else (lambda name: name.lower())
        self.l = sorted(self.l, key=lambda kv: f(kv[0]))       # list.sort / sorted are stable

    def copy(self):
        return _RefDict(self.l)

    def dump(self):
        return "".join("%s:%s%s\n" % (k, "" if (not v or v[0] == "\n") else " ", v) for k, v in self.l)


def _run_ref(case):
    """The reference list model driven through the same driver; dump+reparse is a copy."""
    alpha = case["alpha"]
    objs, frames = [_RefDict(case["start"].get("items", []))], []
    frames.append(_frame({"none": True}, objs, 0, alpha))
    for op in case["ops"]:
        nb = len(objs)
        if not 0 <= op["o"] < nb:
            out = {"err": "IndexError"}
        else:
            try:
                if op["op"] == "reparse":
                    objs.append(objs[op["o"]].copy())
                    out = {"none": True}
                else:
                    out = _apply(None, objs, op)
            except Exception as e:
                out = {"err": err_kind(e)}
        vi = nb if (op["op"] in ("copy", "reparse") and len(objs) > nb) else op["o"]
        frames.append(_frame(out, objs, vi, alpha))
    return {"frames": frames}


def spec_selftest(items, scratch, tier):
    from harness import core
    import sys
    mod = sys.modules[__name__]
    take = items[:120] if tier != "thorough" else items[:1500]
    ref_items = [(c, _run_ref(c)) for c, _ in take]
    _, hb, errs = core.evaluate(mod, scratch, ref_items, tag="spec")
    dis = [{"case": ref_items[i][0]} for i in hb[:3]]
    if errs:
        dis.append({"shard_errors": errs[:1]})
    return {"oracle": "plain Python list model (harness/props/c09.py _RefDict; independent of /repo)",
            "compared": len(ref_items), "disagreements": dis}


# ---------------------------------------------------------------------------
# TIE BY REGENERATION, at the POINTER LEVEL: the doubly linked list behind the ordered key set — LinkedListNode,
# LinkedList and OrderedSet of lib/debian/_util.py — is regenerated into coq/Gen/TrLinkedList.v on every run
# (harness/py2coq.py, HEAP MODE: a LinkedListNode is a reference `id` into the model's heap of Dict/Heap.v, which is
# threaded as hidden state and returned on exceptions too; `x.attr` / `x.attr = v` on a reference are heap lookups /
# updates through the primitives of coq/Dict/TrPrims.v, each defined from the model's own heap functions;
# `LinkedListNode(v)` is the model's fresh allocation followed by the translated __init__; `a is b` is id equality;
# the LinkedList inside an OrderedSet is part of the OrderedSet's state; the `reinserter` of OrderedSet._reorder is a
# callable value: a bound method or a lambda, translated as a Coq function on the state).  coq/Dict/Tie.v proves every
# regenerated function equal to the model's pointer-level operation that `agree` runs — for ALL heaps (well-formed or not),
# all head/tail/table values and all arguments: same heap, same result, same exception kind; statements in
# coq/Props/C09Tie.v.
from harness import extract            # noqa: E402
from harness import py2coq as _P       # noqa: E402

_REF = ("ref", "LinkedListNode")
_OREF = ("option", _REF)
_WREF = ("coq", "wref")
_HEAPT = ("coq", "heap")
_HS = [("<heap>", "hp", _HEAPT)]                 # functions that change nodes: the heap is state
_HG = [("hp", _HEAPT)]                            # functions that only read nodes: the heap is a ghost parameter
_LLS = _HS + [("self.head_node", "s_head", _OREF), ("self.tail_node", "s_tail", _OREF), ("self._size", "s_size", "Z")]
_LLG = _HG + [("s_head", _OREF), ("s_tail", _OREF), ("s_size", "Z")]
_LLV = ["hp", "s_head", "s_tail", "s_size"]


def _sub(coq, args, ret, sub):
    c = _P.Call(coq, args, ret)
    c.substate = list(sub)
    return c


def _nf(coq, name, params, ret, **kw):           # LinkedListNode: `self` is an ordinary parameter (a reference)
    return _P.Fun(coq, "LinkedListNode." + name, params, ret, state=_HS, **kw)


def _lm(coq, name, params, ret, **kw):           # LinkedList methods that change the list / the nodes
    return _P.Fun(coq, "LinkedList." + name, params, ret, skip_first=True, state=_LLS, **kw)


def _lr(coq, name, params, ret, **kw):           # LinkedList methods that only read
    return _P.Fun(coq, "LinkedList." + name, params, ret, skip_first=True, ghost=_LLG, **kw)


_STRI = ("coq", "stri")
_TBL = ("coq", "ostable")
_LOW = [("lower", ("coq", "(str -> str)"))]
_OSS = _HS + [("self.__table", "s_table", _TBL), ("self.__order.head_node", "s_head", _OREF),
              ("self.__order.tail_node", "s_tail", _OREF), ("self.__order._size", "s_size", "Z")]
_OSG = _LOW + _HG + [("s_table", _TBL), ("s_head", _OREF), ("s_tail", _OREF), ("s_size", "Z")]
_OSV = ["hp", "s_table", "s_head", "s_tail", "s_size"]
_OSGV = "lower hp s_table s_head s_tail s_size"
_REINS = ("fun", ("str",), _REF, tuple((v, t) for _, v, t in _OSS))       # Callable[[str], LinkedListNode[str]]


def _om(coq, name, params, ret, **kw):           # OrderedSet methods that change the set
    return _P.Fun(coq, "OrderedSet." + name, params, ret, skip_first=True, state=_OSS, ghost=_LOW, **kw)


def _or(coq, name, params, ret, **kw):           # OrderedSet methods that only read
    return _P.Fun(coq, "OrderedSet." + name, params, ret, skip_first=True, ghost=_OSG, **kw)


_f_resolve = _P.Fun("tr_resolve_ref", "resolve_ref", [("ref", ("option", _WREF))], _OREF)
_f_resolve.calls = {"ref": _P.Call("trp_deref ref", [], _OREF)}      # calling the weak reference

_get_prev = _P.Call("tr_node_get_prev hp", [_REF], _OREF, True)
_set_prev = _sub("tr_node_set_prev", [_REF, _OREF], "unit", ["hp"])

TR_MODULE = _P.Module(
    "TrLinkedList", "lib/debian/_util.py",
    funs=[
        _f_resolve,
        # --- LinkedListNode
        _nf("tr_node_init", "__init__", [("self", _REF), ("value", "str")], "unit"),
        _P.Fun("tr_node_get_prev", "LinkedListNode.previous_node@getter", [("self", _REF)], _OREF, ghost=_HG),
        _nf("tr_node_set_prev", "previous_node@setter", [("self", _REF), ("node", _OREF)], "unit"),
        _nf("tr_link_nodes", "link_nodes", [("previous_node", _OREF), ("next_node", _OREF)], "unit"),
        _nf("tr_insert_link", "_insert_link", [("first_node", _OREF), ("new_node", _REF), ("last_node", _OREF)], "unit"),
        _nf("tr_node_insert_before", "insert_before", [("self", _REF), ("new_node", _REF)], "unit"),
        _nf("tr_node_insert_after", "insert_after", [("self", _REF), ("new_node", _REF)], "unit"),
        _nf("tr_node_remove", "remove", [("self", _REF)], "str"),
        _P.Fun("tr_node_iter_next", "LinkedListNode.iter_next", [("self", _REF)], _REF, generator=True, ghost=_HG,
               locals={"node": _OREF, "skip_current": "bool"}, fuel={1: "S (walk_fuel hp)"}),
        # --- LinkedList
        _lr("tr_ll_bool", "__bool__", [], "bool"),
        _lr("tr_ll_len", "__len__", [], "Z"),
        _lr("tr_ll_tail", "tail", [], ("option", "str")),
        _lm("tr_ll_remove_node", "remove_node", [("node", _REF)], "unit"),
        _lm("tr_ll_pop", "pop", [], "unit"),
        _lr("tr_ll_iter_nodes", "iter_nodes", [], _REF, generator=True, locals={"head_node": _OREF}),
        _lr("tr_ll_iter", "__iter__", [], "str", generator=True, locals={"node": _REF}),
        _lm("tr_ll_append", "append", [("value", "str")], _REF, locals={"node": _REF}),
        _lm("tr_ll_extend", "extend", [("values", ("list", "str"))], "unit", locals={"v": "str"}),
        _lm("tr_ll_init", "__init__", [], "unit", locals={"values": ("option", ("list", "str"))}),
        _lm("tr_ll_insert_node_before", "insert_node_before", [("new_node", _REF), ("existing_node", _REF)], _REF),
        _lm("tr_ll_insert_node_after", "insert_node_after", [("new_node", _REF), ("existing_node", _REF)], _REF),
        _lm("tr_ll_insert_before", "insert_before", [("value", "str"), ("existing_node", _REF)], _REF),
        _lm("tr_ll_insert_after", "insert_after", [("value", "str"), ("existing_node", _REF)], _REF),
        _lm("tr_ll_insert_at_head", "insert_at_head", [("value", "str")], _REF),
        _lm("tr_ll_clear", "clear", [], "unit"),
        # --- OrderedSet
        _or("tr_os_contains", "__contains__", [("item", _STRI)], "bool"),
        _or("tr_os_len", "__len__", [], "Z"),
        _or("tr_os_iter", "__iter__", [], ("list", "str")),
        _om("tr_os_add", "add", [("item", _STRI)], "unit", locals={"node": _REF}),
        _om("tr_os_remove", "remove", [("item", _STRI)], "unit", locals={"node": _REF}),
        _om("tr_os_extend", "extend", [("iterable", ("list", _STRI))], "unit", locals={"item": _STRI}),
        _om("tr_os_reorder", "_reorder", [("item", _STRI), ("reinserter", _REINS)], "unit",
            locals={"node": _REF, "new_node": _REF}),
        _om("tr_os_order_last", "order_last", [("item", _STRI)], "unit"),
        _om("tr_os_order_first", "order_first", [("item", _STRI)], "unit"),
        _om("tr_os_order_before", "order_before", [("item", _STRI), ("reference_item", _STRI)], "unit",
            locals={"reference_node": _REF}),
        _om("tr_os_order_after", "order_after", [("item", _STRI), ("reference_item", _STRI)], "unit",
            locals={"reference_node": _REF}),
    ],
    calls={
        "resolve_ref": _P.Call("tr_resolve_ref", [("option", _WREF)], _OREF, True),
        "weakref.ref": _P.Call("trp_weakref", [_REF], _WREF),
        "LinkedListNode": _sub("tr_node_new", ["str"], _REF, ["hp"]),
        "LinkedListNode.link_nodes": _sub("tr_link_nodes", [_OREF, _OREF], "unit", ["hp"]),
        "LinkedListNode._insert_link": _sub("tr_insert_link", [_OREF, _REF, _OREF], "unit", ["hp"]),
        "<LinkedListNode>.insert_before": _sub("tr_node_insert_before", [_REF, _REF], "unit", ["hp"]),
        "<LinkedListNode>.insert_after": _sub("tr_node_insert_after", [_REF, _REF], "unit", ["hp"]),
        "<LinkedListNode>.remove": _sub("tr_node_remove", [_REF], "str", ["hp"]),
        "<LinkedListNode>.iter_next": _P.Call("tr_node_iter_next hp", [_REF], ("list", _REF), True),
        "self.iter_nodes": _P.Call("tr_ll_iter_nodes hp s_head s_tail s_size", [], ("list", _REF), True),
        "self.remove_node": _sub("tr_ll_remove_node", [_REF], "unit", _LLV),
        "self.extend": _sub("tr_ll_extend", [("list", "str")], "unit", _LLV),
        "self.append": _sub("tr_ll_append", ["str"], _REF, _LLV),
        "self.insert_before": _sub("tr_ll_insert_before", ["str", _REF], _REF, _LLV),
        "self.insert_node_before": _sub("tr_ll_insert_node_before", [_REF, _REF], _REF, _LLV),
        "self.insert_node_after": _sub("tr_ll_insert_node_after", [_REF, _REF], _REF, _LLV),
        # OrderedSet: self.__order is a LinkedList whose attributes are part of the state; self.__table an opaque dict
        "self.__order.append": _sub("tr_ll_append", ["str"], _REF, _LLV),
        "self.__order.insert_at_head": _sub("tr_ll_insert_at_head", ["str"], _REF, _LLV),
        "self.__order.insert_before": _sub("tr_ll_insert_before", ["str", _REF], _REF, _LLV),
        "self.__order.insert_after": _sub("tr_ll_insert_after", ["str", _REF], _REF, _LLV),
        "self.__order.remove_node": _sub("tr_ll_remove_node", [_REF], "unit", _LLV),
        "in self": _P.Call("tr_os_contains " + _OSGV, [_STRI], "bool", True),
        "iter": _P.Call("tr_ll_iter hp s_head s_tail s_size", [("literal", "self.__order", "")], ("list", "str"), True),
        "len": _P.Call("tr_ll_len hp s_head s_tail s_size", [("literal", "self.__order", "")], "Z", True),
        "<ostable>.__contains__": _P.Call("trp_tbl_mem lower", [_TBL, _STRI], "bool"),
        "<ostable>.__getitem__": _P.Call("trp_tbl_get lower", [_TBL, _STRI], _REF, True),
        "<ostable>.__setitem__": _P.Call("trp_tbl_set lower", [_TBL, _STRI, _REF], "unit", mutates=True),
        "<ostable>.__delitem__": _P.Call("trp_tbl_del lower", [_TBL, _STRI], "unit", True, mutates=True),
        "<stri>.__eq__": _P.Call("trp_stri_eqb lower", [_STRI, _STRI], "bool"),
        "self.add": _sub("tr_os_add", [_STRI], "unit", _OSV),
        "self._reorder": _sub("tr_os_reorder", [_STRI, _REINS], "unit", _OSV),
    },
    consts={"self.__table": ("s_table", _TBL), "self.head_node": ("s_head", _OREF), "self.tail_node": ("s_tail", _OREF), "self._size": ("s_size", "Z")},
    imports=["Dict.Common", "Dict.Heap", "Dict.TrPrims"])
TR_MODULE.heap = _P.Heap("hp", _HEAPT, {
    "LinkedListNode": _P.HeapClass(
        "id",
        fields={"_previous_node": (("option", _WREF), "trp_get_prev", "trp_set_prev"),
                "next_node": (_OREF, "trp_get_next", "trp_set_next"),
                "value": ("str", "trp_get_value", "trp_set_value")},
        props={"previous_node": (_get_prev, _set_prev)},
        eqb="Pos.eqb", opt_eqb="oid_eqb", alloc="trp_alloc", init="tr_node_init", new="tr_node_new")},
    assume="trp_assume_some")
TR_MODULE.coercions = [(_STRI, "str", "%s")]      # a _strI IS a str (the node's value is the item as spelled)


@extract.register("TrLinkedList")
def _gen_tr(repo):
    return _P.translate_module(repo, TR_MODULE)


import os as _os    # noqa: E402
# (registered only while the theorem file is there, so that ./check C09 never breaks on a tree without it)
TIE_FILE = "Props/C09Tie.v" if _os.path.exists(_os.path.join(
    _os.path.dirname(_os.path.abspath(__file__)), "..", "..", "coq", "Props", "C09Tie.v")) else None
