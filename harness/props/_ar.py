"""The harness's own ar writer (shared by C06 and C07).  Independent of /repo:
follows the common ar(5) layout

    !<arch>\\n   then per member
    name[16] mtime[12] owner[6] group[6] mode[8] size[10] `\\n   data   (LF pad if size is odd)

with every field left-justified and padded with spaces.  A member is a dict
{"name": str (latin-1 <-> bytes), "slash": bool (GNU style terminator),
 "mtime","owner","group": int, "mode": str of 8 chars, "data": str (latin-1 <-> bytes)}.
"""

GLOBAL = b"!<arch>\n"
MAGIC = b"`\n"


def _pad(b, w):
    assert len(b) <= w, (b, w)
    return b + b" " * (w - len(b))


def header(m, size=None):
    name = m["name"].encode("latin-1") + (b"/" if m["slash"] else b"")
    size = len(m["data"]) if size is None else size
    return (_pad(name, 16) + _pad(b"%d" % m["mtime"], 12) + _pad(b"%d" % m["owner"], 6)
            + _pad(b"%d" % m["group"], 6) + _pad(m["mode"].encode("latin-1"), 8)
            + _pad(b"%d" % size, 10) + MAGIC)


def member_bytes(m):
    data = m["data"].encode("latin-1")
    return header(m) + data + (b"\n" if len(data) % 2 else b"")


def build(members):
    return GLOBAL + b"".join(member_bytes(m) for m in members)


def simple_member(name, data, mtime=0, owner=0, group=0, mode="100644", slash=True):
    if isinstance(data, bytes):
        data = data.decode("latin-1")
    return {"name": name, "slash": slash, "mtime": mtime, "owner": owner, "group": group,
            "mode": mode.ljust(8), "data": data}
